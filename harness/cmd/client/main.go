// Command client binds spec/Client.tla to imapclient.Client (property C12).
// The harness is the scripted server: it writes exactly the lines the
// behaviour dictates and reads what the client sends; after every step a
// NOOP barrier guarantees the client's reader has processed everything, then
// State(), Mailbox(), unilateral data and every command's completion status
// and delivered data are compared with what the transcript implies.
//
//	client replay <tlc-output>     client one <behaviour.json>     client random <out.ndjson>
package main

import (
	"bufio"
	"encoding/json"
	"errors"
	"flag"
	"fmt"
	"io"
	"math/rand"
	"os"
	"sort"
	"strings"
	"sync"
	"sync/atomic"
	"time"

	"github.com/emersion/go-imap/v2"
	"github.com/emersion/go-imap/v2/imapclient"
	"github.com/emersion/go-sasl"

	"verif/harness/vh"
)

type item [3]interface{} // type, n, x

type accT struct {
	Num     uint32 `json:"num"`
	Flags   string `json:"flags"`
	Perm    string `json:"perm"`
	UIDNext uint32 `json:"uidnext"`
	UIDVal  uint32 `json:"uidval"`
	List    string `json:"list"`
	Items   []item `json:"items"`
}

type compT struct {
	ID   int    `json:"id"`
	St   string `json:"st"`
	Kind string `json:"kind"`
	Arg  string `json:"arg"`
	Acc  accT   `json:"acc"`
}

type mboxT struct {
	Name  string `json:"name"`
	Num   uint32 `json:"num"`
	Flags string `json:"flags"`
	Perm  string `json:"perm"`
}

type obsT struct {
	Cstate  string  `json:"cstate"`
	CmpMbox bool    `json:"cmpmbox"`
	Mbox    mboxT   `json:"mbox"`
	Alive   bool    `json:"alive"`
	Comp    []compT `json:"comp"`
	Pend    []int   `json:"pend"`
	Uni     []item  `json:"uni"`
	// no NOOP round trip is possible after this step: an IDLE occupies the connection
	NoBarrier bool `json:"nobarrier"`
}

type event struct {
	Act string `json:"act"`
	S1  string `json:"s1"`
	S2  string `json:"s2"`
	N1  int    `json:"n1"`
	N2  int    `json:"n2"`
	Exp *obsT  `json:"exp,omitempty"`
}

var flagSets = map[string][]imap.Flag{
	"none": {},
	"f0":   {imap.FlagSeen},
	"f1":   {imap.FlagSeen, imap.FlagDeleted, "$custom"},
}

func flagText(name string) string {
	var parts []string
	for _, f := range flagSets[name] {
		parts = append(parts, string(f))
	}
	return "(" + strings.Join(parts, " ") + ")"
}

// flagName maps a flag list back to the model's name ("?" if it is none of them).
func flagName(fl []imap.Flag) string {
	norm := func(l []imap.Flag) string {
		var s []string
		for _, f := range l {
			s = append(s, strings.ToLower(string(f)))
		}
		sort.Strings(s)
		return strings.Join(s, " ")
	}
	for _, name := range []string{"none", "f0", "f1"} {
		if norm(fl) == norm(flagSets[name]) {
			return name
		}
	}
	return "?" + norm(fl)
}

// result of one command, filled by its waiter goroutine
type result struct {
	done  int32
	st    string
	data  accT
	ready chan struct{}
}

type world struct {
	cl    *imapclient.Client
	srv   *vh.Conn
	br    *bufio.Reader
	tags  []string  // tag of command id (1-based -> index id-1)
	res   []*result // per command id
	kinds []string
	uniMu sync.Mutex
	uni   []item
	dead  bool
	idles map[int]*idleT // per command id
	// syncLit: the server advertises no non-synchronising literals; appends: per APPEND command, closed once the
	// literal has been written by the client (the continuation request was honoured)
	syncLit bool
	caps    string
	appends map[int]chan struct{}
}

// idleT is the harness side of one IDLE command
type idleT struct {
	running chan struct{} // closed when Client.Idle has returned without error
	stop    chan struct{} // closed by the IdleDone action
	once    sync.Once
}

func (id *idleT) stopNow() { id.once.Do(func() { close(id.stop) }) }

// capability lists of the model (c1 = c0 + XTEST); both keep what the client's behaviour depends on
const capsC0 = "IMAP4rev1 LITERAL+ MOVE UIDPLUS"

func capsText(name string) string {
	if name == "c1" {
		return capsC0 + " XTEST"
	}
	return capsC0
}

func statusOf(err error) string {
	if err == nil {
		return "OK"
	}
	var ie *imap.Error
	if errors.As(err, &ie) {
		switch ie.Type {
		case imap.StatusResponseTypeNo:
			return "NO"
		case imap.StatusResponseTypeBad:
			return "BAD"
		}
	}
	return "ERR"
}

func newWorld(greet, variant string) (*world, error) {
	c, s := vh.NewConnPair()
	w := &world{srv: s, br: bufio.NewReader(s), idles: map[int]*idleT{}, syncLit: variant == "synclit", appends: map[int]chan struct{}{}}
	if w.syncLit {
		w.caps = strings.Replace(capsC0, " LITERAL+", "", 1)
	} else {
		w.caps = capsC0
	}
	opts := &imapclient.Options{UnilateralDataHandler: &imapclient.UnilateralDataHandler{
		Expunge: func(seq uint32) { w.addUni(item{"expunge", float64(seq), "none"}) },
		Mailbox: func(d *imapclient.UnilateralDataMailbox) {
			if d.NumMessages != nil {
				w.addUni(item{"exists", float64(*d.NumMessages), "none"})
			}
			if d.Flags != nil {
				w.addUni(item{"flags", float64(0), flagName(d.Flags)})
			}
			if d.PermanentFlags != nil {
				w.addUni(item{"permflags", float64(0), flagName(d.PermanentFlags)})
			}
		},
		Metadata: func(mailbox string, entries []string) { w.addUni(item{"meta", float64(0), mailbox}) },
		Fetch: func(msg *imapclient.FetchMessageData) {
			buf, err := msg.Collect()
			if err != nil {
				w.addUni(item{"fetch-error", float64(msg.SeqNum), err.Error()})
				return
			}
			w.addUni(item{"fetch", float64(buf.SeqNum), flagName(buf.Flags)})
		},
	}}
	if greet != "OK" && greet != "PREAUTH" {
		return nil, fmt.Errorf("harness: unknown greeting %q", greet)
	}
	s.Write([]byte("* " + greet + " [CAPABILITY " + w.caps + "] ready\r\n"))
	w.cl = imapclient.New(c, opts)
	if err := w.cl.WaitGreeting(); err != nil {
		return nil, err
	}
	return w, nil
}

func (w *world) addUni(it item) { w.uniMu.Lock(); w.uni = append(w.uni, it); w.uniMu.Unlock() }

func (w *world) takeUni() []item {
	w.uniMu.Lock()
	defer w.uniMu.Unlock()
	u := w.uni
	w.uni = nil
	return u
}

// readCmd reads one command line sent by the client and returns its tag and text.
func (w *world) readCmd() (string, string, error) {
	w.srv.SetReadDeadline(time.Now().Add(3 * time.Second))
	line, err := w.br.ReadString('\n')
	if err != nil {
		return "", "", fmt.Errorf("reading client command: %v", err)
	}
	line = strings.TrimRight(line, "\r\n")
	i := strings.IndexByte(line, ' ')
	if i < 0 {
		return "", "", fmt.Errorf("malformed client command %q", line)
	}
	return line[:i], line[i+1:], nil
}

func (w *world) write(s string) { w.srv.Write([]byte(s + "\r\n")) }

func (w *world) submit(kind, arg string) error {
	r := &result{ready: make(chan struct{})}
	fin := func(st string, acc accT) {
		r.st, r.data = st, acc
		atomic.StoreInt32(&r.done, 1)
		close(r.ready)
	}
	switch kind {
	case "NOOP":
		cmd := w.cl.Noop()
		go func() { fin(statusOf(cmd.Wait()), accT{}) }()
	case "LOGIN":
		cmd := w.cl.Login("u", "p")
		go func() { fin(statusOf(cmd.Wait()), accT{}) }()
	case "LOGOUT":
		cmd := w.cl.Logout()
		go func() { fin(statusOf(cmd.Wait()), accT{}) }()
	case "UNSELECT":
		cmd := w.cl.Unselect()
		go func() { fin(statusOf(cmd.Wait()), accT{}) }()
	case "SELECT":
		cmd := w.cl.Select(arg, nil)
		go func() {
			d, err := cmd.Wait()
			acc := accT{}
			if d != nil {
				acc = accT{Num: d.NumMessages, Flags: flagName(d.Flags), Perm: flagName(d.PermanentFlags),
					UIDNext: uint32(d.UIDNext), UIDVal: d.UIDValidity, List: "none"}
				if d.List != nil {
					acc.List = d.List.Mailbox
				}
			}
			fin(statusOf(err), acc)
		}()
	case "STATUS":
		cmd := w.cl.Status(arg, &imap.StatusOptions{NumMessages: true})
		go func() {
			d, err := cmd.Wait()
			acc := accT{}
			if d != nil && d.NumMessages != nil {
				acc.Items = append(acc.Items, item{"status", float64(*d.NumMessages), d.Mailbox})
			}
			fin(statusOf(err), acc)
		}()
	case "LIST":
		var cmd *imapclient.ListCommand
		if arg == "ref" {
			cmd = w.cl.List("A", "%", nil)
		} else {
			cmd = w.cl.List("", "*", nil)
		}
		go func() {
			l, err := cmd.Collect()
			acc := accT{}
			for _, d := range l {
				acc.Items = append(acc.Items, item{"list", float64(0), d.Mailbox})
			}
			fin(statusOf(err), acc)
		}()
	case "SEARCH":
		cmd := w.cl.Search(&imap.SearchCriteria{}, nil)
		go func() {
			d, err := cmd.Wait()
			acc := accT{}
			if d != nil {
				for _, n := range d.AllSeqNums() {
					acc.Items = append(acc.Items, item{"search", float64(n), "none"})
				}
			}
			fin(statusOf(err), acc)
		}()
	case "ESEARCH":
		cmd := w.cl.UIDSearch(&imap.SearchCriteria{}, &imap.SearchOptions{ReturnCount: true})
		go func() {
			d, err := cmd.Wait()
			acc := accT{}
			if d != nil && d.Count != 0 {
				acc.Items = append(acc.Items, item{"esearch", float64(d.Count), "none"})
			}
			fin(statusOf(err), acc)
		}()
	case "FETCH":
		var set imap.SeqSet
		if arg == "one" {
			set.AddNum(1)
		} else {
			set.AddRange(1, 0)
		}
		cmd := w.cl.Fetch(set, &imap.FetchOptions{Flags: true})
		go func() {
			l, err := cmd.Collect()
			acc := accT{}
			for _, m := range l {
				acc.Items = append(acc.Items, item{"fetch", float64(m.SeqNum), flagName(m.Flags)})
			}
			fin(statusOf(err), acc)
		}()
	case "EXPUNGE":
		cmd := w.cl.Expunge()
		go func() {
			l, err := cmd.Collect()
			acc := accT{}
			for _, n := range l {
				acc.Items = append(acc.Items, item{"expunge", float64(n), "none"})
			}
			fin(statusOf(err), acc)
		}()
	case "CLOSE":
		cmd := w.cl.UnselectAndExpunge()
		go func() { fin(statusOf(cmd.Wait()), accT{}) }()
	case "UNAUTH":
		cmd := w.cl.Unauthenticate()
		go func() { fin(statusOf(cmd.Wait()), accT{}) }()
	case "CREATE":
		cmd := w.cl.Create("A", nil)
		go func() { fin(statusOf(cmd.Wait()), accT{}) }()
	case "DELETE":
		cmd := w.cl.Delete("A")
		go func() { fin(statusOf(cmd.Wait()), accT{}) }()
	case "RENAME":
		cmd := w.cl.Rename("A", "B")
		go func() { fin(statusOf(cmd.Wait()), accT{}) }()
	case "SUBSCRIBE":
		cmd := w.cl.Subscribe("A")
		go func() { fin(statusOf(cmd.Wait()), accT{}) }()
	case "UNSUBSCRIBE":
		cmd := w.cl.Unsubscribe("A")
		go func() { fin(statusOf(cmd.Wait()), accT{}) }()
	case "SETQUOTA":
		cmd := w.cl.SetQuota("A", map[imap.QuotaResourceType]int64{imap.QuotaResourceStorage: 512})
		go func() { fin(statusOf(cmd.Wait()), accT{}) }()
	case "SETMETADATA":
		v := []byte("a comment")
		cmd := w.cl.SetMetadata("A", map[string]*[]byte{"/private/comment": &v})
		go func() { fin(statusOf(cmd.Wait()), accT{}) }()
	case "AUTHENTICATE":
		// Authenticate blocks until the exchange is over: the command line, then (after the server's continuation
		// request) the credentials, then the completion
		go func() { fin(statusOf(w.cl.Authenticate(sasl.NewPlainClient("", "u", "p"))), accT{}) }()
	case "STORE":
		var set imap.SeqSet
		set.AddRange(1, 0)
		cmd := w.cl.Store(set, &imap.StoreFlags{Op: imap.StoreFlagsAdd, Flags: []imap.Flag{imap.FlagSeen}}, nil)
		go func() {
			l, err := cmd.Collect()
			acc := accT{}
			for _, m := range l {
				acc.Items = append(acc.Items, item{"fetch", float64(m.SeqNum), flagName(m.Flags)})
			}
			fin(statusOf(err), acc)
		}()
	case "UIDFETCH":
		var set imap.UIDSet
		set.AddRange(1, 0)
		cmd := w.cl.Fetch(set, &imap.FetchOptions{Flags: true, UID: true})
		go func() {
			l, err := cmd.Collect()
			acc := accT{}
			for _, m := range l {
				acc.Items = append(acc.Items, item{"fetch", float64(m.SeqNum), flagName(m.Flags)})
			}
			fin(statusOf(err), acc)
		}()
	case "UIDEXPUNGE":
		var set imap.UIDSet
		set.AddRange(1, 0)
		cmd := w.cl.UIDExpunge(set)
		go func() {
			l, err := cmd.Collect()
			acc := accT{}
			for _, n := range l {
				acc.Items = append(acc.Items, item{"expunge", float64(n), "none"})
			}
			fin(statusOf(err), acc)
		}()
	case "LISTSTATUS":
		cmd := w.cl.List("", "*", &imap.ListOptions{ReturnStatus: &imap.StatusOptions{NumMessages: true}})
		go func() {
			l, err := cmd.Collect()
			acc := accT{}
			for _, d := range l {
				if d.Status != nil && d.Status.NumMessages != nil {
					acc.Items = append(acc.Items, item{"liststatus", float64(*d.Status.NumMessages), d.Mailbox})
				} else {
					acc.Items = append(acc.Items, item{"list", float64(0), d.Mailbox})
				}
			}
			fin(statusOf(err), acc)
		}()
	case "SORT":
		cmd := w.cl.Sort(&imapclient.SortOptions{SearchCriteria: &imap.SearchCriteria{}, SortCriteria: []imapclient.SortCriterion{{Key: imapclient.SortKeyDate}}})
		go func() {
			l, err := cmd.Wait()
			acc := accT{}
			for _, n := range l {
				acc.Items = append(acc.Items, item{"sort", float64(n), "none"})
			}
			fin(statusOf(err), acc)
		}()
	case "THREAD":
		cmd := w.cl.Thread(&imapclient.ThreadOptions{Algorithm: imap.ThreadReferences, SearchCriteria: &imap.SearchCriteria{}})
		go func() {
			l, err := cmd.Wait()
			acc := accT{}
			for _, t := range l {
				for _, n := range t.Chain {
					acc.Items = append(acc.Items, item{"thread", float64(n), "none"})
				}
			}
			fin(statusOf(err), acc)
		}()
	case "CAPABILITY":
		cmd := w.cl.Capability()
		go func() {
			caps, err := cmd.Wait()
			acc := accT{}
			if caps != nil {
				name := "c0"
				if caps.Has("XTEST") {
					name = "c1"
				}
				acc.Items = append(acc.Items, item{"caps", float64(0), name})
			}
			fin(statusOf(err), acc)
		}()
	case "ENABLE":
		cmd := w.cl.Enable(imap.CapUTF8Accept)
		go func() {
			d, err := cmd.Wait()
			acc := accT{}
			if d != nil && d.Caps.Has(imap.CapUTF8Accept) {
				acc.Items = append(acc.Items, item{"enabled", float64(0), "none"})
			}
			fin(statusOf(err), acc)
		}()
	case "NAMESPACE":
		cmd := w.cl.Namespace()
		go func() {
			d, err := cmd.Wait()
			acc := accT{}
			if d != nil && len(d.Personal) > 0 {
				name := "?" + d.Personal[0].Prefix
				switch d.Personal[0].Prefix {
				case "":
					name = "p0"
				case "INBOX.":
					name = "p1"
				}
				acc.Items = append(acc.Items, item{"ns", float64(0), name})
			}
			fin(statusOf(err), acc)
		}()
	case "GETQUOTA":
		cmd := w.cl.GetQuota(arg)
		go func() {
			d, err := cmd.Wait()
			acc := accT{}
			if d != nil {
				acc.Items = append(acc.Items, item{"quota", float64(d.Resources[imap.QuotaResourceStorage].Usage), d.Root})
			}
			fin(statusOf(err), acc)
		}()
	case "GETQUOTAROOT":
		cmd := w.cl.GetQuotaRoot(arg)
		go func() {
			l, err := cmd.Wait()
			acc := accT{}
			for _, d := range l {
				acc.Items = append(acc.Items, item{"quota", float64(d.Resources[imap.QuotaResourceStorage].Usage), d.Root})
			}
			fin(statusOf(err), acc)
		}()
	case "GETMETADATA":
		cmd := w.cl.GetMetadata(arg, []string{"/private/comment"}, nil)
		go func() {
			d, err := cmd.Wait()
			acc := accT{}
			if d != nil {
				if v := d.Entries["/private/comment"]; v != nil {
					n := 0
					fmt.Sscanf(string(*v), "v%d", &n)
					acc.Items = append(acc.Items, item{"meta", float64(n), d.Mailbox})
				}
			}
			fin(statusOf(err), acc)
		}()
	case "COPY":
		var set imap.SeqSet
		set.AddRange(1, 2)
		cmd := w.cl.Copy(set, "B")
		go func() {
			d, err := cmd.Wait()
			acc := accT{}
			if d != nil && d.UIDValidity != 0 {
				acc.Items = append(acc.Items, item{"copyuid", float64(d.UIDValidity), "none"})
			}
			fin(statusOf(err), acc)
		}()
	case "MOVE":
		var set imap.SeqSet
		set.AddRange(1, 2)
		cmd := w.cl.Move(set, "B")
		go func() {
			d, err := cmd.Wait()
			acc := accT{}
			if d != nil && d.UIDValidity != 0 {
				acc.Items = append(acc.Items, item{"copyuid", float64(d.UIDValidity), "none"})
			}
			fin(statusOf(err), acc)
		}()
	case "APPEND":
		go func() {
			// with a synchronising literal Append itself waits for the continuation request (or the refusal)
			cmd := w.cl.Append("A", 5, nil)
			cmd.Write([]byte("hello"))
			cmd.Close()
			d, err := cmd.Wait()
			acc := accT{}
			if d != nil && d.UID != 0 {
				acc.Items = append(acc.Items, item{"appenduid", float64(d.UIDValidity), "none"})
			}
			fin(statusOf(err), acc)
		}()
	case "IDLE":
		id := &idleT{running: make(chan struct{}), stop: make(chan struct{})}
		w.idles[len(w.res)+1] = id
		go func() {
			idle, err := w.cl.Idle() // returns once the server has sent the continuation request (or refused)
			if err != nil {
				fin(statusOf(err), accT{})
				return
			}
			close(id.running)
			<-id.stop
			if err := idle.Close(); err != nil {
				fin(statusOf(err), accT{})
				return
			}
			fin(statusOf(idle.Wait()), accT{})
		}()
	default:
		return fmt.Errorf("unknown kind %s", kind)
	}
	if w.dead {
		// the connection is gone: nothing reaches the server, the call has to end by itself
		w.tags = append(w.tags, "")
		w.res = append(w.res, r)
		w.kinds = append(w.kinds, kind)
		return nil
	}
	tag, text, err := w.readCmd()
	if err == nil && kind == "AUTHENTICATE" && text != "AUTHENTICATE PLAIN" {
		err = fmt.Errorf("AUTHENTICATE with an initial response although SASL-IR is not advertised: %q", text)
	}
	if err == nil && kind == "APPEND" {
		if w.syncLit {
			if !strings.HasSuffix(text, "{5}") {
				err = fmt.Errorf("APPEND without synchronising literal although LITERAL+ is not advertised: %q", text)
			}
		} else {
			// the message follows as a non-synchronising literal (LITERAL+ is advertised)
			err = w.readAppendLiteral(text)
		}
	}
	if err != nil {
		return err
	}
	w.tags = append(w.tags, tag)
	w.res = append(w.res, r)
	w.kinds = append(w.kinds, kind)
	return nil
}

func (w *world) readAppendLiteral(text string) error {
	i := strings.LastIndexByte(text, '{')
	var n int
	if i < 0 || !strings.HasSuffix(text, "+}") {
		return fmt.Errorf("APPEND without non-synchronising literal: %q", text)
	}
	fmt.Sscanf(text[i:], "{%d+}", &n)
	buf := make([]byte, n+2)
	w.srv.SetReadDeadline(time.Now().Add(3 * time.Second))
	if _, err := io.ReadFull(w.br, buf); err != nil {
		return fmt.Errorf("reading the APPEND literal: %v", err)
	}
	if string(buf[n:]) != "\r\n" {
		return fmt.Errorf("APPEND literal not followed by CRLF: %q", buf)
	}
	return nil
}

func (w *world) barrier() error {
	cmd := w.cl.Noop()
	tag, text, err := w.readCmd()
	if err != nil {
		return err
	}
	if text != "NOOP" {
		return fmt.Errorf("expected barrier NOOP, client sent %q", text)
	}
	w.write(tag + " OK barrier")
	ch := make(chan error, 1)
	go func() { ch <- cmd.Wait() }()
	select {
	case err := <-ch:
		if err != nil {
			return fmt.Errorf("barrier NOOP failed: %v", err)
		}
	case <-time.After(3 * time.Second):
		return fmt.Errorf("barrier NOOP did not complete")
	}
	return nil
}

func (w *world) step(ev *event) error {
	switch ev.Act {
	case "Submit", "SubmitDead":
		return w.submit(ev.S1, ev.S2)
	case "Exists":
		w.write(fmt.Sprintf("* %d EXISTS", ev.N1))
	case "Expunge":
		w.write(fmt.Sprintf("* %d EXPUNGE", ev.N1))
	case "Search":
		w.write(fmt.Sprintf("* SEARCH %d", ev.N1))
	case "Esearch":
		if ev.N2 < 1 || ev.N2 > len(w.tags) {
			return fmt.Errorf("harness: no command %d", ev.N2)
		}
		w.write(fmt.Sprintf("* ESEARCH (TAG %q) UID COUNT %d", w.tags[ev.N2-1], ev.N1))
	case "Flags":
		w.write("* FLAGS " + flagText(ev.S1))
	case "PermFlags":
		w.write("* OK [PERMANENTFLAGS " + flagText(ev.S1) + "] ok")
	case "Fetch":
		if ev.N2 != 0 {
			w.write(fmt.Sprintf("* %d FETCH (UID %d FLAGS %s)", ev.N1, ev.N2, flagText(ev.S1)))
		} else {
			w.write(fmt.Sprintf("* %d FETCH (FLAGS %s)", ev.N1, flagText(ev.S1)))
		}
	case "Sort":
		w.write(fmt.Sprintf("* SORT %d", ev.N1))
	case "Thread":
		w.write(fmt.Sprintf("* THREAD (%d)", ev.N1))
	case "MoveUid":
		w.write(fmt.Sprintf("* OK [COPYUID %d 1:2 5:6] moved", ev.N1))
	case "UidNext":
		w.write(fmt.Sprintf("* OK [UIDNEXT %d] next", ev.N1))
	case "UidValidity":
		w.write(fmt.Sprintf("* OK [UIDVALIDITY %d] validity", ev.N1))
	case "Quota":
		w.write(fmt.Sprintf("* QUOTA %s (STORAGE %d 100)", ev.S1, ev.N1))
	case "QuotaRoot":
		w.write(fmt.Sprintf("* QUOTAROOT %s %s", ev.S1, ev.S2))
	case "Metadata":
		w.write(fmt.Sprintf("* METADATA %s (/private/comment \"v%d\")", ev.S1, ev.N1))
	case "MetaChanged":
		w.write(fmt.Sprintf("* METADATA %s /private/comment", ev.S1))
	case "Caps":
		w.write("* CAPABILITY " + capsText(ev.S1))
	case "Namespace":
		if ev.S1 == "p1" {
			w.write(`* NAMESPACE (("INBOX." ".")) NIL NIL`)
		} else {
			w.write(`* NAMESPACE (("" "/")) NIL NIL`)
		}
	case "Enabled":
		w.write("* ENABLED UTF8=ACCEPT")
	case "Cont":
		if ev.N1 >= 1 && ev.N1 <= len(w.kinds) && w.kinds[ev.N1-1] == "AUTHENTICATE" {
			w.write("+ ")
			w.srv.SetReadDeadline(time.Now().Add(3 * time.Second))
			line, err := w.br.ReadString('\n')
			if err != nil {
				return fmt.Errorf("reading the credentials after the continuation request: %v", err)
			}
			if strings.TrimRight(line, "\r\n") != "AHUAcA==" {
				return fmt.Errorf("after the continuation request the client sent %q instead of the PLAIN credentials", line)
			}
			return nil
		}
		if ev.N1 >= 1 && ev.N1 <= len(w.kinds) && w.kinds[ev.N1-1] == "APPEND" {
			w.write("+ go ahead")
			buf := make([]byte, 7)
			w.srv.SetReadDeadline(time.Now().Add(3 * time.Second))
			if _, err := io.ReadFull(w.br, buf); err != nil {
				return fmt.Errorf("reading the synchronising literal after the continuation request: %v", err)
			}
			if string(buf) != "hello\r\n" {
				return fmt.Errorf("after the continuation request the client sent %q", buf)
			}
			return nil
		}
		id := w.idles[ev.N1]
		if id == nil {
			return fmt.Errorf("harness: command %d is not an IDLE", ev.N1)
		}
		w.write("+ idling")
		select {
		case <-id.running:
		case <-time.After(3 * time.Second):
			return fmt.Errorf("Client.Idle did not return within 3 s after the continuation request")
		}
	case "IdleDone":
		id := w.idles[ev.N1]
		if id == nil {
			return fmt.Errorf("harness: command %d is not an IDLE", ev.N1)
		}
		id.stopNow()
		w.srv.SetReadDeadline(time.Now().Add(3 * time.Second))
		line, err := w.br.ReadString('\n')
		if err != nil {
			return fmt.Errorf("reading DONE: %v", err)
		}
		if strings.TrimRight(line, "\r\n") != "DONE" {
			return fmt.Errorf("expected DONE, client sent %q", line)
		}
	case "Status":
		w.write(fmt.Sprintf("* STATUS %s (MESSAGES %d)", ev.S1, ev.N1))
	case "List":
		w.write(fmt.Sprintf(`* LIST () "/" %s`, ev.S1))
	case "Closed":
		w.write("* OK [CLOSED] previous mailbox closed")
	case "Tagged":
		id := ev.N1
		if id < 1 || id > len(w.tags) {
			return fmt.Errorf("harness: no command %d", id)
		}
		text := "done"
		if ev.S1 == "OK" {
			switch w.kinds[id-1] {
			case "LOGIN", "UNAUTH", "AUTHENTICATE":
				text = "[CAPABILITY " + w.caps + "] done"
			case "COPY":
				if ev.N2 != 0 {
					text = fmt.Sprintf("[COPYUID %d 1:2 5:6] copied", ev.N2)
				}
			case "APPEND":
				if ev.N2 != 0 {
					text = fmt.Sprintf("[APPENDUID %d 3] appended", ev.N2)
				}
			case "LOGOUT":
				w.write("* BYE logging out")
			case "SELECT":
				text = "[READ-WRITE] selected"
			}
		}
		w.write(w.tags[id-1] + " " + ev.S1 + " " + text)
	case "Bye":
		w.write("* BYE server shutting down")
		w.srv.Close()
		w.dead = true
		// a caller whose IDLE is running learns about the loss of the connection when it ends the IDLE
		for _, id := range w.idles {
			id.stopNow()
		}
		// Client.Close returns once the reader goroutine has finished its teardown
		// (there is no other way to wait for it); the connection is gone anyway.
		if !vh.Within(3*time.Second, func() { w.cl.Close() }) {
			return fmt.Errorf("Client.Close did not return within 3 s after the server closed the connection")
		}
	default:
		return fmt.Errorf("unknown action %s", ev.Act)
	}
	return nil
}

func stateName(s imap.ConnState) string {
	switch s {
	case imap.ConnStateNotAuthenticated:
		return "notauth"
	case imap.ConnStateAuthenticated:
		return "auth"
	case imap.ConnStateSelected:
		return "selected"
	case imap.ConnStateLogout:
		return "logout"
	}
	return fmt.Sprintf("state(%v)", s)
}

func itemsEq(a, b []item) bool {
	if len(a) != len(b) {
		return false
	}
	for i := range a {
		if fmt.Sprint(a[i]) != fmt.Sprint(b[i]) {
			return false
		}
	}
	return true
}

// observe collects the client's view after a step; wantDone lists the ids the
// caller expects to be complete (waited for), others are polled without waiting.
func (w *world) observe(wantDone []int, wantUni int) *obsT {
	// unilateral FETCH data is handed to the handler in its own goroutine: wait for what is expected
	for i := 0; i < 3000; i++ {
		w.uniMu.Lock()
		n := len(w.uni)
		w.uniMu.Unlock()
		if n >= wantUni {
			break
		}
		time.Sleep(time.Millisecond)
	}
	o := &obsT{Alive: !w.dead}
	o.Cstate = stateName(w.cl.State())
	if mb := w.cl.Mailbox(); mb != nil {
		o.Mbox = mboxT{mb.Name, mb.NumMessages, flagName(mb.Flags), flagName(mb.PermanentFlags)}
	} else {
		o.Mbox = mboxT{"none", 0, "none", "none"}
	}
	for _, id := range wantDone {
		if id >= 1 && id <= len(w.res) {
			select {
			case <-w.res[id-1].ready:
			case <-time.After(3 * time.Second):
			}
		}
	}
	for i, r := range w.res {
		if atomic.LoadInt32(&r.done) == 1 {
			o.Comp = append(o.Comp, compT{ID: i + 1, St: r.st, Kind: w.kinds[i], Acc: r.data})
		} else {
			o.Pend = append(o.Pend, i+1)
		}
	}
	o.Uni = w.takeUni()
	return o
}

type verdict struct {
	sig, detail string
	step        int
}

func accEq(kind, st string, got, exp accT) (bool, string) {
	if kind == "SELECT" {
		if st != "OK" {
			return true, ""
		}
		if got.Num != exp.Num || got.Flags != exp.Flags || got.Perm != exp.Perm {
			return false, fmt.Sprintf("select data num=%d flags=%s perm=%s, transcript implies num=%d flags=%s perm=%s", got.Num, got.Flags, got.Perm, exp.Num, exp.Flags, exp.Perm)
		}
		if exp.List != "" && (got.UIDNext != exp.UIDNext || got.UIDVal != exp.UIDVal || got.List != exp.List) {
			return false, fmt.Sprintf("select data uidnext=%d uidvalidity=%d list=%s, transcript implies uidnext=%d uidvalidity=%d list=%s", got.UIDNext, got.UIDVal, got.List, exp.UIDNext, exp.UIDVal, exp.List)
		}
		return true, ""
	}
	// these hand out their data only with a successful completion
	if st != "OK" && (kind == "GETQUOTA" || kind == "GETQUOTAROOT" || kind == "MOVE") {
		return true, ""
	}
	if !itemsEq(got.Items, exp.Items) {
		return false, fmt.Sprintf("delivered data %v, transcript implies %v", got.Items, exp.Items)
	}
	return true, ""
}

func replay(beh []event) (*verdict, int, bool, error) {
	if len(beh) == 0 || beh[0].Act != "Greet" {
		return nil, 0, false, fmt.Errorf("harness: a behaviour starts with the greeting")
	}
	w, err := newWorld(beh[0].S1, beh[0].S2)
	if err != nil {
		return nil, 0, false, err
	}
	defer func() { w.srv.Close(); vh.Within(2*time.Second, func() { w.cl.Close() }) }()
	seenDone := map[int]bool{}
	nontrivial := false
	for i := range beh {
		ev := &beh[i]
		if ev.Act != "Greet" {
			if err := w.step(ev); err != nil {
				return &verdict{"step-failed/" + ev.Act, err.Error(), i}, i + 1, nontrivial, nil
			}
		}
		// while an IDLE occupies the connection no command can be sent: what the step implies is then
		// observable without a round trip (the handler is called after the state has been updated)
		if !w.dead && ev.Exp.NoBarrier {
			// no round trip: wait until the client's reader has taken everything it was sent and is back
			// waiting for more (it processes what it has before it reads again)
			deadline := time.Now().Add(3 * time.Second)
			for !w.srv.PeerBlockedInRead() && time.Now().Before(deadline) {
				time.Sleep(20 * time.Microsecond)
			}
		}
		if !w.dead && !ev.Exp.NoBarrier {
			if err := w.barrier(); err != nil {
				return &verdict{"barrier-failed/" + ev.Act, err.Error(), i}, i + 1, nontrivial, nil
			}
		}
		exp := ev.Exp
		var want []int
		for _, c := range exp.Comp {
			want = append(want, c.ID)
		}
		got := w.observe(want, len(exp.Uni))
		if len(exp.Pend) > 1 || len(exp.Uni) > 0 {
			nontrivial = true
		}
		if got.Cstate != exp.Cstate {
			return &verdict{"state/" + ev.Act + "/" + exp.Cstate, fmt.Sprintf("State() = %s, transcript implies %s", got.Cstate, exp.Cstate), i}, i + 1, nontrivial, nil
		}
		if exp.CmpMbox && got.Mbox != exp.Mbox {
			field := "mailbox"
			switch {
			case got.Mbox.Name != exp.Mbox.Name:
				field = "name"
			case got.Mbox.Num != exp.Mbox.Num:
				field = "num"
			case got.Mbox.Flags != exp.Mbox.Flags:
				field = "flags"
			case got.Mbox.Perm != exp.Mbox.Perm:
				field = "permflags"
			}
			return &verdict{"mailbox-" + field + "/" + ev.Act, fmt.Sprintf("Mailbox() = %+v, transcript implies %+v", got.Mbox, exp.Mbox), i}, i + 1, nontrivial, nil
		}
		// completions of this step
		for _, c := range exp.Comp {
			var g *compT
			for k := range got.Comp {
				if got.Comp[k].ID == c.ID {
					g = &got.Comp[k]
				}
			}
			if g == nil {
				return &verdict{"not-completed/" + c.Kind, fmt.Sprintf("command %d (%s) has not completed although its tagged %s was sent", c.ID, c.Kind, c.St), i}, i + 1, nontrivial, nil
			}
			if g.St != c.St {
				return &verdict{"status/" + c.Kind, fmt.Sprintf("command %d (%s) completed with %s, tagged response says %s", c.ID, c.Kind, g.St, c.St), i}, i + 1, nontrivial, nil
			}
			if ok, det := accEq(c.Kind, c.St, g.Acc, c.Acc); !ok {
				return &verdict{"data/" + c.Kind, fmt.Sprintf("command %d (%s): %s", c.ID, c.Kind, det), i}, i + 1, nontrivial, nil
			}
			seenDone[c.ID] = true
		}
		// nothing else may have completed
		for _, g := range got.Comp {
			if !seenDone[g.ID] {
				return &verdict{"early-completion/" + g.Kind, fmt.Sprintf("command %d (%s) completed (%s) although no tagged response for it was sent", g.ID, g.Kind, g.St), i}, i + 1, nontrivial, nil
			}
		}
		if !itemsEq(got.Uni, exp.Uni) {
			return &verdict{"unilateral/" + ev.Act, fmt.Sprintf("unilateral data handler got %v, transcript implies %v", got.Uni, exp.Uni), i}, i + 1, nontrivial, nil
		}
	}
	return nil, len(beh), nontrivial, nil
}

func label(beh []event) []string {
	var out []string
	for _, e := range beh {
		out = append(out, fmt.Sprintf("%s(%s,%s,%d)", e.Act, e.S1, e.S2, e.N1))
	}
	return out
}

func cmdReplay(path string, workers int) {
	out := vh.NewOut()
	defer out.Flush()
	jobs := make(chan []event, 1024)
	var wg sync.WaitGroup
	var nBeh, nSteps, nNontriv, nMis int64
	var infra atomic.Value
	var samples []interface{}
	var smu sync.Mutex
	for i := 0; i < workers; i++ {
		wg.Add(1)
		go func() {
			defer wg.Done()
			for beh := range jobs {
				v, steps, nt, err := replay(beh)
				atomic.AddInt64(&nBeh, 1)
				atomic.AddInt64(&nSteps, int64(steps))
				if nt {
					atomic.AddInt64(&nNontriv, 1)
				}
				if err != nil {
					infra.Store(err.Error())
					continue
				}
				if v != nil {
					if atomic.AddInt64(&nMis, 1) <= 300 {
						out.Mismatch(v.sig, fmt.Sprintf("%v — step %d: %s", label(beh[:v.step+1]), v.step, v.detail), beh[:v.step+1])
					}
				} else if nt {
					smu.Lock()
					if len(samples) < 3 {
						samples = append(samples, label(beh))
					}
					smu.Unlock()
				}
			}
		}()
	}
	err := vh.ReadTLines(path, func(b []byte) error {
		var beh []event
		if err := json.Unmarshal(b, &beh); err != nil {
			return err
		}
		jobs <- beh
		return nil
	})
	close(jobs)
	wg.Wait()
	sum := map[string]interface{}{"behaviours": nBeh, "steps": nSteps, "nontrivial": nNontriv, "mismatches": nMis, "samples": samples}
	if err != nil {
		sum["infra_error"] = err.Error()
	} else if e := infra.Load(); e != nil {
		sum["infra_error"] = e
	}
	out.Summary(sum)
}

func cmdOne(path string) {
	out := vh.NewOut()
	defer out.Flush()
	b, err := os.ReadFile(path)
	if err != nil {
		fmt.Fprintln(os.Stderr, err)
		os.Exit(2)
	}
	var beh []event
	if err := json.Unmarshal(b, &beh); err != nil {
		fmt.Fprintln(os.Stderr, err)
		os.Exit(2)
	}
	v, steps, _, err := replay(beh)
	if err != nil {
		fmt.Fprintln(os.Stderr, err)
		os.Exit(2)
	}
	if v != nil {
		out.Mismatch(v.sig, fmt.Sprintf("%v — step %d: %s", label(beh[:v.step+1]), v.step, v.detail), beh[:v.step+1])
	}
	out.Summary(map[string]interface{}{"behaviours": 1, "steps": steps})
}

func main() {
	if len(os.Args) < 3 {
		fmt.Fprintln(os.Stderr, "usage: client replay|one|random <file>")
		os.Exit(2)
	}
	mode, path := os.Args[1], os.Args[2]
	fs := flag.NewFlagSet(mode, flag.ExitOnError)
	seed := fs.Int64("seed", 1, "")
	traces := fs.Int("traces", 100, "")
	steps := fs.Int("steps", 100, "")
	workers := fs.Int("workers", 16, "")
	fs.Parse(os.Args[3:])
	switch mode {
	case "replay":
		cmdReplay(path, *workers)
	case "one":
		cmdOne(path)
	case "random":
		cmdRandom(path, rand.New(rand.NewSource(*seed)), *traces, *steps)
	default:
		os.Exit(2)
	}
}
