package main

import (
	"encoding/json"
	"math/rand"
	"os"
	"time"

	"verif/harness/vh"
)

// pendT is the driver's bookkeeping for a pending command: just enough to
// issue server lines a conformant server could send (the enabling conditions
// of spec/Client.tla, never the outcomes).
type pendT struct {
	id    int
	kind  string
	arg   string
	items int
	seen  map[int]bool
}

type driver struct {
	rng     *rand.Rand
	cstate  string
	num     int
	pending []*pendT
	n       int // commands submitted
	wantUni int // unilateral data items the last action hands to the handler asynchronously
}

func (d *driver) pendingOf(kind string) *pendT {
	for _, p := range d.pending {
		if p.kind == kind {
			return p
		}
	}
	return nil
}

func (d *driver) remove(id int) {
	for i, p := range d.pending {
		if p.id == id {
			d.pending = append(d.pending[:i], d.pending[i+1:]...)
			return
		}
	}
}

const maxNum, maxItems, maxPending = 40, 6, 3

// pick chooses the next legal action; ok=false if none was found this time.
func (d *driver) pick() (ev event, ok bool) {
	r := d.rng
	d.wantUni = 0
	sel := d.pendingOf("SELECT") != nil
	ev = event{S1: "none", S2: "none"}
	switch x := r.Intn(100); {
	case x < 28: // Submit
		if d.cstate == "logout" || len(d.pending) >= maxPending {
			return ev, false
		}
		kinds := []string{"NOOP", "LOGIN", "SELECT", "UNSELECT", "STATUS", "LIST", "SEARCH", "ESEARCH", "ESEARCH", "FETCH", "EXPUNGE", "LOGOUT"}
		k := kinds[r.Intn(len(kinds))]
		if k == "LOGOUT" && r.Intn(10) != 0 {
			k = "NOOP"
		}
		a := "none"
		if k == "SELECT" || k == "STATUS" {
			a = []string{"A", "B"}[r.Intn(2)]
		}
		if k == "FETCH" || k == "LIST" {
			a = "all"
		}
		stateChanging := func(k string) bool { return k == "SELECT" || k == "UNSELECT" || k == "LOGOUT" || k == "LOGIN" }
		switch k {
		case "SELECT", "LOGIN", "UNSELECT", "LOGOUT":
			if d.pendingOf(k) != nil {
				return ev, false
			}
		case "FETCH", "SEARCH", "EXPUNGE", "LIST":
			// a second one may be in flight: the scripted server completes them in the order sent
			n := 0
			for _, p := range d.pending {
				if p.kind == k {
					n++
				}
			}
			if n > 1 {
				return ev, false
			}
		case "STATUS":
			for _, p := range d.pending {
				if p.kind == "STATUS" && p.arg == a {
					return ev, false
				}
			}
		case "ESEARCH":
			if d.pendingOf("SEARCH") != nil {
				return ev, false
			}
		}
		if k == "SEARCH" && d.pendingOf("ESEARCH") != nil {
			return ev, false
		}
		if stateChanging(k) && len(d.pending) > 0 {
			return ev, false
		}
		for _, p := range d.pending {
			if stateChanging(p.kind) {
				return ev, false
			}
		}
		d.n++
		d.pending = append(d.pending, &pendT{id: d.n, kind: k, arg: a, seen: map[int]bool{}})
		ev.Act, ev.S1, ev.S2 = "Submit", k, a
		return ev, true
	case x < 38: // EXISTS
		n := r.Intn(maxNum + 1)
		if sel {
			d.pendingOf("SELECT").items = n // remember announced count (only used if the SELECT succeeds)
		} else {
			if d.cstate != "selected" {
				return ev, false
			}
			if n < d.num {
				n = d.num + r.Intn(3)
			}
			if n > maxNum {
				return ev, false
			}
			d.num = n
		}
		ev.Act, ev.N1 = "Exists", n
		return ev, true
	case x < 46: // FLAGS / PERMANENTFLAGS
		if !sel && d.cstate != "selected" {
			return ev, false
		}
		ev.Act = []string{"Flags", "PermFlags"}[r.Intn(2)]
		ev.S1 = []string{"f0", "f1"}[r.Intn(2)]
		return ev, true
	case x < 54: // EXPUNGE
		if d.cstate != "selected" || sel || d.num == 0 {
			return ev, false
		}
		if p := d.pendingOf("EXPUNGE"); p != nil {
			if p.items >= maxItems {
				return ev, false
			}
			p.items++
		}
		ev.Act, ev.N1 = "Expunge", 1+r.Intn(d.num)
		d.num--
		return ev, true
	case x < 62: // FETCH
		if d.cstate != "selected" || sel || d.num == 0 {
			return ev, false
		}
		n := 1 + r.Intn(d.num)
		ev.N2 = r.Intn(3) // UID item (0: none); irrelevant for the routing of a FETCH by sequence number
		d.wantUni = 1     // delivered to the unilateral handler (asynchronously) ...
		if p := d.pendingOf("FETCH"); p != nil && !p.seen[n] {
			if p.items >= maxItems {
				return ev, false
			}
			p.items++
			p.seen[n] = true
			d.wantUni = 0 // ... unless a pending FETCH takes it
		}
		ev.Act, ev.N1, ev.S1 = "Fetch", n, []string{"f0", "f1"}[r.Intn(2)]
		return ev, true
	case x < 66: // STATUS
		var cands []*pendT
		for _, p := range d.pending {
			if p.kind == "STATUS" && p.items == 0 {
				cands = append(cands, p)
			}
		}
		if len(cands) == 0 {
			return ev, false
		}
		p := cands[r.Intn(len(cands))]
		p.items++
		ev.Act, ev.S1, ev.N1 = "Status", p.arg, r.Intn(maxNum+1)
		return ev, true
	case x < 70: // LIST
		p := d.pendingOf("LIST")
		if p == nil || p.items >= maxItems {
			return ev, false
		}
		p.items++
		ev.Act, ev.S1 = "List", []string{"A", "B"}[r.Intn(2)]
		return ev, true
	case x < 73: // SEARCH
		p := d.pendingOf("SEARCH")
		if p == nil || p.items > 0 {
			return ev, false
		}
		p.items++
		ev.Act, ev.N1 = "Search", 1+r.Intn(maxNum)
		return ev, true
	case x < 76: // ESEARCH: any pending one, whatever its position
		var cands []*pendT
		for _, p := range d.pending {
			if p.kind == "ESEARCH" && p.items == 0 {
				cands = append(cands, p)
			}
		}
		if len(cands) == 0 {
			return ev, false
		}
		p := cands[r.Intn(len(cands))]
		p.items++
		ev.Act, ev.N1, ev.N2 = "Esearch", 1+r.Intn(maxNum), p.id
		return ev, true
	case x < 78: // CLOSED
		if d.cstate != "selected" || !sel {
			return ev, false
		}
		d.cstate, d.num = "auth", 0
		ev.Act = "Closed"
		return ev, true
	case x < 99: // tagged completion
		if len(d.pending) == 0 {
			return ev, false
		}
		p := d.pending[r.Intn(len(d.pending))]
		switch p.kind {
		case "FETCH", "SEARCH", "EXPUNGE", "LIST":
			p = d.pendingOf(p.kind) // same-kind commands are completed in the order sent
		}
		st := []string{"OK", "OK", "OK", "NO", "BAD"}[r.Intn(5)]
		if st == "OK" {
			okAllowed := false
			switch p.kind {
			case "NOOP", "LOGOUT":
				okAllowed = true
			case "LOGIN":
				okAllowed = d.cstate == "notauth"
			case "SELECT", "STATUS", "LIST":
				okAllowed = d.cstate == "auth" || d.cstate == "selected"
			default:
				okAllowed = d.cstate == "selected"
			}
			if !okAllowed {
				st = "NO"
			}
		}
		if st == "BAD" && p.kind == "SELECT" && d.cstate == "selected" {
			st = "NO"
		}
		switch {
		case p.kind == "LOGIN" && st == "OK":
			d.cstate = "auth"
		case p.kind == "SELECT" && st == "OK":
			d.cstate, d.num = "selected", p.items
		case p.kind == "SELECT":
			if d.cstate == "selected" {
				d.cstate = "auth"
			}
			d.num = 0
		case p.kind == "UNSELECT" && st == "OK":
			d.cstate, d.num = "auth", 0
		case p.kind == "LOGOUT" && st == "OK":
			d.cstate, d.num = "logout", 0
		}
		d.remove(p.id)
		ev.Act, ev.S1, ev.N1 = "Tagged", st, p.id
		return ev, true
	default:
		ev.Act = "Bye"
		return ev, true
	}
}

type recT struct {
	Ev  string  `json:"ev"`
	S1  string  `json:"s1"`
	S2  string  `json:"s2"`
	N1  int     `json:"n1"`
	N2  int     `json:"n2"`
	Obs *recObs `json:"obs,omitempty"`
}

type recObs struct {
	Cstate string  `json:"cstate"`
	Cmp    bool    `json:"cmp"`
	Mbox   mboxT   `json:"mbox"`
	Alive  bool    `json:"alive"`
	Comp   []compT `json:"comp"`
	Uni    []item  `json:"uni"`
}

func cmdRandom(path string, rng *rand.Rand, traces, steps int) {
	out := vh.NewOut()
	defer out.Flush()
	f, err := os.Create(path)
	if err != nil {
		out.Summary(map[string]interface{}{"infra_error": err.Error()})
		return
	}
	defer f.Close()
	enc := json.NewEncoder(f)
	total := 0
	for t := 0; t < traces; t++ {
		w, err := newWorld("OK", "none")
		if err != nil {
			out.Summary(map[string]interface{}{"infra_error": err.Error()})
			return
		}
		enc.Encode(recT{Ev: "Reset", S1: "OK", S2: "none"})
		total++
		d := &driver{rng: rng, cstate: "notauth"}
		reported := map[int]bool{}
		for i := 0; i < steps; i++ {
			ev, ok := d.pick()
			if !ok {
				continue
			}
			if err := w.step(&ev); err != nil {
				enc.Encode(map[string]interface{}{"ev": "Failed", "act": ev.Act, "err": err.Error()})
				out.Mismatch("step-failed/"+ev.Act, err.Error(), nil)
				break
			}
			if !w.dead {
				if err := w.barrier(); err != nil {
					enc.Encode(map[string]interface{}{"ev": "Failed", "act": ev.Act, "err": err.Error()})
					out.Mismatch("barrier-failed/"+ev.Act, err.Error(), nil)
					break
				}
			}
			// which completions / unilateral data to wait for is derived from the action itself
			var want []int
			wantUni := 0
			switch ev.Act {
			case "Tagged":
				want = []int{ev.N1}
			case "Bye":
				for _, p := range d.pending {
					want = append(want, p.id)
				}
			case "Fetch":
				wantUni = d.wantUni
			}
			got := w.observe(want, wantUni)
			ro := &recObs{Cstate: got.Cstate, Cmp: d.pendingOf("SELECT") == nil, Mbox: got.Mbox, Alive: got.Alive, Comp: []compT{}, Uni: []item{}}
			for _, c := range got.Comp {
				if !reported[c.ID] {
					reported[c.ID] = true
					if c.Acc.Items == nil {
						c.Acc.Items = []item{}
					}
					if c.Acc.Flags == "" {
						c.Acc.Flags = "none"
					}
					if c.Acc.Perm == "" {
						c.Acc.Perm = "none"
					}
					ro.Comp = append(ro.Comp, c)
				}
			}
			if got.Uni != nil {
				ro.Uni = got.Uni
			}
			enc.Encode(recT{Ev: ev.Act, S1: ev.S1, S2: ev.S2, N1: ev.N1, N2: ev.N2, Obs: ro})
			total++
			if w.dead {
				break
			}
		}
		w.srv.Close()
		vh.Within(2*time.Second, func() { w.cl.Close() })
	}
	out.Summary(map[string]interface{}{"traces": traces, "records": total})
}
