// Command serverconn binds spec/ServerConn.tla to imapserver's connection
// state machine (property C05 and the authentication half of C17).
//
//	serverconn replay <tlc-output>   replay TLC-generated behaviours (all configurations)
//	serverconn one <case.json>       replay one case
//	serverconn random <out.ndjson>   long random command sequences, recorded for ServerConnTrace
package main

import (
	"crypto/tls"
	"encoding/json"
	"flag"
	"fmt"
	"math/rand"
	"net"
	"os"
	"strings"
	"sync"
	"sync/atomic"
	"time"

	"github.com/emersion/go-imap/v2"
	"github.com/emersion/go-imap/v2/imapserver"

	"verif/harness/vh"
)

type config struct {
	TLS          bool
	InsecureAuth bool
	PreAuth      bool
	HasTLSConfig bool
	CapMove      bool
	CapNamespace bool
	CapUnauth    bool
	Sasl         bool // the session implements SessionSASL (PLAIN, XTEST)
}

type capsObs struct {
	Auth     bool `json:"auth"`
	LoginDis bool `json:"logindis"`
	StartTLS bool `json:"starttls"`
	Idle     bool `json:"idle"`
}

type obs struct {
	Tagged string   `json:"tagged"`
	Bye    bool     `json:"bye"`
	Cont   int      `json:"cont"`
	Recent bool     `json:"recent"`
	Calls  []string `json:"calls"`
	State  string   `json:"state"`
	TLS    bool     `json:"tls"`
	Closed bool     `json:"closed"`
	Caps   capsObs  `json:"caps"`
	// After counts the responses to commands that were pipelined, in the same write, behind a command
	// that ends the connection: the specification says that nothing happens after "logout"
	After int `json:"after"`
}

type event struct {
	C   string `json:"c"`
	V   string `json:"v"`
	F   int    `json:"f"`
	Exp *obs   `json:"exp,omitempty"`
}

type caseT struct {
	Cfg config  `json:"cfg"`
	Beh []event `json:"beh"`
}

// ---- servers, one per configuration ----

type serverKey config

var (
	srvMu   sync.Mutex
	servers = map[serverKey]*srvT{}
)

type srvT struct {
	srv *imapserver.Server
	ln  *vh.Listener
	reg *vh.Registry
	log *vh.LogBuf
}

func getServer(cfg config) *srvT {
	srvMu.Lock()
	defer srvMu.Unlock()
	k := serverKey(cfg)
	if s, ok := servers[k]; ok {
		return s
	}
	s := &srvT{reg: &vh.Registry{}, ln: vh.NewListener(), log: vh.NewLogBuf()}
	caps := imap.CapSet{imap.CapIMAP4rev1: {}}
	if cfg.CapMove {
		caps[imap.CapMove] = struct{}{}
	}
	if cfg.CapNamespace {
		caps[imap.CapNamespace] = struct{}{}
	}
	if cfg.CapUnauth {
		caps[imap.CapUnauthenticate] = struct{}{}
	}
	opts := &imapserver.Options{
		Caps:         caps,
		InsecureAuth: cfg.InsecureAuth,
		Logger:       s.log,
		NewSession: func(c *imapserver.Conn) (imapserver.Session, *imapserver.GreetingData, error) {
			st := s.reg.Get(c).(*vh.ScriptSession)
			if cfg.Sasl {
				return st.WrapSASL(cfg.CapMove), &imapserver.GreetingData{PreAuth: cfg.PreAuth}, nil
			}
			return st.Wrap(cfg.CapMove, cfg.CapNamespace, cfg.CapUnauth), &imapserver.GreetingData{PreAuth: cfg.PreAuth}, nil
		},
	}
	if cfg.HasTLSConfig {
		opts.TLSConfig = vh.ServerTLSConfig()
	}
	if cfg.TLS {
		s.ln.Wrap = func(c net.Conn) net.Conn { return tls.Server(c, vh.ServerTLSConfig()) }
	}
	s.srv = imapserver.New(opts)
	go s.srv.Serve(s.ln)
	servers[k] = s
	return s
}

// ---- one connection ----

type peer struct {
	cfg      config
	conn     *vh.Conn
	sc       *vh.Conn
	raw      *vh.Raw
	stub     *vh.ScriptSession
	srv      *srvT
	dead     bool
	last     string // state observed after the previous step
	upgraded bool   // STARTTLS was completed on this connection
}

// trailer is sent in the same write as a command that is going to end the connection (LOGOUT, or an
// unknown command before authentication): the commands would be accepted in the state before it.
const trailer = "zz1 LOGIN user pass\r\nzz2 SELECT INBOX\r\nzz3 STATUS probe (MESSAGES)\r\nzz4 NOOP\r\n"

func (p *peer) closing(ev *event) bool {
	if ev.Exp != nil {
		return ev.Exp.Closed && ev.C != "IDLE" && !strings.HasPrefix(ev.C, "AUTHENTICATE")
	}
	return ev.V != "bad" && (ev.C == "LOGOUT" || ev.C == "STARTTLS-PIPED" || ev.C == "STARTTLS-GARBAGE" || ev.C == "XUNKNOWN" && p.last == "notauth")
}

// canPipeStartTLS tells whether the server is going to accept STARTTLS now, from what was configured
// and observed so far (the piped variant is only defined there).
func (p *peer) canPipeStartTLS() bool {
	return p.cfg.HasTLSConfig && !p.cfg.TLS && !p.upgraded && p.last == "notauth"
}

func dial(cfg config) (*peer, error) {
	s := getServer(cfg)
	p := &peer{cfg: cfg, srv: s, stub: &vh.ScriptSession{}}
	c, sc, err := s.ln.Dial2(func(server *vh.Conn) { s.reg.Put(server, p.stub) })
	if err != nil {
		return nil, err
	}
	p.conn, p.sc = c, sc
	if cfg.TLS {
		tc := tls.Client(c, vh.ClientTLSConfig())
		c.SetReadDeadline(time.Now().Add(5 * time.Second))
		if err := tc.Handshake(); err != nil {
			return nil, fmt.Errorf("tls handshake: %v", err)
		}
		p.raw = vh.NewRaw(tc)
	} else {
		p.raw = vh.NewRaw(c)
	}
	g, err := p.raw.ReadResp()
	if err != nil {
		return nil, fmt.Errorf("greeting: %v", err)
	}
	want := "OK"
	if cfg.PreAuth {
		want = "PREAUTH"
	}
	if g.Name != want {
		return nil, fmt.Errorf("greeting %q, configuration wants %s", g.Raw, want)
	}
	p.last = "notauth"
	if cfg.PreAuth {
		p.last = "auth"
	}
	return p, nil
}

func (p *peer) close() {
	p.conn.Close()
	p.srv.reg.Drop(p.sc)
}

func cmdText(c, v string) string {
	if v == "bad" {
		switch c {
		case "NOOP", "CHECK", "LOGOUT", "CAPABILITY", "STARTTLS", "UNAUTHENTICATE", "NAMESPACE", "IDLE", "CLOSE", "UNSELECT", "EXPUNGE":
			return c + " garbage"
		case "ENABLE":
			return "ENABLE ("
		case "AUTHENTICATE-CANCEL", "AUTHENTICATE-X", "AUTHENTICATE-CONT":
			return "AUTHENTICATE"
		case "STATUS":
			return "STATUS m"
		case "FETCH", "UID FETCH":
			return c + " 1"
		case "STORE", "UID STORE":
			return c + " 1 FLAGS"
		case "SEARCH", "UID SEARCH":
			return c + " ("
		}
		return c
	}
	switch c {
	case "STARTTLS-PIPED", "STARTTLS-GARBAGE":
		return "STARTTLS"
	case "LOGIN":
		return "LOGIN u p"
	case "AUTHENTICATE":
		return "AUTHENTICATE PLAIN AHUAcA=="
	case "AUTHENTICATE-CANCEL", "AUTHENTICATE-CONT":
		return "AUTHENTICATE PLAIN"
	case "AUTHENTICATE-X":
		return "AUTHENTICATE XTEST eHRlc3Q="
	case "ENABLE":
		return "ENABLE IMAP4rev2"
	case "CREATE", "DELETE", "SUBSCRIBE", "UNSUBSCRIBE", "SELECT", "EXAMINE":
		return c + " m"
	case "RENAME":
		return "RENAME m n"
	case "STATUS":
		return "STATUS m (MESSAGES)"
	case "LIST", "LSUB":
		return c + ` "" "*"`
	case "APPEND":
		return "APPEND m {3+}\r\nabc"
	case "UID EXPUNGE":
		return "UID EXPUNGE 1"
	case "FETCH", "UID FETCH":
		return c + " 1 FLAGS"
	case "STORE", "UID STORE":
		return c + ` 1 +FLAGS (\Seen)`
	case "COPY", "UID COPY", "MOVE", "UID MOVE":
		return c + " 1 m"
	case "SEARCH", "UID SEARCH":
		return c + " ALL"
	case "XUNKNOWN":
		return "XYZZY"
	}
	return c
}

// run executes one command mechanically and observes.
func (p *peer) run(ev *event) (*obs, error) {
	o, err := p.run1(ev)
	if o != nil {
		p.last = o.State
	}
	return o, err
}

func (p *peer) run1(ev *event) (*obs, error) {
	o := &obs{Calls: []string{}}
	p.stub.Begin(ev.F)
	tag := p.raw.NextTag()
	line := tag + " " + cmdText(ev.C, ev.V) + "\r\n"
	piped := p.closing(ev)
	garbage := ev.C == "STARTTLS-GARBAGE"
	if piped && !garbage {
		line += trailer
	}
	if err := p.raw.Send(line); err != nil {
		return nil, fmt.Errorf("send: %v", err)
	}
	eof := false
	for {
		r, err := p.raw.ReadResp()
		if err != nil {
			eof = true
			break
		}
		if r.Malformed != "" {
			return nil, fmt.Errorf("malformed response %q: %s", r.Raw, r.Malformed)
		}
		if r.Tag == "+" {
			o.Cont++
			if ev.V != "bad" {
				switch ev.C {
				case "AUTHENTICATE-CANCEL":
					p.raw.Send("*\r\n")
				case "AUTHENTICATE-CONT":
					p.raw.Send("AHUAcA==\r\n")
				case "IDLE":
					p.raw.Send("DONE\r\n")
				}
			}
			continue
		}
		if r.Tag == tag {
			if r.Name == "OK" {
				o.Tagged = "OK"
			} else {
				o.Tagged = "NOTOK"
			}
			if piped && garbage && o.Tagged == "OK" {
				// no handshake: octets that are no TLS record, then plaintext commands - the upgrade has failed, the
				// connection is expected to end without a word and without executing anything
				p.raw.Send("\x16\x03 this is no TLS record\r\n" + trailer)
				continue
			}
			if piped && ev.C == "STARTTLS-PIPED" && o.Tagged == "OK" {
				// the transport now belongs to TLS: what the server does with the plaintext that was
				// already behind the STARTTLS line shows in a real handshake.  It is expected to fail
				// (the plaintext breaks it) and the connection to end.
				tc := tls.Client(p.conn, vh.ClientTLSConfig())
				p.conn.SetReadDeadline(time.Now().Add(5 * time.Second))
				if err := tc.Handshake(); err != nil {
					eof = true
					break
				}
				p.raw = vh.NewRaw(tc)
				p.raw.Timeout = 5 * time.Second
				o.TLS = true
				p.upgraded = true
				continue
			}
			if piped {
				continue // read on: the connection is expected to end without another tagged response
			}
			break
		}
		if piped && strings.HasPrefix(r.Tag, "zz") {
			o.After++
			if r.Tag == "zz4" {
				break
			}
			continue
		}
		if r.Tag != "*" {
			return nil, fmt.Errorf("response with foreign tag: %q", r.Raw)
		}
		switch r.Name {
		case "BYE":
			o.Bye = true
		case "RECENT":
			o.Recent = true
		}
	}
	if eof && piped {
		// the server may close its end before the serve loop stops: calls made for the pipelined
		// commands are only complete once the session has been closed
		for i := 0; i < 20000 && p.stub.CloseCount() == 0; i++ {
			time.Sleep(100 * time.Microsecond)
		}
	}
	for _, c := range p.stub.Calls() {
		o.Calls = append(o.Calls, c.M)
	}
	if eof {
		o.Closed = true
		o.State = "logout"
		return o, nil
	}
	if ev.C == "STARTTLS" && ev.V != "bad" && o.Tagged == "OK" {
		tc := tls.Client(p.conn, vh.ClientTLSConfig())
		p.conn.SetReadDeadline(time.Now().Add(5 * time.Second))
		if err := tc.Handshake(); err != nil {
			return nil, fmt.Errorf("STARTTLS handshake failed: %v", err)
		}
		p.raw = vh.NewRaw(tc)
		p.raw.Timeout = 5 * time.Second
		o.TLS = true
		p.upgraded = true
	}
	// probes: CAPABILITY then FETCH (not logged by the stub)
	p.stub.SetQuiet(true)
	defer p.stub.SetQuiet(false)
	ptag := p.raw.NextTag()
	p.raw.Send(ptag + " CAPABILITY\r\n") // a write error (peer already closed) shows up as EOF below
	un, tagged, err := p.raw.Until(ptag)
	for _, r := range un {
		if r.Name == "BYE" {
			o.Bye = true
		}
	}
	if err != nil {
		o.Closed = true
		o.State = "logout"
		return o, nil
	}
	if tagged.Name != "OK" {
		return nil, fmt.Errorf("CAPABILITY probe refused: %q", tagged.Raw)
	}
	for _, r := range un {
		if r.Name != "CAPABILITY" {
			continue
		}
		for _, t := range r.Toks {
			switch strings.ToUpper(t.S) {
			case "AUTH=PLAIN", "AUTH=XTEST":
				o.Caps.Auth = true
			case "LOGINDISABLED":
				o.Caps.LoginDis = true
			case "STARTTLS":
				o.Caps.StartTLS = true
			case "IDLE":
				o.Caps.Idle = true
			}
		}
	}
	_, tagged, err = p.raw.Cmd("FETCH 1 FLAGS")
	if err != nil {
		return nil, fmt.Errorf("FETCH probe: %v", err)
	}
	reached := false
	for _, m := range p.stub.QuietCalls() {
		if m == "Fetch" {
			reached = true
		}
	}
	switch {
	case reached && tagged.Name == "OK":
		o.State = "selected"
	case reached || tagged.Name == "OK":
		return nil, fmt.Errorf("FETCH probe inconsistent: reached=%v tagged=%q", reached, tagged.Raw)
	default:
		// distinguish notauth / auth with a second probe that reaches the stub iff authenticated
		_, tagged, err = p.raw.Cmd("STATUS probe (MESSAGES)")
		if err != nil {
			return nil, fmt.Errorf("STATUS probe: %v", err)
		}
		st := false
		for _, m := range p.stub.QuietCalls() {
			if m == "Status" {
				st = true
			}
		}
		if st && tagged.Name == "OK" {
			o.State = "auth"
		} else if !st && tagged.Name != "OK" {
			o.State = "notauth"
		} else {
			return nil, fmt.Errorf("STATUS probe inconsistent: reached=%v tagged=%q", st, tagged.Raw)
		}
	}
	return o, nil
}

func diff(ev *event, got *obs) (string, string) {
	e := ev.Exp
	switch {
	case got.Closed != e.Closed:
		return "closed/" + ev.C, fmt.Sprintf("connection closed=%v, spec predicts %v", got.Closed, e.Closed)
	case got.After != 0:
		return "after-close/" + ev.C, fmt.Sprintf("%d commands pipelined behind the closing command were answered", got.After)
	case got.Tagged != e.Tagged:
		return "tagged/" + ev.C, fmt.Sprintf("tagged %q, spec predicts %q", got.Tagged, e.Tagged)
	case strings.Join(got.Calls, ",") != strings.Join(e.Calls, ","):
		return "calls/" + ev.C, fmt.Sprintf("backend calls %v, spec predicts %v", got.Calls, e.Calls)
	case got.Bye != e.Bye:
		return "bye/" + ev.C, fmt.Sprintf("BYE=%v, spec predicts %v", got.Bye, e.Bye)
	case got.Cont != e.Cont:
		return "cont/" + ev.C, fmt.Sprintf("%d continuation requests, spec predicts %d", got.Cont, e.Cont)
	case got.Recent != e.Recent:
		return "recent/" + ev.C, fmt.Sprintf("RECENT=%v, spec predicts %v", got.Recent, e.Recent)
	case got.State != e.State:
		return "state/" + ev.C, fmt.Sprintf("state after step %q, spec predicts %q", got.State, e.State)
	case !e.Closed && got.Caps != e.Caps:
		return "caps/" + ev.C, fmt.Sprintf("capabilities %+v, spec predicts %+v", got.Caps, e.Caps)
	}
	return "", ""
}

type verdict struct {
	sig, detail string
	step        int
}

func replay(cs *caseT) (*verdict, int, error) {
	p, err := dial(cs.Cfg)
	if err != nil {
		return nil, 0, err
	}
	defer p.close()
	for i := range cs.Beh {
		ev := &cs.Beh[i]
		got, err := p.run(ev)
		if err != nil {
			return &verdict{"step-failed/" + ev.C, err.Error() + fmt.Sprintf(" (server log: %v)", p.srv.log.Snapshot()), i}, i + 1, nil
		}
		if sig, det := diff(ev, got); sig != "" {
			return &verdict{sig, det, i}, i + 1, nil
		}
	}
	return nil, len(cs.Beh), nil
}

func label(cs *caseT) string {
	var b strings.Builder
	fmt.Fprintf(&b, "%+v:", cs.Cfg)
	for _, e := range cs.Beh {
		fmt.Fprintf(&b, " %s/%s/%d", e.C, e.V, e.F)
	}
	return b.String()
}

func cmdReplay(path string, workers int) {
	out := vh.NewOut()
	defer out.Flush()
	jobs := make(chan *caseT, 1024)
	var wg sync.WaitGroup
	var nBeh, nSteps, nNontriv, nMis int64
	var infra atomic.Value
	var samples []interface{}
	var smu sync.Mutex
	for i := 0; i < workers; i++ {
		wg.Add(1)
		go func() {
			defer wg.Done()
			for cs := range jobs {
				v, steps, err := replay(cs)
				atomic.AddInt64(&nBeh, 1)
				atomic.AddInt64(&nSteps, int64(steps))
				nt := false
				for _, e := range cs.Beh {
					if e.Exp != nil && len(e.Exp.Calls) > 0 {
						nt = true
					}
				}
				if nt {
					atomic.AddInt64(&nNontriv, 1)
				}
				if err != nil {
					infra.Store(err.Error())
					continue
				}
				if v != nil {
					if atomic.AddInt64(&nMis, 1) <= 300 {
						cut := *cs
						cut.Beh = cs.Beh[:v.step+1]
						out.Mismatch(v.sig, fmt.Sprintf("%s — step %d: %s", label(&cut), v.step, v.detail), cut)
					}
				} else if nt {
					smu.Lock()
					if len(samples) < 3 {
						samples = append(samples, label(cs))
					}
					smu.Unlock()
				}
			}
		}()
	}
	err := vh.ReadTLines(path, func(b []byte) error {
		cs := &caseT{}
		if err := json.Unmarshal(b, cs); err != nil {
			return err
		}
		jobs <- cs
		return nil
	})
	close(jobs)
	wg.Wait()
	sum := map[string]interface{}{"behaviours": nBeh, "steps": nSteps, "nontrivial": nNontriv, "mismatches": nMis, "samples": samples}
	if err != nil {
		sum["infra_error"] = err.Error()
	} else if e := infra.Load(); e != nil {
		sum["infra_error"] = e
	}
	out.Summary(sum)
}

func cmdOne(path string) {
	out := vh.NewOut()
	defer out.Flush()
	b, err := os.ReadFile(path)
	if err != nil {
		fmt.Fprintln(os.Stderr, err)
		os.Exit(2)
	}
	cs := &caseT{}
	if err := json.Unmarshal(b, cs); err != nil {
		fmt.Fprintln(os.Stderr, err)
		os.Exit(2)
	}
	v, steps, err := replay(cs)
	if err != nil {
		fmt.Fprintln(os.Stderr, err)
		os.Exit(2)
	}
	if v != nil {
		out.Mismatch(v.sig, fmt.Sprintf("%s — step %d: %s", label(cs), v.step, v.detail), cs)
	}
	out.Summary(map[string]interface{}{"behaviours": 1, "steps": steps})
}

var allCmds = []string{"NOOP", "CHECK", "LOGOUT", "CAPABILITY", "STARTTLS", "LOGIN", "AUTHENTICATE", "AUTHENTICATE-CANCEL", "AUTHENTICATE-X", "AUTHENTICATE-CONT",
	"ENABLE", "CREATE", "DELETE", "RENAME", "SUBSCRIBE", "UNSUBSCRIBE", "STATUS", "LIST", "LSUB", "NAMESPACE", "IDLE",
	"SELECT", "EXAMINE", "APPEND", "UNAUTHENTICATE", "CLOSE", "UNSELECT", "EXPUNGE", "UID EXPUNGE", "FETCH", "UID FETCH",
	"STORE", "UID STORE", "COPY", "UID COPY", "MOVE", "UID MOVE", "SEARCH", "UID SEARCH", "XUNKNOWN"}

func cmdRandom(path string, seed int64, traces, steps int) {
	out := vh.NewOut()
	defer out.Flush()
	f, err := os.Create(path)
	if err != nil {
		fmt.Fprintln(os.Stderr, err)
		os.Exit(2)
	}
	defer f.Close()
	enc := json.NewEncoder(f)
	rng := rand.New(rand.NewSource(seed))
	total := 0
	for t := 0; t < traces; t++ {
		cfg := config{rng.Intn(2) == 0, rng.Intn(2) == 0, rng.Intn(3) == 0, rng.Intn(2) == 0, rng.Intn(2) == 0, rng.Intn(2) == 0, rng.Intn(2) == 0, rng.Intn(2) == 0}
		if cfg.Sasl {
			cfg.CapNamespace, cfg.CapUnauth = cfg.CapMove, cfg.CapMove
		}
		p, err := dial(cfg)
		if err != nil {
			out.Summary(map[string]interface{}{"infra_error": err.Error()})
			return
		}
		enc.Encode(map[string]interface{}{"ev": "Reset", "cfg": cfg})
		total++
		for i := 0; i < steps; i++ {
			ev := event{C: allCmds[rng.Intn(len(allCmds))], V: "good", F: 0}
			// LOGOUT and unknown commands end a trace: keep them rare so traces get long
			if (ev.C == "LOGOUT" || ev.C == "XUNKNOWN") && rng.Intn(4) != 0 {
				ev.C = "NOOP"
			}
			if ev.C == "STARTTLS" && p.canPipeStartTLS() && rng.Intn(3) == 0 {
				ev.C = []string{"STARTTLS-PIPED", "STARTTLS-GARBAGE"}[rng.Intn(2)]
			}
			if rng.Intn(6) == 0 && ev.C != "XUNKNOWN" && ev.C != "STARTTLS-PIPED" && ev.C != "STARTTLS-GARBAGE" {
				ev.V = "bad"
			}
			if rng.Intn(4) == 0 {
				ev.F = 1 + rng.Intn(2)
			}
			got, err := p.run(&ev)
			if err != nil {
				enc.Encode(map[string]interface{}{"ev": "Failed", "c": ev.C, "v": ev.V, "f": ev.F, "err": err.Error()})
				total++
				out.Mismatch("step-failed/"+ev.C, err.Error(), nil)
				break
			}
			enc.Encode(map[string]interface{}{"ev": "Cmd", "c": ev.C, "v": ev.V, "f": ev.F, "obs": got})
			total++
			if got.Closed {
				break
			}
		}
		p.close()
	}
	out.Summary(map[string]interface{}{"records": total, "traces": traces})
}

func main() {
	if len(os.Args) < 3 {
		fmt.Fprintln(os.Stderr, "usage: serverconn replay|one|random <file> [flags]")
		os.Exit(2)
	}
	mode, path := os.Args[1], os.Args[2]
	fs := flag.NewFlagSet(mode, flag.ExitOnError)
	seed := fs.Int64("seed", 1, "")
	traces := fs.Int("traces", 100, "")
	steps := fs.Int("steps", 100, "")
	workers := fs.Int("workers", 16, "")
	fs.Parse(os.Args[3:])
	switch mode {
	case "replay":
		cmdReplay(path, *workers)
	case "one":
		cmdOne(path)
	case "random":
		cmdRandom(path, *seed, *traces, *steps)
	default:
		os.Exit(2)
	}
}
