// Command clientfault binds spec/ClientFault.tla to imapclient (property C10):
// session scripts covering every kind of blocking call (Wait, streaming
// Collect with literals, APPEND with continuation request, AUTHENTICATE
// exchange, IDLE, pipelined commands answered out of order) are run against a
// scripted server whose reply stream is cut at EVERY byte offset with each
// kind of fault: clean EOF, read error, failing writes, stall (virtual time:
// an armed read deadline fires at once; without deadline the caller closes the
// client).  Recorded per run: which calls returned and how, whether Close
// returned; ClientFaultTrace judges (success only with the completion fully
// received; everything returns).
//
//	clientfault run <out.ndjson> [-stride n] [-seed s]
//	clientfault one <case.json> <out.ndjson>
package main

import (
	"bufio"
	"encoding/json"
	"errors"
	"flag"
	"fmt"
	"io"
	"math/rand"
	"os"
	"strings"
	"sync"
	"time"

	"github.com/emersion/go-imap/v2"
	"github.com/emersion/go-imap/v2/imapclient"
	"github.com/emersion/go-sasl"

	"verif/harness/vh"
)

// seg is a piece of the server's reply stream, sent once the server has read
// `after` lines of the step's client output.
type seg struct {
	after int
	data  func(tags []string) string
}

type step struct {
	ncmds int                                 // client commands issued by this step
	call  func(cl *imapclient.Client) []error // issues them, blocks until all are done; one error per command
	segs  []seg
	ends  []int // for each command: index of the segment whose end completes it
}

func fixed(s string) func([]string) string { return func([]string) string { return s } }
func tagged(i int, rest string) func([]string) string {
	return func(t []string) string { return t[i] + " " + rest + "\r\n" }
}
func one(err error) []error { return []error{err} }
func lit(s string) string   { return fmt.Sprintf("{%d}\r\n%s", len(s), s) }

// concStep: g goroutines issue k NOOPs each, one after the other; the server answers every command as it
// arrives.  The errors are returned in the order in which the commands were submitted (= written).
func concStep(g, k int) step {
	n := g * k
	st := step{ncmds: n}
	for i := 0; i < n; i++ {
		i := i
		st.segs = append(st.segs, seg{i + 1, func(t []string) string { return t[i] + " OK noop\r\n" }})
		st.ends = append(st.ends, i)
	}
	st.call = func(cl *imapclient.Client) []error {
		errs := make([]error, n)
		var mu sync.Mutex
		next := 0
		var wg sync.WaitGroup
		for j := 0; j < g; j++ {
			wg.Add(1)
			go func() {
				defer wg.Done()
				for x := 0; x < k; x++ {
					mu.Lock()
					idx := next
					next++
					cmd := cl.Noop() // submission order = order on the wire (held across the call)
					mu.Unlock()
					errs[idx] = cmd.Wait()
					if errs[idx] != nil {
						// the connection is gone: the remaining calls of this goroutine still have to return
						for y := x + 1; y < k; y++ {
							mu.Lock()
							idx := next
							next++
							cmd := cl.Noop()
							mu.Unlock()
							errs[idx] = cmd.Wait()
						}
						return
					}
				}
			}()
		}
		wg.Wait()
		return errs
	}
	return st
}

// settlers: per client, a function that waits (briefly) until the client's reader goroutine is blocked in Read -
// what a caller that takes its time between two calls gives the client the time to do
var settlers sync.Map

func settle(cl *imapclient.Client) {
	if f, ok := settlers.Load(cl); ok {
		f.(func())()
	}
}

// scripts run over a connection whose writes return late
var lateWrites = map[string]bool{"authslow": true}

var seq12 = func() imap.SeqSet { var s imap.SeqSet; s.AddRange(1, 2); return s }()

var scripts = map[string][]step{
	"mail": {
		{1, func(cl *imapclient.Client) []error { return one(cl.Login("user", "pass").Wait()) },
			[]seg{{1, tagged(0, "OK [CAPABILITY IMAP4rev1 IDLE] logged in")}}, []int{0}},
		{1, func(cl *imapclient.Client) []error { _, err := cl.Select("INBOX", nil).Wait(); return one(err) },
			[]seg{{1, fixed("* 2 EXISTS\r\n* FLAGS (\\Seen \\Deleted)\r\n* OK [PERMANENTFLAGS (\\Seen \\Deleted \\*)] ok\r\n* OK [UIDVALIDITY 7] ok\r\n* OK [UIDNEXT 3] ok\r\n")},
				{1, tagged(0, "OK [READ-WRITE] selected")}}, []int{1}},
		{1, func(cl *imapclient.Client) []error {
			_, err := cl.Fetch(seq12, &imap.FetchOptions{Flags: true, UID: true, BodySection: []*imap.FetchItemBodySection{{}}}).Collect()
			return one(err)
		}, []seg{{1, fixed("* 1 FETCH (UID 1 FLAGS (\\Seen) BODY[] " + lit("Subject: a\r\n\r\nhello one") + ")\r\n* 2 FETCH (FLAGS () UID 2 BODY[] " + lit("Subject: b\r\n\r\nhello two!") + ")\r\n")},
			{1, tagged(0, "OK fetched")}}, []int{1}},
		{1, func(cl *imapclient.Client) []error {
			_, err := cl.Store(seq12, &imap.StoreFlags{Op: imap.StoreFlagsAdd, Flags: []imap.Flag{imap.FlagDeleted}}, nil).Collect()
			return one(err)
		}, []seg{{1, fixed("* 1 FETCH (FLAGS (\\Seen \\Deleted))\r\n* 2 FETCH (FLAGS (\\Deleted))\r\n")}, {1, tagged(0, "OK stored")}}, []int{1}},
		{1, func(cl *imapclient.Client) []error {
			_, err := cl.Search(&imap.SearchCriteria{}, nil).Wait()
			return one(err)
		},
			[]seg{{1, fixed("* SEARCH 1 2\r\n")}, {1, tagged(0, "OK searched")}}, []int{1}},
		{1, func(cl *imapclient.Client) []error { _, err := cl.Copy(seq12, "Other").Wait(); return one(err) },
			[]seg{{1, tagged(0, "OK [COPYUID 9 1:2 5:6] copied")}}, []int{0}},
		{1, func(cl *imapclient.Client) []error { _, err := cl.Expunge().Collect(); return one(err) },
			[]seg{{1, fixed("* 1 EXPUNGE\r\n* 1 EXPUNGE\r\n")}, {1, tagged(0, "OK expunged")}}, []int{1}},
		{1, func(cl *imapclient.Client) []error { return one(cl.Logout().Wait()) },
			[]seg{{1, fixed("* BYE bye\r\n")}, {1, tagged(0, "OK logged out")}}, []int{1}},
	},
	"auth": {
		{1, func(cl *imapclient.Client) []error {
			return one(cl.Authenticate(sasl.NewPlainClient("", "user", "pass")))
		},
			[]seg{{1, fixed("+ \r\n")}, {2, tagged(0, "OK [CAPABILITY IMAP4rev1 IDLE] authenticated")}}, []int{1}},
		{1, func(cl *imapclient.Client) []error { _, err := cl.List("", "*", nil).Collect(); return one(err) },
			[]seg{{1, fixed("* LIST (\\HasNoChildren) \"/\" INBOX\r\n* LIST () \"/\" {5}\r\nOther\r\n* LIST (\\Noselect) NIL \"we ird\"\r\n")}, {1, tagged(0, "OK listed")}}, []int{1}},
		{1, func(cl *imapclient.Client) []error {
			_, err := cl.Status("INBOX", &imap.StatusOptions{NumMessages: true, UIDNext: true}).Wait()
			return one(err)
		}, []seg{{1, fixed("* STATUS INBOX (MESSAGES 2 UIDNEXT 3)\r\n")}, {1, tagged(0, "OK status")}}, []int{1}},
		{1, func(cl *imapclient.Client) []error {
			body := "Subject: x\r\n\r\n" + strings.Repeat("y", 30)
			cmd := cl.Append("INBOX", int64(len(body)), nil)
			cmd.Write([]byte(body))
			cmd.Close()
			_, err := cmd.Wait()
			return one(err)
		}, []seg{{1, fixed("+ go ahead\r\n")}, {4, tagged(0, "OK [APPENDUID 7 3] appended")}}, []int{1}},
		{1, func(cl *imapclient.Client) []error { return one(cl.Noop().Wait()) },
			[]seg{{1, fixed("* 3 EXISTS\r\n")}, {1, tagged(0, "OK noop")}}, []int{1}},
	},
	// the same exchange over a connection whose writes return late (the peer has read the octets and answered by
	// the time the caller gets control back): whatever the client arranges after a write comes after the answer
	"authslow": {
		{1, func(cl *imapclient.Client) []error {
			return one(cl.Authenticate(sasl.NewPlainClient("", "user", "pass")))
		},
			[]seg{{1, fixed("+ \r\n")}, {2, tagged(0, "OK [CAPABILITY IMAP4rev1 IDLE] authenticated")}}, []int{1}},
		{1, func(cl *imapclient.Client) []error {
			body := "Subject: x\r\n\r\n" + strings.Repeat("y", 30)
			cmd := cl.Append("INBOX", int64(len(body)), nil)
			cmd.Write([]byte(body))
			cmd.Close()
			_, err := cmd.Wait()
			return one(err)
		}, []seg{{1, fixed("+ go ahead\r\n")}, {4, tagged(0, "OK [APPENDUID 7 3] appended")}}, []int{1}},
		{1, func(cl *imapclient.Client) []error {
			idle, err := cl.Idle()
			if err != nil {
				return one(err)
			}
			if err := idle.Close(); err != nil {
				return one(err)
			}
			return one(idle.Wait())
		}, []seg{{1, fixed("+ idling\r\n")}, {2, tagged(0, "OK idle done")}}, []int{1}},
		{1, func(cl *imapclient.Client) []error { return one(cl.Noop().Wait()) },
			[]seg{{1, tagged(0, "OK noop")}}, []int{0}},
	},
	"idlepipe": {
		{1, func(cl *imapclient.Client) []error { return one(cl.Login("u", "p").Wait()) },
			[]seg{{1, tagged(0, "OK [CAPABILITY IMAP4rev1 IDLE] in")}}, []int{0}},
		{1, func(cl *imapclient.Client) []error { _, err := cl.Select("INBOX", nil).Wait(); return one(err) },
			[]seg{{1, fixed("* 1 EXISTS\r\n")}, {1, tagged(0, "OK sel")}}, []int{1}},
		{1, func(cl *imapclient.Client) []error {
			idle, err := cl.Idle()
			if err != nil {
				return one(err)
			}
			if err := idle.Close(); err != nil {
				return one(err)
			}
			return one(idle.Wait())
		}, []seg{{1, fixed("+ idling\r\n* 2 EXISTS\r\n* 1 EXPUNGE\r\n")}, {2, tagged(0, "OK idle done")}}, []int{1}},
		{3, func(cl *imapclient.Client) []error {
			// three pipelined commands, answered out of order
			a := cl.Noop()
			b := cl.Status("Other", &imap.StatusOptions{NumMessages: true})
			var one imap.SeqSet
			one.AddNum(1)
			c := cl.Fetch(one, &imap.FetchOptions{Flags: true})
			_, errC := c.Collect()
			_, errB := b.Wait()
			errA := a.Wait()
			return []error{errA, errB, errC}
		}, []seg{{3, fixed("* 1 FETCH (FLAGS (\\Seen))\r\n")}, {3, tagged(2, "OK fetch first")},
			{3, fixed("* STATUS Other (MESSAGES 4)\r\n")}, {3, tagged(1, "OK status second")}, {3, tagged(0, "OK noop last")}}, []int{4, 3, 1}},
	},
	// data nobody asked for, with literals: an unsolicited FETCH carrying a body, a second FETCH response for
	// a message the command has already been given, a UID FETCH answer whose body comes before the UID item
	// (the client has no handler for unilateral data)
	"unsol": {
		{1, func(cl *imapclient.Client) []error { return one(cl.Login("u", "p").Wait()) },
			[]seg{{1, tagged(0, "OK [CAPABILITY IMAP4rev1] in")}}, []int{0}},
		{1, func(cl *imapclient.Client) []error { _, err := cl.Select("INBOX", nil).Wait(); return one(err) },
			[]seg{{1, fixed("* 2 EXISTS\r\n")}, {1, tagged(0, "OK sel")}}, []int{1}},
		{1, func(cl *imapclient.Client) []error { return one(cl.Noop().Wait()) },
			[]seg{{1, fixed("* 1 FETCH (FLAGS (\\Seen) BODY[] " + lit("unsolicited body") + ")\r\n* 2 FETCH (BODY[HEADER] \"quoted body\")\r\n")}, {1, tagged(0, "OK noop")}}, []int{1}},
		{1, func(cl *imapclient.Client) []error {
			var one1 imap.SeqSet
			one1.AddNum(1)
			_, err := cl.Fetch(one1, &imap.FetchOptions{BodySection: []*imap.FetchItemBodySection{{}}}).Collect()
			return one(err)
		}, []seg{{1, fixed("* 1 FETCH (BODY[] " + lit("first answer") + ")\r\n* 1 FETCH (BODY[] " + lit("the same message again") + ")\r\n")},
			{1, tagged(0, "OK fetched")}}, []int{1}},
		{1, func(cl *imapclient.Client) []error {
			var u imap.UIDSet
			u.AddNum(7)
			_, err := cl.Fetch(u, &imap.FetchOptions{UID: true, BodySection: []*imap.FetchItemBodySection{{}}}).Collect()
			return one(err)
		}, []seg{{1, fixed("* 1 FETCH (BODY[] " + lit("body before the uid") + " UID 7)\r\n")}, {1, tagged(0, "OK uid fetched")}}, []int{1}},
		{1, func(cl *imapclient.Client) []error { return one(cl.Noop().Wait()) },
			[]seg{{1, tagged(0, "OK still usable")}}, []int{0}},
	},
	// streaming commands consumed item by item, literals read partly, commands closed early
	"stream": {
		{1, func(cl *imapclient.Client) []error { return one(cl.Login("u", "p").Wait()) },
			[]seg{{1, tagged(0, "OK [CAPABILITY IMAP4rev1] in")}}, []int{0}},
		{1, func(cl *imapclient.Client) []error { _, err := cl.Select("INBOX", nil).Wait(); return one(err) },
			[]seg{{1, fixed("* 3 EXISTS\r\n")}, {1, tagged(0, "OK sel")}}, []int{1}},
		{1, func(cl *imapclient.Client) []error {
			cmd := cl.Fetch(seq12, &imap.FetchOptions{UID: true, BodySection: []*imap.FetchItemBodySection{{}}})
			if msg := cmd.Next(); msg != nil {
				for {
					it := msg.Next()
					if it == nil {
						break
					}
					if b, ok := it.(imapclient.FetchItemDataBodySection); ok && b.Literal != nil {
						buf := make([]byte, 4)
						io.ReadFull(b.Literal, buf) // only the beginning of the body
						break
					}
				}
			}
			return one(cmd.Close()) // the rest of the message and the second message are dropped
		}, []seg{{1, fixed("* 1 FETCH (UID 1 BODY[] " + lit("a body that is read only partly") + " FLAGS (\\Seen))\r\n* 2 FETCH (UID 2 BODY[] " + lit("never looked at") + ")\r\n")},
			{1, tagged(0, "OK fetched")}}, []int{1}},
		{1, func(cl *imapclient.Client) []error {
			// a caller that takes its time: every body is read to its end, and the next call is made
			// only once the client has gone back to waiting for the server
			cmd := cl.Fetch(seq12, &imap.FetchOptions{UID: true, Flags: true, BodySection: []*imap.FetchItemBodySection{{}}})
			for {
				msg := cmd.Next()
				if msg == nil {
					break
				}
				for {
					it := msg.Next()
					if it == nil {
						break
					}
					if b, ok := it.(imapclient.FetchItemDataBodySection); ok && b.Literal != nil {
						io.ReadAll(b.Literal)
						settle(cl)
					}
				}
			}
			return one(cmd.Close())
		}, []seg{{1, fixed("* 1 FETCH (UID 1 BODY[] " + lit("read to the end, slowly") + " FLAGS (\\Seen))\r\n* 2 FETCH (BODY[] " + lit("second body") + " UID 2 FLAGS ())\r\n")},
			{1, tagged(0, "OK fetched")}}, []int{1}},
		{1, func(cl *imapclient.Client) []error {
			cmd := cl.List("", "%", nil)
			cmd.Next()
			return one(cmd.Close())
		}, []seg{{1, fixed("* LIST () \"/\" a\r\n* LIST () \"/\" " + lit("b c") + "\r\n* LIST (\\Noselect) \"/\" d\r\n")}, {1, tagged(0, "OK listed")}}, []int{1}},
		{1, func(cl *imapclient.Client) []error {
			cmd := cl.Expunge()
			cmd.Next()
			return one(cmd.Close())
		}, []seg{{1, fixed("* 3 EXPUNGE\r\n* 1 EXPUNGE\r\n")}, {1, tagged(0, "OK expunged")}}, []int{1}},
		{2, func(cl *imapclient.Client) []error {
			// two streaming commands in flight, the first one closed before the second is looked at
			var one1 imap.SeqSet
			one1.AddNum(1)
			a := cl.Fetch(one1, &imap.FetchOptions{Flags: true})
			b := cl.List("", "*", nil)
			errA := a.Close()
			_, errB := b.Collect()
			return []error{errA, errB}
		}, []seg{{2, fixed("* 1 FETCH (FLAGS ())\r\n")}, {2, tagged(0, "OK a")}, {2, fixed("* LIST () \"/\" a\r\n")}, {2, tagged(1, "OK b")}}, []int{1, 3}},
	},
	// two goroutines use the client at the same time (as its documentation allows) while the fault strikes:
	// every one of their calls has to return as well
	"conc": {
		{1, func(cl *imapclient.Client) []error { return one(cl.Login("u", "p").Wait()) },
			[]seg{{1, tagged(0, "OK [CAPABILITY IMAP4rev1] in")}}, []int{0}},
		concStep(2, 5),
		concStep(3, 4),
	},
	// the extension commands, each with its own data response
	"ext": {
		{1, func(cl *imapclient.Client) []error { return one(cl.Login("u", "p").Wait()) },
			[]seg{{1, tagged(0, "OK [CAPABILITY IMAP4rev1 ENABLE NAMESPACE SORT THREAD=REFERENCES QUOTA METADATA LIST-STATUS MOVE UIDPLUS UNSELECT] in")}}, []int{0}},
		{1, func(cl *imapclient.Client) []error { _, err := cl.Capability().Wait(); return one(err) },
			[]seg{{1, fixed("* CAPABILITY IMAP4rev1 ENABLE NAMESPACE SORT THREAD=REFERENCES QUOTA METADATA LIST-STATUS MOVE UIDPLUS UNSELECT\r\n")}, {1, tagged(0, "OK caps")}}, []int{1}},
		{1, func(cl *imapclient.Client) []error { _, err := cl.Enable(imap.CapMetadata).Wait(); return one(err) },
			[]seg{{1, fixed("* ENABLED METADATA\r\n")}, {1, tagged(0, "OK enabled")}}, []int{1}},
		{1, func(cl *imapclient.Client) []error { _, err := cl.Namespace().Wait(); return one(err) },
			[]seg{{1, fixed("* NAMESPACE ((\"\" \"/\")) NIL ((" + lit("Shared/") + " \"/\"))\r\n")}, {1, tagged(0, "OK ns")}}, []int{1}},
		{1, func(cl *imapclient.Client) []error {
			_, err := cl.List("", "*", &imap.ListOptions{ReturnStatus: &imap.StatusOptions{NumMessages: true}}).Collect()
			return one(err)
		}, []seg{{1, fixed("* LIST () \"/\" INBOX\r\n* STATUS INBOX (MESSAGES 2)\r\n* LIST () \"/\" Other\r\n* STATUS Other (MESSAGES 0)\r\n* LIST (\\Noselect) \"/\" Dir\r\n")},
			{1, tagged(0, "OK listed")}}, []int{1}},
		{1, func(cl *imapclient.Client) []error { _, err := cl.GetQuotaRoot("INBOX").Wait(); return one(err) },
			[]seg{{1, fixed("* QUOTAROOT INBOX \"\"\r\n* QUOTA \"\" (STORAGE 10 512)\r\n")}, {1, tagged(0, "OK quotaroot")}}, []int{1}},
		{1, func(cl *imapclient.Client) []error { _, err := cl.GetQuota("").Wait(); return one(err) },
			[]seg{{1, fixed("* QUOTA \"\" (STORAGE 10 512 MESSAGE 2 100)\r\n")}, {1, tagged(0, "OK quota")}}, []int{1}},
		{1, func(cl *imapclient.Client) []error {
			_, err := cl.GetMetadata("INBOX", []string{"/private/comment"}, nil).Wait()
			return one(err)
		}, []seg{{1, fixed("* METADATA INBOX (/private/comment " + lit("my comment") + ")\r\n")}, {1, tagged(0, "OK metadata")}}, []int{1}},
		{1, func(cl *imapclient.Client) []error { _, err := cl.Select("INBOX", nil).Wait(); return one(err) },
			[]seg{{1, fixed("* 2 EXISTS\r\n* LIST () \"/\" INBOX\r\n")}, {1, tagged(0, "OK [READ-WRITE] sel")}}, []int{1}},
		{1, func(cl *imapclient.Client) []error {
			_, err := cl.Sort(&imapclient.SortOptions{SearchCriteria: &imap.SearchCriteria{}, SortCriteria: []imapclient.SortCriterion{{Key: imapclient.SortKeyDate}}}).Wait()
			return one(err)
		}, []seg{{1, fixed("* SORT 2 1\r\n")}, {1, tagged(0, "OK sorted")}}, []int{1}},
		{1, func(cl *imapclient.Client) []error {
			_, err := cl.Thread(&imapclient.ThreadOptions{Algorithm: imap.ThreadReferences, SearchCriteria: &imap.SearchCriteria{}}).Wait()
			return one(err)
		}, []seg{{1, fixed("* THREAD (1 (2))\r\n")}, {1, tagged(0, "OK threaded")}}, []int{1}},
		{1, func(cl *imapclient.Client) []error {
			_, err := cl.UIDSearch(&imap.SearchCriteria{}, &imap.SearchOptions{ReturnMin: true, ReturnCount: true}).Wait()
			return one(err)
		}, []seg{{1, func(t []string) string { return "* ESEARCH (TAG \"" + t[0] + "\") UID MIN 1 COUNT 2\r\n" }}, {1, tagged(0, "OK searched")}}, []int{1}},
		{1, func(cl *imapclient.Client) []error { _, err := cl.Move(seq12, "Other").Wait(); return one(err) },
			[]seg{{1, fixed("* OK [COPYUID 9 1:2 5:6] moved\r\n* 2 EXPUNGE\r\n* 1 EXPUNGE\r\n")}, {1, tagged(0, "OK moved")}}, []int{1}},
		{1, func(cl *imapclient.Client) []error {
			var u imap.UIDSet
			u.AddNum(3)
			_, err := cl.UIDExpunge(u).Collect()
			return one(err)
		}, []seg{{1, tagged(0, "OK nothing to expunge")}}, []int{0}},
		{1, func(cl *imapclient.Client) []error { return one(cl.Unselect().Wait()) },
			[]seg{{1, tagged(0, "OK unselected")}}, []int{0}},
	},
}

type caseT struct {
	Script string `json:"script"`
	Cut    int    `json:"cut"`
	Fault  string `json:"fault"`
	Mid    bool   `json:"mid"` // the cut lies inside a response
}

type runResult struct {
	layout []int
	rets   []map[string]interface{}
	issued int
	closed bool
	hung   bool
	total  int
	hungAt string
	stream string // dry run: everything the server sent after the greeting
	self   bool   // every call had returned before the caller closed the client
	dead   string // "" | "err" | "ok" | "hang": how a command issued after the first failure ended
}

// respBounds returns the offsets of the reply stream that lie between two responses (0, and the offset after
// the CRLF of every response; a "{n}" right before a CRLF announces n octets that belong to the same response).
func respBounds(stream string) map[int]bool {
	b := map[int]bool{0: true}
	i := 0
	for i < len(stream) {
		j := strings.Index(stream[i:], "\r\n")
		if j < 0 {
			break
		}
		end := i + j + 2
		line := stream[i : i+j]
		if strings.HasSuffix(line, "}") {
			if k := strings.LastIndex(line, "{"); k >= 0 {
				n := 0
				if _, err := fmt.Sscanf(line[k:], "{%d}", &n); err == nil {
					i = end + n
					continue
				}
			}
		}
		b[end] = true
		i = end
	}
	return b
}

func statusOf(err error) string {
	if err == nil {
		return "ok"
	}
	return "err"
}

// runCase plays one session; cut < 0 means no fault (dry run to learn the layout).
func runCase(cs caseT) *runResult {
	steps := scripts[cs.Script]
	cc, sc := vh.NewConnPair()
	res := &runResult{}
	var mu sync.Mutex
	sent := 0
	faulted := false
	stalled := make(chan struct{})
	if cs.Fault != "stall" {
		close(stalled)
	}
	inject := func() {
		faulted = true
		switch cs.Fault {
		case "eof":
			sc.CloseWrite()
		case "readerr":
			sc.InjectPeerReadError(errors.New("read: connection reset by peer"))
		case "writeerr":
			cc.FailWrites(errors.New("write: broken pipe"))
			cc.Stall()
		case "stall":
			// virtual time: the stall outlasts every timeout of the client.  The clock is advanced once
			// the client has come to rest (its reader blocked in Read, nobody touching the deadline any
			// more): the real timeouts are tens of seconds, everything the goroutines of the client and of
			// the caller do on their own happens long before one of them expires.
			go func() {
				stable, last := 0, int64(-1)
				for i := 0; i < 300 && stable < 4; i++ {
					time.Sleep(100 * time.Microsecond)
					g := cc.ReadDeadlineGen()
					if sc.PeerBlockedInRead() && g == last {
						stable++
					} else {
						stable = 0
					}
					last = g
				}
				cc.Stall()
				close(stalled)
			}()
		}
	}
	// emit sends reply bytes, enforcing the cut; it returns false once the fault has been injected
	emit := func(data string) bool {
		mu.Lock()
		defer mu.Unlock()
		if faulted {
			return false
		}
		if cs.Cut >= 0 && sent+len(data) > cs.Cut {
			n := cs.Cut - sent
			if n > 0 {
				sc.Write([]byte(data[:n]))
				sent += n
			}
			inject()
			return false
		}
		sc.Write([]byte(data))
		sent += len(data)
		if cs.Cut < 0 {
			res.stream += data
		}
		if cs.Cut >= 0 && sent == cs.Cut {
			inject()
			return false
		}
		return true
	}
	greeting := "* OK [CAPABILITY IMAP4rev1] ready\r\n"
	sc.Write([]byte(greeting))
	if lateWrites[cs.Script] {
		cc.SetWriteLinger(300 * time.Microsecond)
	}
	cl := imapclient.New(cc, nil)
	settlers.Store(cl, func() {
		for i := 0; i < 20 && !sc.PeerBlockedInRead(); i++ {
			time.Sleep(100 * time.Microsecond)
		}
	})
	defer settlers.Delete(cl)
	if err := cl.WaitGreeting(); err != nil {
		res.hungAt = "greeting: " + err.Error()
		res.hung = true
		return res
	}
	if cs.Cut == 0 {
		mu.Lock()
		inject()
		mu.Unlock()
	}
	// server
	go func() {
		br := bufio.NewReader(sc)
		cmdIndex := 0
		for _, st := range steps {
			var tags []string
			lines := 0
			for si, sg := range st.segs {
				for lines < sg.after {
					sc.SetReadDeadline(time.Now().Add(10 * time.Second))
					line, err := br.ReadString('\n')
					if err != nil {
						return
					}
					lines++
					if len(tags) < st.ncmds {
						tags = append(tags, strings.SplitN(line, " ", 2)[0])
					}
				}
				data := sg.data(tags)
				ok := emit(data)
				mu.Lock()
				for c, e := range st.ends {
					if e == si && cs.Cut < 0 {
						for len(res.layout) <= cmdIndex+c {
							res.layout = append(res.layout, 0)
						}
						res.layout[cmdIndex+c] = sent
					}
				}
				mu.Unlock()
				if !ok {
					io.Copy(io.Discard, br) // keep draining what the client writes
					return
				}
			}
			cmdIndex += st.ncmds
		}
		mu.Lock()
		res.total = sent
		mu.Unlock()
	}()
	// caller
	done := make(chan struct{})
	go func() {
		defer close(done)
		idx := 0
		for _, st := range steps {
			errs := st.call(cl)
			stop := false
			mu.Lock()
			for c, err := range errs {
				ret := map[string]interface{}{"ev": "Ret", "i": idx + c + 1, "res": statusOf(err)}
				if err != nil && cs.Cut < 0 {
					ret["err"] = err.Error()
				}
				res.rets = append(res.rets, ret)
				if err != nil {
					stop = true
				}
			}
			res.issued = idx + st.ncmds
			mu.Unlock()
			idx += st.ncmds
			if stop {
				// the connection is gone (a call has reported it): one more command is issued - it has to fail, and
				// at once (a command issued after the reader has exited must not wait for an answer that cannot come)
				dn := make(chan error, 1)
				go func() { dn <- cl.Noop().Wait() }()
				dead := "hang"
				select {
				case err := <-dn:
					dead = statusOf(err)
				case <-time.After(3 * time.Second):
				}
				mu.Lock()
				res.dead = dead
				mu.Unlock()
				return
			}
		}
	}()
	finished := false
	select {
	case <-done:
		finished = true
	case <-stalled:
		// the virtual clock has been advanced: what returns by the client's own timeout returns now
		wait := 40 * time.Millisecond
		if cs.Fault == "stall" && cs.Mid {
			wait = 2 * time.Second // (a loaded machine must not look like a timeout that never fires)
		}
		select {
		case <-done:
			finished = true
		case <-time.After(wait):
		}
	}
	res.self = finished
	if !finished && cs.Cut >= 0 {
		// the connection is stalled where the client has no deadline of its own (or the calls simply
		// take longer): the caller gives up and closes the client
	}
	res.closed = vh.Within(4*time.Second, func() { cl.Close() })
	if !finished {
		select {
		case <-done:
		case <-time.After(4 * time.Second):
			res.hung = true
		}
	}
	if !res.closed {
		res.hung = true
	}
	sc.Close()
	return res
}

func main() {
	if len(os.Args) < 3 {
		fmt.Fprintln(os.Stderr, "usage: clientfault run <out> | one <case> <out>")
		os.Exit(2)
	}
	out := vh.NewOut()
	defer out.Flush()
	fs := flag.NewFlagSet("x", flag.ExitOnError)
	stride := fs.Int("stride", 1, "")
	seed := fs.Int64("seed", 1, "")
	var cases []caseT
	outPath := os.Args[2]
	layouts := map[string][]int{}
	totals := map[string]int{}
	skipped := map[string]bool{}
	var dryFailed []string
	bounds := map[string]map[int]bool{}
	for name := range scripts {
		dry := runCase(caseT{Script: name, Cut: -1, Fault: "none"})
		bounds[name] = respBounds(dry.stream)
		if dry.hung && dry.hungAt == "" {
			// the transcript without any fault is a transcript too: calls or Close that do not return are
			// what the property forbids (the script is left out of the fault enumeration)
			out.Mismatch("hang/"+name+"/nofault", fmt.Sprintf("script %s without any fault: calls or Close did not return within 4 s (closed=%v issued=%d returned=%d)", name, dry.closed, dry.issued, len(dry.rets)), caseT{name, -1, "none", false})
			skipped[name] = true
			continue
		}
		// a script whose calls return, but with an error, although nothing was cut: termination (what C10 is about)
		// holds, so this is no verdict - but the script cannot be used for the fault enumeration.  The others go on
		// (they may well show what is wrong); the check decides what an unused script means for its result.
		bad := ""
		if dry.hung || len(dry.rets) == 0 {
			bad = fmt.Sprintf("dry run of script %s failed: %+v", name, dry)
		}
		for _, r := range dry.rets {
			if bad == "" && r["res"] != "ok" {
				bad = fmt.Sprintf("dry run of script %s: command %v failed: %v", name, r["i"], r["err"])
			}
		}
		if bad != "" {
			dryFailed = append(dryFailed, bad)
			skipped[name] = true
			continue
		}
		layouts[name], totals[name] = dry.layout, dry.total
	}
	if os.Args[1] == "one" {
		b, err := os.ReadFile(os.Args[2])
		if err != nil {
			fmt.Fprintln(os.Stderr, err)
			os.Exit(2)
		}
		var cs caseT
		json.Unmarshal(b, &cs)
		cs.Mid = !bounds[cs.Script][cs.Cut]
		cases = []caseT{cs}
		outPath = os.Args[3]
	} else {
		fs.Parse(os.Args[3:])
		rng := rand.New(rand.NewSource(*seed))
		for name := range scripts {
			if skipped[name] {
				continue
			}
			for k := 0; k <= totals[name]; k++ {
				for _, f := range []string{"eof", "readerr", "writeerr", "stall"} {
					if *stride > 1 && k%*stride != rng.Intn(*stride) && !isBoundary(layouts[name], k) {
						continue
					}
					cases = append(cases, caseT{name, k, f, !bounds[name][k]})
				}
			}
		}
	}
	f, err := os.Create(outPath)
	if err != nil {
		fmt.Fprintln(os.Stderr, err)
		os.Exit(2)
	}
	defer f.Close()
	enc := json.NewEncoder(f)
	var emu sync.Mutex
	jobs := make(chan caseT, 64)
	var wg sync.WaitGroup
	var smu sync.Mutex
	records, nontriv := 0, 0
	var samples []interface{}
	for w := 0; w < 16; w++ {
		wg.Add(1)
		go func() {
			defer wg.Done()
			for cs := range jobs {
				r := runCase(cs)
				emu.Lock()
				enc.Encode(map[string]interface{}{"ev": "Run", "script": cs.Script, "end": layouts[cs.Script], "cut": cs.Cut, "fault": cs.Fault, "mid": cs.Mid})
				for _, ret := range r.rets {
					enc.Encode(ret)
				}
				enc.Encode(map[string]interface{}{"ev": "End", "issued": r.issued, "closed": r.closed, "hung": r.hung, "self": r.self, "dead": r.dead})
				emu.Unlock()
				smu.Lock()
				records += 2 + len(r.rets)
				if len(r.rets) > 1 {
					nontriv++
				}
				if len(samples) < 3 && cs.Cut > 100 {
					samples = append(samples, map[string]interface{}{"case": cs, "returns": r.rets})
				}
				smu.Unlock()
				if cs.Fault == "stall" && cs.Mid && !r.self && !r.hung {
					out.Mismatch(fmt.Sprintf("no-timeout/%s", cs.Script), fmt.Sprintf("the connection stalled inside a response (%d octets of the reply stream received) and the client's own read timeout never fired: its calls returned only when the caller closed the client (%+v issued=%d)", cs.Cut, cs, r.issued), cs)
				}
				if r.dead == "ok" || r.dead == "hang" {
					out.Mismatch(fmt.Sprintf("after-failure/%s/%s", r.dead, cs.Script), fmt.Sprintf("a command issued after a call had reported the loss of the connection ended %q instead of failing at once (%+v)", r.dead, cs), cs)
				}
				if r.hung {
					out.Mismatch(fmt.Sprintf("hang/%s/%s", cs.Script, cs.Fault), fmt.Sprintf("calls or Close did not return within 4 s: %+v (closed=%v issued=%d returned=%d)", cs, r.closed, r.issued, len(r.rets)), cs)
				}
				for _, ret := range r.rets {
					i := ret["i"].(int)
					if ret["res"] == "ok" && i <= len(layouts[cs.Script]) && cs.Cut < layouts[cs.Script][i-1] {
						gap := layouts[cs.Script][i-1] - cs.Cut
						sig := "success-without-completion"
						if gap == 1 {
							sig = "success-before-lf" // everything but the final LF of the tagged line was received
						}
						out.Mismatch(sig, fmt.Sprintf("command %d reports success although only %d of the %d bytes up to the end of its tagged completion were received (%+v)", i, cs.Cut, layouts[cs.Script][i-1], cs), cs)
					}
				}
			}
		}()
	}
	for _, cs := range cases {
		jobs <- cs
	}
	close(jobs)
	wg.Wait()
	out.Summary(map[string]interface{}{"behaviours": len(cases), "traces": len(cases), "records": records, "steps": records, "nontrivial": nontriv, "samples": samples,
		"layouts": layouts, "dry_run_failures": dryFailed})
}

func isBoundary(layout []int, k int) bool {
	for _, e := range layout {
		if k >= e-2 && k <= e+1 {
			return true
		}
	}
	return false
}
