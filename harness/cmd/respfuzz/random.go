package main

import (
	"bufio"
	"encoding/json"
	"flag"
	"fmt"
	"math/rand"
	"os"
	"sort"
	"strings"
	"time"

	"verif/harness/vh"
)

// Random drivers (implementation -> specification direction).
//
// Token cases: several random edits (drop, duplicate, swap, replace, insert,
// splice a fragment of another line) of the conformant lines TLC printed, and
// token soups.  The driver does not know what class its lines have: it
// records context, tokens and outcome; spec/RespFuzzTrace.tla derives the
// class from the tokens and judges the outcome.
//
// Raw cases: random bytes, IMAP-flavoured byte soups and byte-level edits of
// rendered conformant lines.  They have no token form, hence no class: they
// are monitored only (panic, crash, non-return, resources).

// tokens whose delivered value is too large to enumerate (table knowledge, like the rendering)
var bigTokens = map[string]bool{"sBig": true, "sHalf": true}

var taggedKinds = map[string]bool{"tagged": true, "login": true, "copy": true, "append": true, "appendsync": true}

type traceOut struct {
	Ret      bool   `json:"ret"`
	Crash    bool   `json:"crash"`
	Panic    bool   `json:"panic"`
	AccPanic bool   `json:"accpanic"`
	Err      bool   `json:"err"`
	Status   string `json:"status"`
}

type traceRec struct {
	K string   `json:"k"`
	T []string `json:"t"`
	O traceOut `json:"o"`
	// not read by the judge: narrows signatures, helps reports
	X map[string]interface{} `json:"x"`
}

func driverAlphabet(bases []Case) []string {
	set := map[string]bool{}
	for t := range tokenBytes {
		set[t] = true
	}
	for _, b := range bases {
		for _, t := range b.Toks {
			set[t] = true
		}
	}
	for _, t := range []string{"Nlp_10", "Nlp_999", "Nlp_1001", "Crp_10", "Crp_1001", "Nmp_10", "Cmp_10", "Nmp_1001", "Cmp_1001",
		"Nmsg_10", "Cmsg_10", "Nthr_10", "Cthr_10", "Nthr_1001", "Nval_10", "Cval_10", "Nval_1001"} {
		set[t] = true
	}
	delete(set, "litBig")
	var l []string
	for t := range set {
		l = append(l, t)
	}
	sort.Strings(l)
	return l
}

func editTokens(r *rand.Rand, toks []string, alpha []string, bases []Case) []string {
	t := append([]string(nil), toks...)
	pick := func() string { return alpha[r.Intn(len(alpha))] }
	switch op := r.Intn(8); {
	case len(t) == 0 || op == 0: // insert
		i := r.Intn(len(t) + 1)
		t = append(t[:i], append([]string{pick()}, t[i:]...)...)
	case op == 1: // drop
		i := r.Intn(len(t))
		t = append(t[:i], t[i+1:]...)
	case op == 2: // duplicate
		i := r.Intn(len(t))
		t = append(t[:i+1], t[i:]...)
	case op == 3 && len(t) > 1: // swap adjacent
		i := r.Intn(len(t) - 1)
		t[i], t[i+1] = t[i+1], t[i]
	case op == 4: // replace by a token another conformant line has somewhere (often keeps the line plausible)
		o := bases[r.Intn(len(bases))].Toks
		if len(o) > 0 {
			t[r.Intn(len(t))] = o[r.Intn(len(o))]
		}
	case op == 5: // splice a fragment of another line in
		o := bases[r.Intn(len(bases))].Toks
		if len(o) > 2 {
			a := r.Intn(len(o) - 1)
			b := a + 1 + r.Intn(min(6, len(o)-a-1)+1)
			if b > len(o) {
				b = len(o)
			}
			i := r.Intn(len(t) + 1)
			t = append(t[:i], append(append([]string(nil), o[a:b]...), t[i:]...)...)
		}
	case op == 6 && r.Intn(2) == 0: // replace by a boundary-flavoured token
		t[r.Intn(len(t))] = boundaryTokens[r.Intn(len(boundaryTokens))]
	default: // replace by any token
		t[r.Intn(len(t))] = pick()
	}
	return t
}

var boundaryTokens = []string{"n0", "nM32", "nP32", "nM63", "nP63", "n20d", "sStar", "s1toStar", "s0", "sOverR", "sBig", "litNoNum",
	"litNoCRLF", "litOver", "litPlus", "Nlp_1001", "Nlp_999", "Nmp_1001", "NIL", "qEmpty", "lit0"}

func min(a, b int) int {
	if a < b {
		return a
	}
	return b
}

func tokenCases(r *rand.Rand, bases []Case, n int) []Case {
	alpha := driverAlphabet(bases)
	var kindList []string
	for k := range kinds {
		kindList = append(kindList, k)
	}
	sort.Strings(kindList)
	var out []Case
	for len(out) < n {
		var cs Case
		switch x := r.Intn(20); {
		case x < 2: // soup
			cs.Kind = kindList[r.Intn(len(kindList))]
			m := 1 + r.Intn(12)
			toks := []string{}
			if r.Intn(4) > 0 {
				toks = append(toks, "STAR", "SP")
			}
			for i := 0; i < m; i++ {
				toks = append(toks, alpha[r.Intn(len(alpha))])
				if r.Intn(2) == 0 {
					toks = append(toks, "SP")
				}
			}
			toks = append(toks, "CRLF")
			cs.Toks = toks
			cs.Mut = "soup"
		default:
			b := bases[r.Intn(len(bases))]
			cs.Kind = b.Kind
			cs.Base = b.Base
			toks := b.Toks
			edits := 0
			switch {
			case x < 4:
				edits = 0
			case x < 8:
				edits = 1
			default:
				edits = 2 + r.Intn(5)
			}
			for i := 0; i < edits; i++ {
				toks = editTokens(r, toks, alpha, bases)
			}
			cs.Toks = append([]string(nil), toks...)
			cs.Mut = fmt.Sprintf("random-edits-%d", edits)
		}
		cs.End = "ok"
		if taggedKinds[cs.Kind] {
			cs.Tg = 1
		}
		cs.Small = 1
		size := 0
		for _, t := range cs.Toks {
			if bigTokens[t] {
				cs.Small = 0
			}
			size += len(renderToken(t))
		}
		if size > 1<<20 {
			continue
		}
		cs.ID = len(out)
		out = append(out, cs)
	}
	return out
}

const imapBytes = "()[]{}<>\"\\ \r\n*+~$%.,:-0123456789"

var imapWords = []string{"NIL", "OK", "NO", "BAD", "BYE", "FETCH", "BODY", "BODYSTRUCTURE", "ENVELOPE", "UID", "FLAGS", "SEARCH", "ESEARCH",
	"LIST", "STATUS", "THREAD", "SORT", "QUOTA", "METADATA", "NAMESPACE", "CAPABILITY", "EXISTS", "EXPUNGE", "ALL", "MIN", "TAG", "T1", "T2",
	"\"a\"", "{3}\r\nabc", "{1}\r\n", "COPYUID", "APPENDUID", "MODSEQ", "BINARY", "INBOX", "\\Seen", "1:*", "4294967296", "* ", "\r\n"}

func rawCases(r *rand.Rand, bases []Case, n int) []Case {
	var kindList []string
	for k := range kinds {
		kindList = append(kindList, k)
	}
	sort.Strings(kindList)
	var out []Case
	for len(out) < n {
		var cs Case
		var b []byte
		switch x := r.Intn(10); {
		case x < 2: // uniformly random bytes
			m := 1 + r.Intn(200)
			b = make([]byte, m)
			r.Read(b)
			if r.Intn(2) == 0 {
				b = append([]byte("* "), b...)
			}
			cs.Kind = kindList[r.Intn(len(kindList))]
			cs.Mut = "raw-bytes"
		case x < 4: // IMAP-flavoured soup
			m := 1 + r.Intn(40)
			var sb strings.Builder
			if r.Intn(3) > 0 {
				sb.WriteString("* ")
			}
			for i := 0; i < m; i++ {
				if r.Intn(3) == 0 {
					sb.WriteString(imapWords[r.Intn(len(imapWords))])
				} else {
					sb.WriteByte(imapBytes[r.Intn(len(imapBytes))])
				}
			}
			sb.WriteString("\r\n")
			b = []byte(sb.String())
			cs.Kind = kindList[r.Intn(len(kindList))]
			cs.Mut = "raw-soup"
		default: // byte-level edits of a rendered conformant line
			base := bases[r.Intn(len(bases))]
			cs.Kind = base.Kind
			cs.Base = base.Base
			b = lineOf(&base)
			edits := 1 + r.Intn(3)
			for i := 0; i < edits && len(b) > 0; i++ {
				p := r.Intn(len(b))
				switch r.Intn(6) {
				case 0:
					b[p] ^= byte(1 << uint(r.Intn(8)))
				case 1:
					b = append(b[:p], b[p+1:]...)
				case 2:
					b = append(b[:p], append([]byte{byte(r.Intn(256))}, b[p:]...)...)
				case 3:
					b = append(b[:p], append([]byte{imapBytes[r.Intn(len(imapBytes))]}, b[p:]...)...)
				case 4:
					q := p + r.Intn(min(16, len(b)-p)+1)
					b = append(b[:q], append(append([]byte(nil), b[p:q]...), b[q:]...)...)
				case 5:
					b = b[:p]
				}
			}
			cs.Mut = fmt.Sprintf("byte-edits-%d", edits)
		}
		cs.Raw = append([]byte{}, b...)
		cs.End = "ok"
		if r.Intn(6) == 0 {
			cs.End = "close"
		}
		if taggedKinds[cs.Kind] {
			cs.Tg = 1
		}
		cs.Small = 0
		cs.ID = len(out)
		out = append(out, cs)
	}
	return out
}

func randomMain(args []string) {
	fs := flag.NewFlagSet("random", flag.ExitOnError)
	seed := fs.Int64("seed", 1, "seed")
	n := fs.Int("n", 3000, "token cases (recorded for the judge)")
	rawn := fs.Int("rawn", 20000, "raw cases (monitored only)")
	shards := fs.Int("shards", 16, "parallel children")
	fs.Parse(args[2:])
	out := vh.NewOut()
	defer out.Flush()
	t0 := time.Now()
	all, err := readCases(args[0])
	if err != nil {
		out.Summary(map[string]interface{}{"infra_error": err.Error()})
		return
	}
	var bases []Case
	for _, cs := range all {
		if cs.Mut == "none" {
			bases = append(bases, cs)
		}
	}
	if len(bases) == 0 {
		out.Summary(map[string]interface{}{"infra_error": "no conformant lines in " + args[0]})
		return
	}
	r := rand.New(rand.NewSource(*seed))
	tcs := tokenCases(r, bases, *n)
	rcs := rawCases(r, bases, *rawn)

	pool := newPool(*shards, 800)
	tobs, err := pool.run(tcs)
	if err != nil {
		out.Summary(map[string]interface{}{"infra_error": err.Error()})
		return
	}
	robs, err := pool.run(rcs)
	if err != nil {
		out.Summary(map[string]interface{}{"infra_error": err.Error()})
		return
	}

	// token cases: record for the judge
	fh, err := os.Create(args[1])
	if err != nil {
		out.Summary(map[string]interface{}{"infra_error": err.Error()})
		return
	}
	w := bufio.NewWriter(fh)
	outcomes := map[string]int{}
	for i := range tcs {
		cs, o := &tcs[i], tobs[i]
		status := "OK"
		if o.Err {
			status = o.ErrKind
		}
		// the narrow signatures for what the monitors saw (the judge decides whether it is a finding)
		probe := newReporter(nil)
		probe.silent = true
		probe.monitors(cs, o)
		x := map[string]interface{}{"m": cs.Mut, "tg": cs.Tg, "sm": cs.Small}
		if len(probe.counts) > 0 {
			x["sigs"] = sortedKeys(probe.counts)
			x["errtext"] = o.ErrText
			x["crashtail"] = o.CrashTail
		}
		if cs.Toks == nil {
			cs.Toks = []string{} // (edits may delete every token: an empty line, not a null for the trace judge)
		}
		rec := traceRec{K: cs.Kind, T: cs.Toks, X: x,
			O: traceOut{Ret: o.Returned || o.Crashed && o.CrashWhy != "time-limit", Crash: o.Crashed && o.CrashWhy != "time-limit",
				Panic: o.Panic, AccPanic: len(o.AccPanic) > 0, Err: o.Err, Status: status}}
		if o.Crashed && o.CrashWhy == "time-limit" {
			rec.O.Ret = false
		}
		b, _ := json.Marshal(&rec)
		w.Write(b)
		w.WriteByte('\n')
		switch {
		case o.Crashed:
			outcomes["crash"]++
		case o.Err:
			outcomes["error"]++
		default:
			outcomes["deliver"]++
		}
	}
	w.Flush()
	fh.Close()

	// raw cases: monitors only
	rep := newReporter(out)
	rawOutcomes := map[string]int{}
	for i := range rcs {
		rep.monitors(&rcs[i], robs[i])
		switch {
		case robs[i].Crashed:
			rawOutcomes["crash"]++
		case robs[i].Err:
			rawOutcomes["error"]++
		default:
			rawOutcomes["deliver"]++
		}
	}
	out.Summary(map[string]interface{}{"traces": len(tcs), "records": len(tcs), "raw": len(rcs), "behaviours": len(tcs) + len(rcs),
		"token_outcomes": outcomes, "raw_outcomes": rawOutcomes, "sig_counts": rep.counts,
		"children": pool.spawned, "child_deaths": pool.deaths, "wall_s": time.Since(t0).Seconds()})
}
