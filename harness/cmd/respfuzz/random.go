package main

func randomMain(args []string) {}
