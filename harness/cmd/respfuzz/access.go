package main

import (
	"fmt"

	"github.com/emersion/go-imap/v2"
	"github.com/emersion/go-imap/v2/imapclient"
)

// inspect looks at the fields of the returned values (no methods of go-imap
// are called): how many data items reached the caller, whether a zero
// sequence number / UID or a '*' set is among them.
func inspect(values []interface{}, co *collector) (n int, zero, dynamic bool) {
	rangesOf := func(s imap.NumSet) {
		switch s := s.(type) {
		case imap.SeqSet:
			for _, r := range s {
				n++
				if r.Stop == 0 {
					dynamic = true
				} else if r.Start == 0 {
					zero = true
				}
			}
		case imap.UIDSet:
			for _, r := range s {
				n++
				if r.Stop == 0 {
					dynamic = true
				} else if r.Start == 0 {
					zero = true
				}
			}
		}
	}
	bufs := func(l []*imapclient.FetchMessageBuffer) {
		for _, b := range l {
			if b == nil {
				continue
			}
			n++
			if b.SeqNum == 0 {
				zero = true
			}
		}
	}
	for _, v := range values {
		switch v := v.(type) {
		case *imap.SearchData:
			if v != nil {
				rangesOf(v.All)
				if v.Min != 0 || v.Max != 0 || v.Count != 0 || v.ModSeq != 0 {
					n++
				}
			}
		case []uint32:
			for _, x := range v {
				n++
				if x == 0 {
					zero = true
				}
			}
		case []imapclient.ThreadData:
			n += len(v)
		case []*imap.ListData:
			n += len(v)
		case *imap.StatusData:
			if v != nil && (v.NumMessages != nil || v.UIDNext != 0 || v.Size != nil) {
				n++
			}
		case []*imapclient.FetchMessageBuffer:
			bufs(v)
		case *imap.CopyData:
			if v != nil {
				rangesOf(v.SourceUIDs)
				rangesOf(v.DestUIDs)
			}
		case *imapclient.MoveData:
			if v != nil {
				rangesOf(v.SourceUIDs)
				rangesOf(v.DestUIDs)
			}
		case *imap.AppendData:
			if v != nil && (v.UID != 0 || v.UIDValidity != 0) {
				n++
			}
		case *imap.NamespaceData:
			if v != nil {
				n += len(v.Personal) + len(v.Other) + len(v.Shared)
			}
		case *imapclient.QuotaData:
			if v != nil {
				n += 1 + len(v.Resources)
			}
		case []imapclient.QuotaData:
			n += len(v)
		case *imapclient.GetMetadataData:
			if v != nil {
				n += len(v.Entries)
			}
		case imap.CapSet:
			n += len(v)
		case *imapclient.EnableData:
			if v != nil {
				n += len(v.Caps)
			}
		case *imap.SelectData:
			if v != nil && (v.NumMessages != 0 || len(v.Flags) > 0 || len(v.PermanentFlags) > 0 || v.UIDNext != 0 || v.UIDValidity != 0 || v.List != nil || v.HighestModSeq != 0) {
				n++
			}
		}
	}
	co.mu.Lock()
	defer co.mu.Unlock()
	for _, x := range co.expunged {
		n++
		if x == 0 {
			zero = true
		}
	}
	n += len(co.mailbox) + co.metadata
	bufs(co.fetched)
	return
}

// access invokes every accessor of every returned value inside recover and
// returns the names of those that panicked.  Enumeration accessors (Nums,
// AllSeqNums, AllUIDs) are only called when the specification says the value
// is small (or when a resource family asks for exactly that, in a child with
// a memory limit).
func access(values []interface{}, co *collector, small, enum bool) (panics []string) {
	try := func(name string, f func()) {
		defer func() {
			if v := recover(); v != nil {
				s := fmt.Sprint(v)
				if len(s) > 120 {
					s = s[:120]
				}
				panics = append(panics, name+": "+s)
			}
		}()
		f()
	}
	sink := 0
	numSet := func(owner string, s imap.NumSet) {
		if s == nil {
			return
		}
		try(owner+".String", func() { sink += len(s.String()) })
		try(owner+".Dynamic", func() { _ = s.Dynamic() })
		switch s := s.(type) {
		case imap.SeqSet:
			try(owner+".Contains", func() { _ = s.Contains(1); _ = s.Contains(0); _ = s.Contains(^uint32(0)) })
			if small || enum {
				try(owner+".Nums", func() { l, _ := s.Nums(); sink += len(l) })
			}
		case imap.UIDSet:
			try(owner+".Contains", func() { _ = s.Contains(1); _ = s.Contains(0); _ = s.Contains(^imap.UID(0)) })
			if small || enum {
				try(owner+".Nums", func() { l, _ := s.Nums(); sink += len(l) })
			}
			try(owner+".IsSearchRes", func() { _ = imap.IsSearchRes(s) })
		}
	}
	var body func(bs imap.BodyStructure, depth int)
	body = func(bs imap.BodyStructure, depth int) {
		if bs == nil {
			return
		}
		try("BodyStructure.MediaType", func() { sink += len(bs.MediaType()) })
		try("BodyStructure.Disposition", func() {
			if d := bs.Disposition(); d != nil {
				sink += len(d.Value) + len(d.Params)
			}
		})
		switch bs := bs.(type) {
		case *imap.BodyStructureSinglePart:
			try("BodyStructureSinglePart.Filename", func() { sink += len(bs.Filename()) })
			if bs.MessageRFC822 != nil {
				envelope(bs.MessageRFC822.Envelope, try, &sink)
				if depth < 4000 {
					body(bs.MessageRFC822.BodyStructure, depth+1)
				}
			}
			if bs.Text != nil {
				sink += int(bs.Text.NumLines)
			}
			if bs.Extended != nil {
				sink += len(bs.Extended.Language) + len(bs.Extended.Location)
			}
		case *imap.BodyStructureMultiPart:
			if bs.Extended != nil {
				sink += len(bs.Extended.Params) + len(bs.Extended.Language) + len(bs.Extended.Location)
			}
			if depth < 4000 {
				for _, ch := range bs.Children {
					body(ch, depth+1)
				}
			}
		}
	}
	buffer := func(b *imapclient.FetchMessageBuffer) {
		if b == nil {
			return
		}
		envelope(b.Envelope, try, &sink)
		if b.BodyStructure != nil {
			if small {
				try("BodyStructure.Walk", func() {
					b.BodyStructure.Walk(func(path []int, part imap.BodyStructure) bool {
						sink += len(path)
						if part != nil {
							sink += len(part.MediaType())
						}
						return true
					})
				})
				body(b.BodyStructure, 0)
			}
		}
		for k, v := range b.BodySection {
			if k != nil {
				sink += len(k.Part) + len(k.HeaderFields)
			}
			sink += len(v)
		}
		for k, v := range b.BinarySection {
			if k != nil {
				sink += len(k.Part)
			}
			sink += len(v)
		}
		sink += len(b.BinarySectionSize)
		for _, f := range b.Flags {
			sink += len(f)
		}
	}
	var thread func(t *imapclient.ThreadData, depth int)
	thread = func(t *imapclient.ThreadData, depth int) {
		sink += len(t.Chain)
		if depth > 4000 {
			return
		}
		for i := range t.SubThreads {
			thread(&t.SubThreads[i], depth+1)
		}
	}

	for _, v := range values {
		switch v := v.(type) {
		case *imap.SearchData:
			if v == nil {
				continue
			}
			numSet("SearchData.All", v.All)
			if small || enum {
				try("SearchData.AllSeqNums", func() { sink += len(v.AllSeqNums()) })
				try("SearchData.AllUIDs", func() { sink += len(v.AllUIDs()) })
			}
		case []imapclient.ThreadData:
			for i := range v {
				thread(&v[i], 0)
			}
		case []*imap.ListData:
			for _, d := range v {
				if d == nil {
					continue
				}
				sink += len(d.Mailbox) + len(d.Attrs) + int(d.Delim) + len(d.OldName)
				if d.Status != nil && d.Status.NumMessages != nil {
					sink += int(*d.Status.NumMessages)
				}
			}
		case *imap.StatusData:
			if v != nil {
				for _, p := range []*uint32{v.NumMessages, v.NumUnseen, v.NumDeleted, v.AppendLimit} {
					if p != nil {
						sink += int(*p)
					}
				}
			}
		case []*imapclient.FetchMessageBuffer:
			for _, b := range v {
				buffer(b)
			}
		case *imap.CopyData:
			if v != nil {
				numSet("CopyData.SourceUIDs", v.SourceUIDs)
				numSet("CopyData.DestUIDs", v.DestUIDs)
			}
		case *imapclient.MoveData:
			if v != nil {
				numSet("MoveData.SourceUIDs", v.SourceUIDs)
				numSet("MoveData.DestUIDs", v.DestUIDs)
			}
		case *imapclient.QuotaData:
			if v != nil {
				for k, r := range v.Resources {
					sink += len(k) + int(r.Usage) + int(r.Limit)
				}
			}
		case *imapclient.GetMetadataData:
			if v != nil {
				for k, e := range v.Entries {
					sink += len(k)
					if e != nil {
						sink += len(*e)
					}
				}
			}
		case imap.CapSet:
			try("CapSet.Has", func() { _ = v.Has(imap.CapIMAP4rev2); _ = v.Has(imap.CapIdle) })
			try("CapSet.AuthMechanisms", func() { sink += len(v.AuthMechanisms()) })
			try("CapSet.AppendLimit", func() { _, _ = v.AppendLimit() })
			try("CapSet.QuotaResourceTypes", func() { sink += len(v.QuotaResourceTypes()) })
			try("CapSet.ThreadAlgorithms", func() { sink += len(v.ThreadAlgorithms()) })
		case *imap.NamespaceData:
			if v != nil {
				for _, l := range [][]imap.NamespaceDescriptor{v.Personal, v.Other, v.Shared} {
					for _, d := range l {
						sink += len(d.Prefix) + int(d.Delim)
					}
				}
			}
		case *imap.SelectData:
			if v != nil && v.List != nil {
				sink += len(v.List.Mailbox)
			}
		}
	}
	co.mu.Lock()
	fetched := append([]*imapclient.FetchMessageBuffer(nil), co.fetched...)
	co.mu.Unlock()
	for _, b := range fetched {
		buffer(b)
	}
	_ = sink
	return
}

func envelope(e *imap.Envelope, try func(string, func()), sink *int) {
	if e == nil {
		return
	}
	*sink += len(e.Subject) + len(e.MessageID) + len(e.InReplyTo)
	for _, l := range [][]imap.Address{e.From, e.Sender, e.ReplyTo, e.To, e.Cc, e.Bcc} {
		for i := range l {
			a := &l[i]
			try("Address.Addr", func() { *sink += len(a.Addr()) })
			try("Address.IsGroupStart", func() { _ = a.IsGroupStart() })
			try("Address.IsGroupEnd", func() { _ = a.IsGroupEnd() })
		}
	}
}
