package main

import (
	"strconv"
	"strings"
)

// Token alphabet of spec/RespFuzz.tla -> bytes on the wire.
//
// A token that is not in the table and has no parametrised prefix renders as
// its own name (all keywords, atoms and capability names are spelled like
// that in the spec: "FETCH", "RFC822.SIZE", "IMAP4rev1", ...).  The table is
// the only knowledge the harness has about the tokens; it knows nothing about
// the grammar or about which lines are conformant.

const curTag = "\x00TAG\x00" // replaced by the tag of the pending command

var tokenBytes = map[string]string{
	// structure
	"STAR": "*", "PLUS": "+", "SP": " ", "CRLF": "\r\n", "LP": "(", "RP": ")", "LB": "[", "RB": "]",
	"LT": "<", "GT": ">", "DOT": ".", "TILDE": "~", "DOLLAR": "$", "BSL": "\\", "PCT": "%", "DQ": "\"",
	"LBRACE": "{", "RBRACE": "}", "NUL": "\x00", "HI": "\xff", "LF": "\n", "CR": "\r", "COLON": ":", "COMMA": ",",
	"CTAG": curTag, "qTAG": "\"" + curTag + "\"",
	"TXT": "done", "TXT2": "two words [x] (y)",
	// numbers (boundary numbers are distinct tokens)
	"n0": "0", "n1": "1", "n2": "2", "n3": "3", "n7": "7", "n9": "9", "n42": "42", "n100": "100",
	"nM32": "4294967295", "nP32": "4294967296", "nM63": "9223372036854775807",
	"nP63": "9223372036854775808", "n20d": "99999999999999999999", "nNeg1": "-1", "nLead0": "007",
	// number sets in results
	"s1": "1", "s1to3": "1:3", "s1c5to7": "1,5:7", "sRev": "3:1", "sMax": "4294967295",
	"sBig": "1:4294967295", "sHalf": "1:1000000",
	"sStar": "*", "s1toStar": "1:*", "sStarTo1": "*:1", "s1cStar": "1,*",
	"s0": "0", "s0to3": "0:3", "s1to0": "1:0", "s1c0": "1,0",
	"sOver": "4294967296", "sOverR": "1:4294967296", "sColon": "1:", "sCommas": "1,,2", "s20d": "99999999999999999999",
	// flags, mailbox attributes
	"fSeen": "\\Seen", "fAnswered": "\\Answered", "fDeleted": "\\Deleted", "fFlagged": "\\Flagged", "fDraft": "\\Draft",
	"fRecent": "\\Recent", "fX": "\\XCustom", "fStar": "\\*", "kwA": "kw1", "kwFwd": "$Forwarded",
	"fNoselect": "\\Noselect", "fHasChildren": "\\HasChildren", "fHasNoChildren": "\\HasNoChildren",
	"fSubscribed": "\\Subscribed", "fNonExistent": "\\NonExistent", "fSent": "\\Sent",
	// atoms
	"aBox": "box", "litInbox": "{5}\r\nINBOX", "aEntry": "/shared/comment", "aRoot": "root", "aFrom": "From", "aTo": "To", "aX": "X-EXT",
	"aAuthPlain": "AUTH=PLAIN",
	// quoted strings
	"qEmpty": `""`, "qA": `"a"`, "qB": `"b"`, "qSlash": `"/"`, "qDotS": `"."`, "qInbox": `"INBOX"`, "qBox": `"box"`,
	"qEsc": `"a\"b\\c"`, "qUtf8": "\"\xc3\xa9\"", "qLong": `"` + strings.Repeat("x", 300) + `"`,
	"qTEXT": `"TEXT"`, "qPLAIN": `"PLAIN"`, "qMESSAGE": `"MESSAGE"`, "qRFC822": `"RFC822"`, "qMIXED": `"MIXED"`,
	"qAPPLICATION": `"APPLICATION"`, "qOCTET": `"OCTET-STREAM"`, "q7BIT": `"7BIT"`, "qBASE64": `"BASE64"`,
	"qDate": `"17-Jul-1996 02:44:25 -0700"`, "qEnvDate": `"Wed, 17 Jul 1996 02:23:25 -0700 (PDT)"`,
	"qCHARSET": `"CHARSET"`, "qUSASCII": `"US-ASCII"`, "qATTACHMENT": `"ATTACHMENT"`, "qFILENAME": `"FILENAME"`,
	"qFn": `"a.txt"`, "qEN": `"EN"`, "qDE": `"DE"`, "qMsgid": `"<a@example.org>"`, "qEnc": `"=?utf-8?q?caf=C3=A9?="`,
	"qName": `"Terry Gray"`, "qUser": `"gray"`, "qHost": `"example.org"`, "qLoc": `"http://example.org/a"`,
	"qMd5": `"d41d8cd98f00b204e9800998ecf8427e"`, "qId": `"<id@example.org>"`, "qDesc": `"description"`,
	"qCHILDINFO": `"CHILDINFO"`, "qSUBSCRIBED": `"SUBSCRIBED"`, "qOLDNAME": `"OLDNAME"`, "qXEXT": `"X-EXT"`,
	"qEntry": `"/shared/comment"`, "qEntry2": `"/private/comment"`, "qTilde": `"~"`, "qShared": `"#shared/"`,
	"qUtf7": `"&AOk-"`, "qBadUtf7": `"&AOk"`, "qSubj": `"IMAP4rev2 WG mtg summary"`,
	// literals
	"lit0": "{0}\r\n", "lit3": "{3}\r\nabc", "litCRLF": "{2}\r\n\r\n", "litBig": "{5000}\r\n" + strings.Repeat("y", 5000),
	"litHdr": "{18}\r\nSubject: hello\r\n\r\n", "litShort": "{100}\r\nabc",
	// well-formed headers announcing far more than the stream holds (largest int64; 2^62)
	"litMax": "{9223372036854775807}\r\nabc", "litHuge": "{4611686018427387904}\r\nabc",
	// malformed literals
	"litNoNum": "{}\r\n", "litNoCRLF": "{3}abc", "litOver": "{9223372036854775808}\r\nabc", "litNeg": "{-1}\r\n",
	"litPlus": "{3+}\r\nabc", "litUnclosed": "{3\r\nabc", "litAlpha": "{x}\r\nabc",
}

// parametrised tokens: <family>_<d> renders unit^d
var nestUnits = map[string]string{
	"Nlp":  "(", // raw opening parentheses
	"Crp":  ")", // raw closing parentheses
	"Nmp":  "(", // multipart bodies, closed by Cmp
	"Cmp":  ` "MIXED")`,
	"Nmsg": `("MESSAGE" "RFC822" NIL NIL NIL "7BIT" 1 (NIL NIL NIL NIL NIL NIL NIL NIL NIL NIL) `, // message/rfc822 bodies
	"Cmsg": " 1)",
	"Nthr": "(1 (2)", // thread-list with one member, one leaf child and a further nested child
	"Cthr": ")",
	"Nval": `("a" `, // tagged-ext-comp / body-extension: nested value lists
	"Cval": ")",
}

func renderToken(t string) string {
	if s, ok := tokenBytes[t]; ok {
		return s
	}
	if i := strings.LastIndexByte(t, '_'); i > 0 {
		if unit, ok := nestUnits[t[:i]]; ok {
			if d, err := strconv.Atoi(t[i+1:]); err == nil && d >= 0 {
				return strings.Repeat(unit, d)
			}
		}
	}
	return t
}

func render(toks []string, tag string) []byte {
	var sb strings.Builder
	for _, t := range toks {
		sb.WriteString(renderToken(t))
	}
	return []byte(strings.ReplaceAll(sb.String(), curTag, tag))
}

// preview of an input for reports: long runs are abbreviated
func preview(b []byte) string {
	s := strconv.Quote(string(b))
	if len(s) > 400 {
		return s[:200] + " ...(" + strconv.Itoa(len(b)) + " bytes)... " + s[len(s)-120:]
	}
	return s
}
