package main

import (
	"flag"
	"fmt"
	"sort"
	"strconv"
	"strings"
	"time"

	"verif/harness/vh"
)

// Resource monitor: allocated bytes and wall time per input, regressed
// against input length over families of inputs whose size grows by a factor
// of 4 from member to member.  Super-linear growth is flagged only when the
// cost grows more than 64x where the input grows at most 4x (coarse on
// purpose: quadratic behaviour, 16x, is not flagged), and only above a noise
// floor.  Every member runs in a child process of its own.

const (
	boundedRSS  = 512 << 20
	allocFloor  = 256 << 10 // bytes: a fresh client plus scripted exchange stays below
	nanosFloor  = 250 * 1e6 // 250 ms
	growthLimit = 64.0      // where the input grows at most 4x
	// allocation counts are deterministic (runtime.MemStats.TotalAlloc), so a second, tighter rule is
	// safe for them: more than 128x where the input grows at most 16x (quadratic gives 256x, n log n ~21x)
	growthLimit16 = 128.0
)

type family struct {
	name string
	kind string
	acc  string
	gen  func(d int) string
	ds   []int
}

var depths = []int{1000, 4000, 16000, 64000}
var shallow = []int{250, 1000, 4000} // families whose cost is quadratic on the current tree: kept small
var sizes = []int{1000, 4000, 16000, 64000, 256000, 1024000}
var announced = []int{1 << 12, 1 << 16, 1 << 20, 1 << 24, 1 << 28}

func rep(s string, n int) string { return strings.Repeat(s, n) }

func numbers(n int, desc bool) string {
	var sb strings.Builder
	for i := 0; i < n; i++ {
		v := 2*i + 1
		if desc {
			v = 2*(n-i) + 1
		}
		sb.WriteByte(' ')
		sb.WriteString(strconv.Itoa(v))
	}
	return sb.String()
}

const onePart = `("TEXT" "PLAIN" NIL NIL NIL "7BIT" 1 1)`
const nilEnv = `(NIL NIL NIL NIL NIL NIL NIL NIL NIL NIL)`

var families = []family{
	{"bodystructure-open", "fetch", "", func(d int) string { return "* 1 FETCH (BODYSTRUCTURE " + rep("(", d) + "\r\n" }, shallow},
	{"bodystructure-multipart", "fetch", "", func(d int) string {
		return "* 1 FETCH (BODYSTRUCTURE " + rep("(", d) + onePart + rep(` "MIXED")`, d) + ")\r\n"
	}, depths},
	{"bodystructure-walk", "fetch", "walk", func(d int) string {
		return "* 1 FETCH (BODYSTRUCTURE " + rep("(", d) + onePart + rep(` "MIXED")`, d) + ")\r\n"
	}, shallow},
	{"bodystructure-rfc822", "fetch", "", func(d int) string {
		return "* 1 FETCH (BODYSTRUCTURE " + rep(`("MESSAGE" "RFC822" NIL NIL NIL "7BIT" 1 `+nilEnv+" ", d) + onePart + rep(" 1)", d) + ")\r\n"
	}, []int{1000, 4000, 16000}},
	{"bodystructure-ext-open", "fetch", "", func(d int) string {
		return `* 1 FETCH (BODYSTRUCTURE ("TEXT" "PLAIN" NIL NIL NIL "7BIT" 1 1 NIL NIL NIL NIL ` + rep("(", d) + "\r\n"
	}, depths},
	{"thread-open", "thread", "", func(d int) string { return "* THREAD " + rep("(", d) + "\r\n" }, depths},
	{"thread-nested", "thread", "", func(d int) string { return "* THREAD " + rep("(1 (2)", d) + "(3)" + rep(")", d) + "\r\n" }, depths},
	{"flags-open", "unsol", "", func(d int) string { return "* FLAGS " + rep("(", d) + "\r\n" }, depths},
	{"list-ext-open", "list", "", func(d int) string { return `* LIST () "/" box ("X" ` + rep("(", d) + "\r\n" }, depths},
	{"esearch-ext-open", "esearch", "", func(d int) string { return `* ESEARCH (TAG "T1") X ` + rep("(", d) + "\r\n" }, depths},
	{"envelope-open", "fetch", "", func(d int) string { return "* 1 FETCH (ENVELOPE " + rep("(", d) + "\r\n" }, depths},
	{"namespace-open", "namespace", "", func(d int) string { return "* NAMESPACE " + rep("(", d) + "\r\n" }, depths},
	{"search-ascending", "search", "", func(n int) string { return "* SEARCH" + numbers(n, false) + "\r\n" }, []int{1000, 4000, 16000, 64000}},
	{"search-descending", "search", "", func(n int) string { return "* SEARCH" + numbers(n, true) + "\r\n" }, []int{1000, 4000, 16000, 64000}},
	{"sort-n", "sort", "", func(n int) string { return "* SORT" + numbers(n, true) + "\r\n" }, []int{1000, 4000, 16000, 64000}},
	{"fetch-literal", "fetch", "", func(n int) string { return "* 1 FETCH (BODY[] {" + strconv.Itoa(n) + "}\r\n" + rep("x", n) + ")\r\n" }, sizes},
	{"flags-n", "unsol", "", func(n int) string { return "* FLAGS (" + strings.TrimSpace(rep("kw ", n)) + ")\r\n" }, []int{1000, 4000, 16000, 64000}},
	{"capability-n", "capability", "", func(n int) string { return "* CAPABILITY" + rep(" X", n) + "\r\n" }, []int{1000, 4000, 16000, 64000}},
	{"quoted-n", "fetch", "", func(n int) string {
		return `* 1 FETCH (ENVELOPE (NIL "` + rep("s", n) + `" NIL NIL NIL NIL NIL NIL NIL NIL))` + "\r\n"
	}, sizes},
	// literals: the input grows by a digit or two while the ANNOUNCED size grows 16x (the octets never arrive)
	{"literal-announce-list", "list", "", func(n int) string { return `* LIST () "/" {` + strconv.Itoa(n) + "}\r\nabc" }, announced},
	{"literal-announce-envelope", "fetch", "", func(n int) string { return "* 1 FETCH (ENVELOPE (NIL {" + strconv.Itoa(n) + "}\r\nabc" }, announced},
	{"literal-announce-body", "fetch", "", func(n int) string { return "* 1 FETCH (BODY[] {" + strconv.Itoa(n) + "}\r\nabc" }, announced},
	{"literal-announce-status", "status", "", func(n int) string { return "* STATUS {" + strconv.Itoa(n) + "}\r\nabc" }, announced},
	// sets: the input grows by one digit while the range grows 4x
	{"esearch-range", "uidesearch", "enum", func(n int) string { return `* ESEARCH (TAG "T1") UID ALL 1:` + strconv.Itoa(n) + "\r\n" }, sizes},
	{"esearch-range-noenum", "uidesearch", "", func(n int) string { return `* ESEARCH (TAG "T1") UID ALL 1:` + strconv.Itoa(n) + "\r\n" }, sizes},
	{"copyuid-range", "copy", "enum", func(n int) string {
		return "T2 OK [COPYUID 1 1:" + strconv.Itoa(n) + " 1:" + strconv.Itoa(n) + "] done\r\n"
	}, sizes},
}

func resourceCases() []Case {
	var cases []Case
	for _, f := range families {
		for _, d := range f.ds {
			cs := Case{ID: len(cases), Kind: f.kind, Raw: []byte(f.gen(d)), Acc: f.acc, Fam: f.name, D: d, End: "ok", Small: 1}
			if f.kind == "copy" {
				cs.Tg = 1
			}
			if f.acc == "" && (strings.Contains(f.name, "range") || strings.HasPrefix(f.name, "bodystructure-")) {
				cs.Small = 0 // parse cost only: no enumeration, no Walk
			}
			if f.acc == "walk" {
				cs.Acc = ""
			}
			cases = append(cases, cs)
		}
	}
	// the boundary member of the range families runs under a memory limit and is
	// not meant to complete: the full allocation (16 GiB and more) is never attempted
	cases = append(cases,
		Case{ID: len(cases), Kind: "uidesearch", Raw: []byte("* ESEARCH (TAG \"T1\") UID ALL 1:4294967295\r\n"), Acc: "enum", Fam: "esearch-range-max", D: 4294967295, End: "ok", Small: 1},
	)
	// recursion probe: '('^(2^20) where a body structure is expected, with the stack limit of the children
	cases = append(cases,
		Case{ID: len(cases), Kind: "fetch", Raw: []byte("* 1 FETCH (BODYSTRUCTURE " + rep("(", 1<<20) + "\r\n"), Fam: "bodystructure-open-deep", D: 1 << 20, End: "ok", Small: 0},
		Case{ID: len(cases), Kind: "thread", Raw: []byte("* THREAD " + rep("(", 1<<20) + "\r\n"), Fam: "thread-open-deep", D: 1 << 20, End: "ok", Small: 0},
		Case{ID: len(cases), Kind: "list", Raw: []byte(`* LIST () "/" box ("X" ` + rep("(", 1<<20) + "\r\n"), Fam: "list-ext-open-deep", D: 1 << 20, End: "ok", Small: 0},
	)
	cases = append(cases,
		Case{ID: len(cases), Kind: "copy", Raw: []byte("T2 OK [COPYUID 1 1:4294967295 1:4294967295] done\r\n"), Acc: "enum", Fam: "copyuid-range-max", D: 4294967295, End: "ok", Tg: 1, Small: 1},
	)
	return cases
}

func famSig(fam string) string {
	switch {
	case strings.HasPrefix(fam, "esearch-range"):
		return "esearch-all-range"
	case strings.HasPrefix(fam, "copyuid-range"):
		return "copyuid-range"
	}
	return fam
}

// the bounded members: judged on their own
func resourceOne(rep *reporter, cs *Case, o *Obs) {
	if strings.HasSuffix(cs.Fam, "-max") {
		if o.Crashed && o.CrashWhy == "memory-limit" {
			rep.mismatch("superlinear-memory/"+famSig(cs.Fam),
				fmt.Sprintf("context=%s input=%s (%d bytes): calling the enumeration accessors (%s) on the delivered set exceeded the %d MiB memory limit of the bounded child (the full allocation of 2^32-1 numbers was not attempted); expected: memory linear in the size of the input, or an error instead of delivery",
					cs.Kind, preview(cs.Raw), len(cs.Raw), accName(cs.Kind), boundedRSS>>20), cs)
			return
		}
	}
	rep.monitors(cs, o)
}

func accName(kind string) string {
	if kind == "copy" {
		return "CopyData.SourceUIDs.Nums / DestUIDs.Nums"
	}
	return "SearchData.AllUIDs / All.Nums"
}

type point struct {
	d     int
	len   int
	alloc uint64
	nanos int64
	obs   *Obs
	cs    *Case
}

func resourceMain(args []string) {
	fs := flag.NewFlagSet("resource", flag.ExitOnError)
	shards := fs.Int("shards", 8, "parallel children")
	fs.Parse(args)
	out := vh.NewOut()
	defer out.Flush()
	t0 := time.Now()
	cases := resourceCases()
	var normal, bounded []Case
	for _, cs := range cases {
		if strings.HasSuffix(cs.Fam, "-max") || strings.HasSuffix(cs.Fam, "-deep") {
			cs.ID = len(bounded)
			bounded = append(bounded, cs)
		} else {
			cs.ID = len(normal)
			normal = append(normal, cs)
		}
	}
	pool := newPool(*shards, 1)
	pool.rss = 4 << 30
	pool.limit = 60 * time.Second
	obs, err := pool.run(normal)
	if err != nil {
		out.Summary(map[string]interface{}{"infra_error": err.Error()})
		return
	}
	bp := newPool(4, 1)
	bp.rss = boundedRSS
	bp.limit = 60 * time.Second
	bobs, err := bp.run(bounded)
	if err != nil {
		out.Summary(map[string]interface{}{"infra_error": err.Error()})
		return
	}
	rep := newReporter(out)
	byFam := map[string][]point{}
	var order []string
	for i := range normal {
		cs, o := &normal[i], obs[i]
		if _, ok := byFam[cs.Fam]; !ok {
			order = append(order, cs.Fam)
		}
		if o.Crashed {
			rep.monitors(cs, o)
			continue
		}
		rep.monitors(cs, o)
		byFam[cs.Fam] = append(byFam[cs.Fam], point{cs.D, o.Len, o.Alloc, o.Nanos, o, cs})
	}
	table := map[string]interface{}{}
	for _, fam := range order {
		pts := byFam[fam]
		sort.Slice(pts, func(i, j int) bool { return pts[i].d < pts[j].d })
		var rows []string
		for _, p := range pts {
			rows = append(rows, fmt.Sprintf("d=%d len=%d alloc=%d ms=%.1f", p.d, p.len, p.alloc, float64(p.nanos)/1e6))
		}
		table[fam] = rows
		for i := 0; i < len(pts); i++ {
			for j := i + 1; j < len(pts); j++ {
				a, b := pts[i], pts[j]
				baseA := float64(a.alloc)
				if baseA < allocFloor {
					baseA = allocFloor
				}
				if b.len > 16*a.len+64 {
					continue
				}
				if b.len <= 4*a.len+64 && float64(b.alloc) > growthLimit*baseA {
					rep.mismatch("superlinear-memory/"+famSig(fam),
						fmt.Sprintf("family %s (context=%s): input %s (%d bytes) allocated %d bytes, input %s (%d bytes) allocated %d bytes: the input grew %.2fx, the allocation %.0fx (limit %.0fx; floor %d bytes)%s",
							fam, a.cs.Kind, preview(a.cs.Raw), a.len, a.alloc, preview(b.cs.Raw), b.len, b.alloc,
							float64(b.len)/float64(a.len), float64(b.alloc)/baseA, growthLimit, allocFloor, accNote(b.cs)), b.cs)
					i, j = len(pts), len(pts)
					break
				}
				if b.len <= 16*a.len+64 && float64(b.alloc) > growthLimit16*baseA {
					rep.mismatch("superlinear-memory/"+famSig(fam),
						fmt.Sprintf("family %s (context=%s): input %s (%d bytes) allocated %d bytes, input %s (%d bytes) allocated %d bytes: the input grew %.2fx, the allocation %.0fx (limit %.0fx for at most 16x input; floor %d bytes)%s",
							fam, a.cs.Kind, preview(a.cs.Raw), a.len, a.alloc, preview(b.cs.Raw), b.len, b.alloc,
							float64(b.len)/float64(a.len), float64(b.alloc)/baseA, growthLimit16, allocFloor, accNote(b.cs)), b.cs)
					i, j = len(pts), len(pts)
					break
				}
				baseT := float64(a.nanos)
				if baseT < nanosFloor {
					baseT = nanosFloor
				}
				if b.len <= 4*a.len+64 && float64(b.nanos) > growthLimit*baseT {
					rep.mismatch("superlinear-time/"+famSig(fam),
						fmt.Sprintf("family %s (context=%s): input of %d bytes took %.1f ms, input of %d bytes took %.1f ms: the input grew %.2fx, the time %.0fx (limit %.0fx; floor %.0f ms)%s",
							fam, a.cs.Kind, a.len, float64(a.nanos)/1e6, b.len, float64(b.nanos)/1e6,
							float64(b.len)/float64(a.len), float64(b.nanos)/baseT, growthLimit, nanosFloor/1e6, accNote(b.cs)), b.cs)
					i, j = len(pts), len(pts)
					break
				}
			}
		}
	}
	for i := range bounded {
		resourceOne(rep, &bounded[i], bobs[i])
		table[bounded[i].Fam] = fmt.Sprintf("len=%d crashed=%v why=%s phase=%s", len(bounded[i].Raw), bobs[i].Crashed, bobs[i].CrashWhy, bobs[i].CrashIn)
	}
	out.Summary(map[string]interface{}{"behaviours": len(cases), "steps": len(cases), "nontrivial": len(cases),
		"families": len(families) + 2, "table": table, "sig_counts": rep.counts, "wall_s": time.Since(t0).Seconds()})
}

func accNote(cs *Case) string {
	if cs.Acc == "enum" {
		return "; cost includes the enumeration accessors (" + accName(cs.Kind) + ") on the delivered value"
	}
	return ""
}
