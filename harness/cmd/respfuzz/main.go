// Command respfuzz binds spec/RespFuzz.tla to go-imap's client (property C11):
// no byte sequence sent by a server makes imapclient panic, recurse without
// bound or consume super-linear resources, and data that violates protocol
// invariants is reported as an error instead of being delivered.
//
//	respfuzz replay <tlc-output>                  run every TLC-generated line (tokens + class) against a real
//	                                              client and compare with the class the specification assigns
//	respfuzz random <tlc-output> <out.ndjson>     seeded random drivers: multi-token edits of the generated
//	                                              conformant lines and token soups (recorded for RespFuzzTrace,
//	                                              which derives the class from the tokens), raw random bytes and
//	                                              byte-level edits (monitored only)
//	respfuzz resource                             allocation / wall time against input length over families
//	respfuzz one <case.json>                      one case (replay files)
//	respfuzz child <cases.ndjson>                 (internal) runs cases in this process; the parent turns
//	                                              "child died on input k" into an observation
//
// A scripted server (in-memory connection, vh.NewConnPair) sends a greeting,
// waits for the command the context needs (issued through the real client
// API), writes the line, completes the command (or ends the stream).  The
// harness has no oracle: it renders tokens to bytes (render.go), observes
// (run.go, access.go) and compares with what TLC printed.
package main

import (
	"bufio"
	"encoding/json"
	"flag"
	"fmt"
	"os"
	"runtime"
	"runtime/debug"
	"sort"
	"strings"
	"time"

	"verif/harness/vh"
)

const (
	maxStack     = 64 << 20
	caseLimit    = 3 * time.Second
	defaultRSS   = 1 << 30
	exitTime     = 97
	exitMemory   = 98
	chunkDefault = 250
)

func main() {
	if len(os.Args) < 2 {
		fmt.Fprintln(os.Stderr, "usage: respfuzz replay|random|resource|one|child ...")
		os.Exit(2)
	}
	switch os.Args[1] {
	case "child":
		childMain(os.Args[2:])
	case "replay":
		replayMain(os.Args[2:])
	case "random":
		randomMain(os.Args[2:])
	case "resource":
		resourceMain(os.Args[2:])
	case "one":
		oneMain(os.Args[2:])
	default:
		fmt.Fprintln(os.Stderr, "unknown mode", os.Args[1])
		os.Exit(2)
	}
}

// ------------------------------------------------------------------ child

func rssBytes() int64 {
	b, err := os.ReadFile("/proc/self/statm")
	if err != nil {
		return 0
	}
	var size, rss int64
	fmt.Sscanf(string(b), "%d %d", &size, &rss)
	return rss * int64(os.Getpagesize())
}

func childMain(args []string) {
	fs := flag.NewFlagSet("child", flag.ExitOnError)
	rss := fs.Int64("rss", defaultRSS, "resident set limit in bytes")
	limit := fs.Duration("limit", caseLimit, "wall limit per case")
	stack := fs.Int("stack", maxStack, "max goroutine stack in bytes")
	fs.Parse(args[1:])
	debug.SetMaxStack(*stack)
	go func() {
		for {
			time.Sleep(5 * time.Millisecond)
			if r := rssBytes(); r > *rss {
				fmt.Fprintf(os.Stderr, "\nRESPFUZZ-MEMLIMIT rss=%d limit=%d\n", r, *rss)
				os.Exit(exitMemory)
			}
		}
	}()
	fh, err := os.Open(args[0])
	if err != nil {
		fmt.Fprintln(os.Stderr, err)
		os.Exit(2)
	}
	sc := bufio.NewScanner(fh)
	sc.Buffer(make([]byte, 1<<20), 1<<28)
	w := bufio.NewWriterSize(os.Stdout, 1<<16)
	emit := func(tag string, v interface{}) {
		b, _ := json.Marshal(v)
		w.WriteString(tag)
		w.WriteByte(' ')
		w.Write(b)
		w.WriteByte('\n')
		w.Flush()
	}
	for sc.Scan() {
		var cs Case
		if err := json.Unmarshal(sc.Bytes(), &cs); err != nil {
			fmt.Fprintln(os.Stderr, "bad case:", err)
			os.Exit(2)
		}
		emit("B", cs.ID)
		obs := runCase(&cs, *limit, func(o *Obs) { emit("P", o) })
		emit("A", obs)
		if !obs.Returned || !obs.AccDone {
			// goroutines of the stuck case are still around: start afresh
			fmt.Fprintf(os.Stderr, "\nRESPFUZZ-TIMELIMIT id=%d\n", cs.ID)
			os.Exit(exitTime)
		}
	}
	os.Exit(0)
}

// ------------------------------------------------------------------ reading TLC output

func readCases(path string) ([]Case, error) {
	var cases []Case
	err := vh.ReadTLines(path, func(p []byte) error {
		var cs Case
		if err := json.Unmarshal(p, &cs); err != nil {
			return fmt.Errorf("bad T line: %v: %.200s", err, p)
		}
		cs.ID = len(cases)
		cases = append(cases, cs)
		return nil
	})
	return cases, err
}

// ------------------------------------------------------------------ verdicts (spec -> impl)

type reporter struct {
	out     *vh.Out
	counts  map[string]int
	samples map[string]string
	perSig  int
	silent  bool // only count signatures (random token cases: the judge decides)
}

func newReporter(out *vh.Out) *reporter {
	return &reporter{out: out, counts: map[string]int{}, samples: map[string]string{}, perSig: 4}
}

func (r *reporter) mismatch(sig, detail string, replay interface{}) {
	r.counts[sig]++
	if r.counts[sig] <= r.perSig && !r.silent && r.out != nil {
		r.out.Mismatch(sig, detail, replay)
	}
}

func sanitize(s string) string {
	var sb strings.Builder
	for _, ch := range s {
		switch {
		case ch >= 'a' && ch <= 'z', ch >= 'A' && ch <= 'Z', ch >= '0' && ch <= '9', ch == '.', ch == '-', ch == '_':
			sb.WriteRune(ch)
		case ch == '(' || ch == ')' || ch == '*':
		default:
			sb.WriteByte('-')
		}
	}
	return sb.String()
}

// area of the code a recursion / panic happened in (narrow, stable names)
func area(fn string) string {
	switch {
	case strings.Contains(fn, "FetchItemDataBodySection).discard") || strings.Contains(fn, "FetchItemDataBinarySection).discard") ||
		strings.Contains(fn, "FetchItemDataBodySection.discard") || strings.Contains(fn, "FetchItemDataBinarySection.discard"):
		return "fetch-section-nil-literal"
	case strings.Contains(fn, "readBody"):
		return "bodystructure"
	case strings.Contains(fn, "BodyStructureMultiPart).walk") || strings.Contains(fn, "BodyStructureMultiPart).Walk"):
		return "bodystructure-walk"
	case strings.Contains(fn, "readThreadList"):
		return "thread"
	case strings.Contains(fn, "DiscardValue"):
		return "discardvalue"
	case fn == "" || fn == "unknown":
		return "unknown"
	}
	return sanitize(fn)
}

func describe(cs *Case, line []byte) string {
	s := fmt.Sprintf("context=%s input=%s", cs.Kind, preview(line))
	if cs.Base != "" {
		s += fmt.Sprintf(" (base %s, mutation %s)", cs.Base, cs.Mut)
	}
	return s
}

func lineOf(cs *Case) []byte {
	if cs.Raw != nil {
		return cs.Raw
	}
	tag := "T1"
	if kinds[cs.Kind].sel || kinds[cs.Kind].unauth {
		tag = "T2"
	}
	return render(cs.Toks, tag)
}

// which response the violated invariant sits in: the first response or response-code name of the
// line (signatures name the response, not the pending command: the parser is the same)
var respNames = map[string]bool{"APPENDUID": true, "COPYUID": true, "FETCH": true, "EXPUNGE": true, "EXISTS": true, "RECENT": true,
	"SEARCH": true, "ESEARCH": true, "SORT": true, "THREAD": true, "LIST": true, "STATUS": true, "QUOTA": true, "QUOTAROOT": true,
	"METADATA": true, "NAMESPACE": true, "FLAGS": true, "CAPABILITY": true, "ENABLED": true, "PERMANENTFLAGS": true,
	"UIDNEXT": true, "UIDVALIDITY": true, "HIGHESTMODSEQ": true}

func respKind(cs *Case) string {
	lo, hi := 0, len(cs.Toks)
	if cs.WhyAt > 0 && cs.WhyAt <= len(cs.Toks) {
		// the response (between two CRLFs) that holds the violating token
		for i := cs.WhyAt - 1; i >= 0; i-- {
			if cs.Toks[i] == "CRLF" && i < cs.WhyAt-1 {
				lo = i + 1
				break
			}
		}
		for i := cs.WhyAt - 1; i < len(cs.Toks); i++ {
			if cs.Toks[i] == "CRLF" {
				hi = i
				break
			}
		}
	}
	for _, t := range cs.Toks[lo:hi] {
		if respNames[t] {
			return strings.ToLower(t)
		}
	}
	return cs.Kind
}

// monitors that apply to every input, classified or not
func (r *reporter) monitors(cs *Case, o *Obs) (fatal bool) {
	line := lineOf(cs)
	if o.Crashed {
		switch o.CrashWhy {
		case "stack-overflow":
			r.mismatch("unbounded-recursion/"+area(o.CrashAt),
				fmt.Sprintf("%s: the process died with a stack overflow (max stack %d MiB) in the %s phase, recursing in %s; expected: an error for over-deep nesting. %s",
					describe(cs, line), maxStack>>20, o.CrashIn, o.CrashAt, o.CrashTail), cs)
		case "memory-limit":
			r.mismatch("memory-blowup/"+respKind(cs)+"/"+o.CrashIn,
				fmt.Sprintf("%s: resident memory exceeded the limit in the %s phase on an input of %d bytes", describe(cs, line), o.CrashIn, len(line)), cs)
		case "time-limit":
			r.mismatch("nonreturn/"+respKind(cs)+"/"+o.CrashIn,
				fmt.Sprintf("%s: no return within the limit in the %s phase (confirmed with a longer limit)", describe(cs, line), o.CrashIn), cs)
		default:
			r.mismatch("crash/"+area(o.CrashAt),
				fmt.Sprintf("%s: the process died (%s) in the %s phase: %s", describe(cs, line), o.CrashWhy, o.CrashIn, o.CrashTail), cs)
		}
		return true
	}
	if o.Panic {
		r.mismatch("reader-panic/"+area(o.PanicAt),
			fmt.Sprintf("%s: the client's reader panicked (recovered by Client.read) in %s: %s", describe(cs, line), o.PanicAt, o.ErrText), cs)
	}
	for _, p := range o.AccPanic {
		name := p
		if i := strings.Index(p, ":"); i > 0 {
			name = p[:i]
		}
		if strings.HasPrefix(name, "imapclient.") || strings.HasPrefix(name, "imap.") || strings.HasPrefix(name, "internal/") {
			name = area(name) // a go-imap function taken from the panic's stack
		}
		r.mismatch("accessor-panic/"+sanitize(name),
			fmt.Sprintf("%s: %s; delivered=%v err=%q", describe(cs, line), p, o.Delivered, o.ErrText), cs)
	}
	return false
}

// comparison with the class the specification assigned
func (r *reporter) judge(cs *Case, o *Obs) {
	if r.monitors(cs, o) {
		return
	}
	line := lineOf(cs)
	if len(o.AccPanic) > 0 || o.Panic {
		return // the panic is the finding; the outcome of the call is a consequence
	}
	switch cs.Class {
	case "E":
		if !o.Err {
			r.mismatch("not-rejected/"+cs.Why+"/"+respKind(cs),
				fmt.Sprintf("%s: the specification classifies the line MustError (%s) but the call returned without error (values delivered=%d, zero delivered=%v, '*' set delivered=%v)",
					describe(cs, line), cs.Why, o.Values, o.Zero, o.Dynamic), cs)
		}
	case "D":
		want := cs.St
		if want == "" {
			want = "OK"
		}
		got := "OK"
		if o.Err {
			got = o.ErrKind
		}
		if got != want {
			r.mismatch("conformant-rejected/"+sanitize(cs.Base),
				fmt.Sprintf("%s: the specification classifies the line MustDeliver (completion %s) but the call reported %s: %s",
					describe(cs, line), want, got, o.ErrText), cs)
		}
	}
}

// ------------------------------------------------------------------ replay

func replayMain(args []string) {
	fs := flag.NewFlagSet("replay", flag.ExitOnError)
	shards := fs.Int("shards", 16, "parallel children")
	chunk := fs.Int("chunk", chunkDefault, "cases per child")
	obsOut := fs.String("obs", "", "write observations (ndjson)")
	fs.Parse(args[1:])
	out := vh.NewOut()
	defer out.Flush()
	cases, err := readCases(args[0])
	if err != nil || len(cases) == 0 {
		out.Summary(map[string]interface{}{"infra_error": fmt.Sprintf("no cases read from %s: %v", args[0], err)})
		return
	}
	t0 := time.Now()
	pool := newPool(*shards, *chunk)
	obs, perr := pool.run(cases)
	if perr != nil {
		out.Summary(map[string]interface{}{"infra_error": perr.Error()})
		return
	}
	rep := newReporter(out)
	byClass := map[string]int{}
	byKind := map[string]int{}
	byMut := map[string]int{}
	nontrivial := 0
	classOutcome := map[string]int{}
	var samples []interface{}
	var maxAlloc uint64
	var maxRatio float64
	var obsW *bufio.Writer
	if *obsOut != "" {
		fh, err := os.Create(*obsOut)
		if err == nil {
			defer fh.Close()
			obsW = bufio.NewWriter(fh)
			defer obsW.Flush()
		}
	}
	for i := range cases {
		cs, o := &cases[i], obs[i]
		if o == nil {
			out.Summary(map[string]interface{}{"infra_error": fmt.Sprintf("no observation for case %d", i)})
			return
		}
		rep.judge(cs, o)
		byClass[cs.Class]++
		byKind[cs.Kind]++
		m := cs.Mut
		if j := strings.IndexAny(m, "@:"); j > 0 {
			m = m[:j]
		}
		byMut[m]++
		outc := "deliver"
		if o.Crashed {
			outc = "crash"
		} else if o.Err {
			outc = "error"
		}
		classOutcome[cs.Class+"->"+outc]++
		if cs.Class != "X" || o.Values > 0 {
			nontrivial++
		}
		if o.Alloc > maxAlloc {
			maxAlloc = o.Alloc
		}
		if o.Len > 0 {
			if rt := float64(o.Alloc) / float64(o.Len+65536); rt > maxRatio {
				maxRatio = rt
			}
		}
		if len(samples) < 3 && (cs.Class == "E" || (cs.Class == "D" && o.Values > 0 && cs.Mut != "none")) && len(lineOf(cs)) < 200 {
			samples = append(samples, map[string]interface{}{"context": cs.Kind, "base": cs.Base, "mutation": cs.Mut, "class": cs.Class,
				"line": string(lineOf(cs)), "observed": map[string]interface{}{"err": o.Err, "errtext": o.ErrText, "values": o.Values}})
		}
		if obsW != nil {
			b, _ := json.Marshal(map[string]interface{}{"case": cs, "obs": o})
			obsW.Write(b)
			obsW.WriteByte('\n')
		}
	}
	out.Summary(map[string]interface{}{
		"behaviours": len(cases), "steps": len(cases), "nontrivial": nontrivial, "samples": samples,
		"by_class": byClass, "by_kind": byKind, "by_mutation": byMut, "class_outcome": classOutcome,
		"sig_counts": rep.counts, "children": pool.spawned, "child_deaths": pool.deaths,
		"max_alloc_bytes": maxAlloc, "max_alloc_per_input_byte": maxRatio,
		"wall_s": time.Since(t0).Seconds(),
	})
}

// ------------------------------------------------------------------ one

func oneMain(args []string) {
	out := vh.NewOut()
	defer out.Flush()
	b, err := os.ReadFile(args[0])
	if err != nil {
		out.Summary(map[string]interface{}{"infra_error": err.Error()})
		return
	}
	var cs Case
	if err := json.Unmarshal(b, &cs); err != nil {
		out.Summary(map[string]interface{}{"infra_error": "bad case: " + err.Error()})
		return
	}
	pool := newPool(1, 1)
	if cs.Fam == "esearch-range-max" || cs.Fam == "copyuid-range-max" {
		pool.rss = boundedRSS
	}
	obs, perr := pool.run([]Case{cs})
	if perr != nil {
		out.Summary(map[string]interface{}{"infra_error": perr.Error()})
		return
	}
	rep := newReporter(out)
	if cs.Fam != "" {
		resourceOne(rep, &cs, obs[0])
	} else {
		rep.judge(&cs, obs[0])
	}
	out.Summary(map[string]interface{}{"behaviours": 1, "steps": 1, "nontrivial": 1, "observed": obs[0], "sig_counts": rep.counts})
}

func sortedKeys(m map[string]int) []string {
	var l []string
	for k := range m {
		l = append(l, k)
	}
	sort.Strings(l)
	return l
}

var _ = runtime.NumCPU
