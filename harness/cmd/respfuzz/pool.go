package main

import (
	"bufio"
	"bytes"
	"encoding/json"
	"fmt"
	"io"
	"os"
	"os/exec"
	"regexp"
	"strconv"
	"strings"
	"sync"
	"time"
)

// pool runs cases in child processes (re-exec of this binary).  A child that
// dies on input k (fatal stack overflow, memory limit, time limit) becomes an
// observation for k; the rest of its chunk goes to a fresh child.
type pool struct {
	shards  int
	chunk   int
	rss     int64
	limit   time.Duration
	stack   int
	self    string
	mu      sync.Mutex
	spawned int
	deaths  int
}

func newPool(shards, chunk int) *pool {
	self, err := os.Executable()
	if err != nil {
		self = os.Args[0]
	}
	return &pool{shards: shards, chunk: chunk, rss: defaultRSS, limit: caseLimit, stack: maxStack, self: self}
}

type tailBuf struct {
	mu   sync.Mutex
	head []byte
	tail []byte
}

func (t *tailBuf) Write(p []byte) (int, error) {
	t.mu.Lock()
	defer t.mu.Unlock()
	if len(t.head) < 16384 {
		k := 16384 - len(t.head)
		if k > len(p) {
			k = len(p)
		}
		t.head = append(t.head, p[:k]...)
	}
	t.tail = append(t.tail, p...)
	if len(t.tail) > 1<<18 {
		t.tail = t.tail[len(t.tail)-(1<<17):]
	}
	return len(p), nil
}

func (t *tailBuf) String() string {
	t.mu.Lock()
	defer t.mu.Unlock()
	if len(t.tail) <= len(t.head) {
		return string(t.head)
	}
	return string(t.head) + "\n...\n" + string(t.tail)
}

var frameRe = regexp.MustCompile(`(?m)^(github\.com/emersion/go-imap/v2[^\s(]*(?:\(\*[A-Za-z0-9_]+\))?[^\s(]*)\(`)

// most frequent go-imap function on a fatal stack trace
func hottestFrame(trace string) string {
	cnt := map[string]int{}
	best, bestN := "unknown", 0
	for _, m := range frameRe.FindAllStringSubmatch(trace, -1) {
		fn := strings.TrimPrefix(m[1], "github.com/emersion/go-imap/v2/")
		fn = strings.TrimPrefix(fn, "github.com/emersion/go-imap/v2.")
		cnt[fn]++
		if cnt[fn] > bestN {
			best, bestN = fn, cnt[fn]
		}
	}
	return best
}

// runChunk runs cases[from:to] in children until all have an observation.
func (p *pool) runChunk(cases []Case, obs []*Obs, from, to int, dir string, seq int) error {
	next := from
	attempt := 0
	for next < to {
		attempt++
		if attempt > (to-from)+3 {
			return fmt.Errorf("chunk %d-%d does not make progress", from, to)
		}
		path := fmt.Sprintf("%s/chunk-%d-%d.ndjson", dir, seq, attempt)
		fh, err := os.Create(path)
		if err != nil {
			return err
		}
		w := bufio.NewWriter(fh)
		for i := next; i < to; i++ {
			b, _ := json.Marshal(&cases[i])
			w.Write(b)
			w.WriteByte('\n')
		}
		w.Flush()
		fh.Close()
		died, at, err := p.child(path, cases, obs, next)
		os.Remove(path)
		if err != nil {
			return err
		}
		if !died {
			return nil
		}
		next = at + 1
	}
	return nil
}

// child runs one child over the chunk file; ids are absolute case indices.
// Returns died=true and the index it died on.
func (p *pool) child(path string, cases []Case, obs []*Obs, first int) (died bool, at int, err error) {
	limit := p.limit
	cmd := exec.Command(p.self, "child", path, "-rss", strconv.FormatInt(p.rss, 10), "-limit", limit.String(), "-stack", strconv.Itoa(p.stack))
	cmd.Env = append(os.Environ(), "GOMAXPROCS=1", "GOTRACEBACK=single")
	stdout, err := cmd.StdoutPipe()
	if err != nil {
		return false, 0, err
	}
	var errb tailBuf
	cmd.Stderr = &errb
	if err := cmd.Start(); err != nil {
		return false, 0, err
	}
	p.mu.Lock()
	p.spawned++
	p.mu.Unlock()
	cur := -1
	var partial *Obs
	rd := bufio.NewReaderSize(stdout, 1<<20)
	for {
		line, rerr := rd.ReadBytes('\n')
		if len(line) > 2 {
			body := bytes.TrimSpace(line[2:])
			switch line[0] {
			case 'B':
				id, _ := strconv.Atoi(string(body))
				cur = id
				partial = nil
			case 'P':
				var o Obs
				if json.Unmarshal(body, &o) == nil {
					partial = &o
				}
			case 'A':
				var o Obs
				if json.Unmarshal(body, &o) == nil && o.ID >= 0 && o.ID < len(obs) {
					obs[o.ID] = &o
					if o.ID == cur && o.Returned && o.AccDone {
						cur = -1
						partial = nil
					}
				}
			}
		}
		if rerr != nil {
			if rerr != io.EOF {
				err = rerr
			}
			break
		}
	}
	werr := cmd.Wait()
	if werr == nil && cur < 0 {
		return false, 0, nil
	}
	code := -1
	if ee, ok := werr.(*exec.ExitError); ok {
		code = ee.ExitCode()
	}
	if cur < 0 {
		return false, 0, fmt.Errorf("child exited with %v outside a case: %s", werr, tailOf(errb.String(), 2000))
	}
	if code == 2 && strings.Contains(errb.String(), "bad case:") {
		return false, 0, fmt.Errorf("child rejected its input: %s", tailOf(errb.String(), 500))
	}
	p.mu.Lock()
	p.deaths++
	p.mu.Unlock()
	o := obs[cur]
	if o == nil {
		o = partial
	}
	if o == nil {
		o = &Obs{ID: cur, Len: len(lineOf(&cases[cur])), AccPanic: []string{}}
	}
	trace := errb.String()
	o.Crashed = true
	o.CrashIn = "reader"
	if partial != nil && partial.Returned {
		o.CrashIn = "accessor"
	}
	switch {
	case code == exitTime:
		o.CrashWhy = "time-limit"
	case code == exitMemory:
		o.CrashWhy = "memory-limit"
	case strings.Contains(trace, "stack overflow") || strings.Contains(trace, "goroutine stack exceeds"):
		o.CrashWhy = "stack-overflow"
		o.CrashAt = hottestFrame(trace)
	case strings.Contains(trace, "out of memory") || strings.Contains(trace, "cannot allocate memory"):
		o.CrashWhy = "memory-limit"
	default:
		o.CrashWhy = "fatal"
		o.CrashAt = hottestFrame(trace)
	}
	o.CrashTail = firstLines(trace, 4)
	obs[cur] = o
	return true, cur, nil
}

func tailOf(s string, n int) string {
	if len(s) > n {
		return s[len(s)-n:]
	}
	return s
}

func firstLines(s string, n int) string {
	var out []string
	for _, l := range strings.Split(s, "\n") {
		l = strings.TrimSpace(l)
		if l == "" {
			continue
		}
		out = append(out, l)
		if len(out) >= n {
			break
		}
	}
	r := strings.Join(out, " | ")
	if len(r) > 400 {
		r = r[:400]
	}
	return r
}

// run executes all cases; a time-limit death is confirmed once alone with a
// longer limit before it stands (load can delay a case).
func (p *pool) run(cases []Case) ([]*Obs, error) {
	for i := range cases {
		cases[i].ID = i // observations are indexed by position
	}
	obs := make([]*Obs, len(cases))
	dir, err := os.MkdirTemp("", "respfuzz-")
	if err != nil {
		return nil, err
	}
	defer os.RemoveAll(dir)
	type job struct{ from, to, seq int }
	jobs := make(chan job, 1024)
	var wg sync.WaitGroup
	var firstErr error
	var emu sync.Mutex
	for w := 0; w < p.shards; w++ {
		wg.Add(1)
		go func() {
			defer wg.Done()
			for j := range jobs {
				if err := p.runChunk(cases, obs, j.from, j.to, dir, j.seq); err != nil {
					emu.Lock()
					if firstErr == nil {
						firstErr = err
					}
					emu.Unlock()
				}
			}
		}()
	}
	seq := 0
	for from := 0; from < len(cases); from += p.chunk {
		to := from + p.chunk
		if to > len(cases) {
			to = len(cases)
		}
		seq++
		jobs <- job{from, to, seq}
	}
	close(jobs)
	wg.Wait()
	if firstErr != nil {
		return nil, firstErr
	}
	// confirm time-limit deaths alone (in parallel), with a three times longer limit
	var slow []int
	for i, o := range obs {
		if o != nil && o.Crashed && o.CrashWhy == "time-limit" {
			slow = append(slow, i)
		}
	}
	if len(slow) > 0 {
		old := p.limit
		p.limit = 3 * old
		sem := make(chan struct{}, p.shards)
		var wg2 sync.WaitGroup
		for k, i := range slow {
			wg2.Add(1)
			sem <- struct{}{}
			go func(k, i int) {
				defer wg2.Done()
				defer func() { <-sem }()
				one := make([]*Obs, len(cases))
				if err := p.runChunk(cases, one, i, i+1, dir, 1000000+k); err != nil {
					emu.Lock()
					if firstErr == nil {
						firstErr = err
					}
					emu.Unlock()
					return
				}
				obs[i] = one[i]
			}(k, i)
		}
		wg2.Wait()
		p.limit = old
		if firstErr != nil {
			return nil, firstErr
		}
	}
	return obs, nil
}
