package main

import (
	"bufio"
	"fmt"
	"os"
	"strings"
)

// doRaw: debugging aid. Reads lines "<conn> <command>" from stdin, sends them
// to a fresh server and prints every response (memmodel raw - ).
func doRaw() {
	w, err := newWorld(2)
	if err != nil {
		fmt.Println("error:", err)
		return
	}
	defer w.close()
	sc := bufio.NewScanner(os.Stdin)
	for sc.Scan() {
		c, line, _ := strings.Cut(sc.Text(), " ")
		n := 1
		if c == "2" {
			n = 2
		}
		var lit []byte
		if i := strings.Index(line, " {}"); i >= 0 { // APPEND shorthand: "... {}" appends catalogue entry 1
			lit = cat.Messages[0].text
			line = fmt.Sprintf("%s {%d}", line[:i], len(lit))
		}
		un, tg, err := w.run(n, line, lit)
		for _, r := range un {
			fmt.Printf("  S%d: %s", n, r.Raw)
		}
		if err != nil {
			fmt.Printf("  S%d: error %v (%s)\n", n, err, w.lost(err))
			for _, l := range w.log.Snapshot() {
				fmt.Println("  log:", strings.SplitN(l, "\n", 2)[0])
			}
			return
		}
		fmt.Printf("  S%d: %s", n, tg.Raw)
	}
}
