// Command memmodel binds spec/MemModel.tla to go-imap's in-memory backend
// (property C09): a real imapserver.Server over imapmemserver is driven with
// raw IMAP over in-memory connections; responses are parsed by vh.Raw's own
// tokenizer and brought to the normal forms described in MemModel.tla.  The
// harness has no model of a mailbox: it renders commands, parses responses
// and compares with what TLC predicted (replay), or records what it saw for
// MemModelTrace (random).
//
//	memmodel replay <tlc.out> -cat <dir> [-max n -seed s]   lines of MemModelGen
//	memmodel random <out.ndjson> -cat <dir> -seed s -traces n -steps k
//	memmodel one <case.json> -cat <dir>                     replay one recorded case
package main

import (
	"crypto/sha256"
	"encoding/hex"
	"encoding/json"
	"flag"
	"fmt"
	"math/rand"
	"os"
	"path/filepath"
	"reflect"
	"runtime"
	"sort"
	"strconv"
	"strings"
	"sync"
	"time"

	"github.com/emersion/go-imap/v2"
	"github.com/emersion/go-imap/v2/imapserver"
	"github.com/emersion/go-imap/v2/imapserver/imapmemserver"

	"verif/harness/vh"
)

// ---------------------------------------------------------------- catalogue

type catalogue struct {
	Messages []struct {
		ID    int    `json:"id"`
		File  string `json:"file"`
		IDate string `json:"idate"`
		text  []byte
	} `json:"messages"`
	Sections        []string `json:"sections"`
	PartialSections []int    `json:"partial_sections"`
	Partials        []struct {
		Off  string `json:"off"`
		Size string `json:"size"`
	} `json:"partials"`
	HdrProbes []struct {
		Form string `json:"form"`
		Key  string `json:"key"`
		Val  string `json:"val"`
	} `json:"hdr_probes"`
	WordProbes []string `json:"word_probes"`
}

var cat catalogue

func loadCatalogue(dir string) error {
	b, err := os.ReadFile(filepath.Join(dir, "catalogue.json"))
	if err != nil {
		return err
	}
	if err := json.Unmarshal(b, &cat); err != nil {
		return err
	}
	for i := range cat.Messages {
		t, err := os.ReadFile(filepath.Join(dir, cat.Messages[i].File))
		if err != nil {
			return err
		}
		cat.Messages[i].text = t
	}
	return nil
}

// ---------------------------------------------------------------- commands (shape of MemModel's C0)

type item struct {
	Flags bool `json:"flags"`
	Uidi  bool `json:"uidi"`
	Size  bool `json:"size"`
	Date  bool `json:"date"`
	Sec   int  `json:"sec"`
	Pi    int  `json:"pi"`
	Peek  bool `json:"peek"`
}

type key struct {
	K   string   `json:"k"`
	N   int      `json:"n"`
	F   string   `json:"f"`
	Set [][2]int `json:"set"`
	Sub []key    `json:"sub"`
}

type cmdT struct {
	Op     string   `json:"op"`
	C      int      `json:"c"`
	UID    bool     `json:"uid"`
	Name   []int    `json:"name"`
	Name2  []int    `json:"name2"`
	Ref    []int    `json:"ref"`
	Pat    []int    `json:"pat"`
	Set    [][2]int `json:"set"`
	Sop    string   `json:"sop"`
	Silent bool     `json:"silent"`
	Fl     []string `json:"fl"`
	Cat    int      `json:"cat"`
	Keys   []key    `json:"keys"`
	It     item     `json:"it"`
}

type stepT struct {
	Cmd   cmdT        `json:"cmd"`
	R     interface{} `json:"r"`
	Audit interface{} `json:"audit"`
	Sig   string      `json:"sig,omitempty"`
	Pure  bool        `json:"pure,omitempty"`
}

type lineT struct {
	Hist []stepT     `json:"hist"`
	Next []stepT     `json:"next"`
	Full bool        `json:"full"`
	Cur  interface{} `json:"cur"`
}

func nz(c *cmdT) {
	if c.Name == nil {
		c.Name = []int{}
	}
	if c.Name2 == nil {
		c.Name2 = []int{}
	}
	if c.Ref == nil {
		c.Ref = []int{}
	}
	if c.Pat == nil {
		c.Pat = []int{}
	}
	if c.Set == nil {
		c.Set = [][2]int{}
	}
	if c.Fl == nil {
		c.Fl = []string{}
	}
	if c.Keys == nil {
		c.Keys = []key{}
	}
	for i := range c.Keys {
		nzKey(&c.Keys[i])
	}
}

func nzKey(k *key) {
	if k.Set == nil {
		k.Set = [][2]int{}
	}
	if k.Sub == nil {
		k.Sub = []key{}
	}
	for i := range k.Sub {
		nzKey(&k.Sub[i])
	}
}

func str(codes []int) string {
	b := make([]byte, len(codes))
	for i, c := range codes {
		b[i] = byte(c)
	}
	return string(b)
}

func codes(s string) []int {
	out := make([]int, len(s))
	for i := 0; i < len(s); i++ {
		out[i] = int(s[i])
	}
	return out
}

func quoted(s string) string {
	s = strings.ReplaceAll(s, `\`, `\\`)
	s = strings.ReplaceAll(s, `"`, `\"`)
	return `"` + s + `"`
}

func wireFlag(sp string) string {
	if strings.HasPrefix(sp, ":") {
		return `\` + sp[1:]
	}
	return sp
}

func wireFlags(fl []string) string {
	out := make([]string, len(fl))
	for i, f := range fl {
		out[i] = wireFlag(f)
	}
	return "(" + strings.Join(out, " ") + ")"
}

func wireSet(set [][2]int) string {
	num := func(n int) string {
		if n == 0 {
			return "*"
		}
		return strconv.Itoa(n)
	}
	parts := make([]string, len(set))
	for i, r := range set {
		if r[0] == r[1] {
			parts[i] = num(r[0])
		} else {
			parts[i] = num(r[0]) + ":" + num(r[1])
		}
	}
	return strings.Join(parts, ",")
}

var day0 = time.Date(2019, 12, 31, 0, 0, 0, 0, time.UTC)

func wireDay(n int) string { return day0.AddDate(0, 0, n).Format("2-Jan-2006") }

func wireKey(k key) string {
	switch k.K {
	case "ALL":
		return "ALL"
	case "SEQ":
		return wireSet(k.Set)
	case "UID":
		return "UID " + wireSet(k.Set)
	case "FLAG":
		return k.F
	case "KEYWORD", "UNKEYWORD":
		return k.K + " " + wireFlag(k.F)
	case "LARGER", "SMALLER":
		return k.K + " " + strconv.Itoa(k.N)
	case "SINCE", "BEFORE", "ON", "SENTSINCE", "SENTBEFORE", "SENTON":
		return k.K + " " + wireDay(k.N)
	case "HDR":
		p := cat.HdrProbes[k.N-1]
		if p.Form == "HEADER" {
			return "HEADER " + p.Key + " " + quoted(p.Val)
		}
		return p.Form + " " + quoted(p.Val)
	case "BODY", "TEXT":
		return k.K + " " + quoted(cat.WordProbes[k.N-1])
	case "NOT":
		return "NOT " + wireKey(k.Sub[0])
	case "OR":
		return "OR " + wireKey(k.Sub[0]) + " " + wireKey(k.Sub[1])
	}
	return "XBADKEY"
}

func wireSection(it item) string {
	s := "BODY"
	if it.Peek {
		s += ".PEEK"
	}
	s += "[" + cat.Sections[it.Sec-1] + "]"
	if it.Pi != 0 {
		p := cat.Partials[it.Pi-1]
		s += "<" + p.Off + "." + p.Size + ">"
	}
	return s
}

// wire renders the command line (without tag); APPEND returns the literal separately.
func wire(c *cmdT) (line string, literal []byte) {
	u := ""
	if c.UID {
		u = "UID "
	}
	switch c.Op {
	case "CREATE", "DELETE", "SUBSCRIBE", "UNSUBSCRIBE", "SELECT", "EXAMINE":
		return c.Op + " " + quoted(str(c.Name)), nil
	case "RENAME":
		return "RENAME " + quoted(str(c.Name)) + " " + quoted(str(c.Name2)), nil
	case "LIST", "LSUB":
		return c.Op + " " + quoted(str(c.Ref)) + " " + quoted(str(c.Pat)), nil
	case "STATUS":
		return "STATUS " + quoted(str(c.Name)) + " (MESSAGES UIDNEXT UIDVALIDITY UNSEEN DELETED SIZE)", nil
	case "APPEND":
		m := cat.Messages[c.Cat-1]
		return fmt.Sprintf("APPEND %s %s %s {%d}", quoted(str(c.Name)), wireFlags(c.Fl), quoted(m.IDate), len(m.text)), m.text
	case "CLOSE", "UNSELECT", "EXPUNGE":
		return c.Op, nil
	case "UIDEXPUNGE":
		return "UID EXPUNGE " + wireSet(c.Set), nil
	case "STORE":
		op := map[string]string{"set": "", "add": "+", "del": "-"}[c.Sop]
		sil := ""
		if c.Silent {
			sil = ".SILENT"
		}
		return u + "STORE " + wireSet(c.Set) + " " + op + "FLAGS" + sil + " " + wireFlags(c.Fl), nil
	case "COPY", "MOVE":
		return u + c.Op + " " + wireSet(c.Set) + " " + quoted(str(c.Name)), nil
	case "SEARCH":
		ks := make([]string, len(c.Keys))
		for i, k := range c.Keys {
			ks[i] = wireKey(k)
		}
		return u + "SEARCH " + strings.Join(ks, " "), nil
	case "FETCH":
		var its []string
		if c.It.Uidi {
			its = append(its, "UID")
		}
		if c.It.Flags {
			its = append(its, "FLAGS")
		}
		if c.It.Size {
			// the structural items ride along with the size: what they say is C03's matter (the writers) - here they
			// must be answered at all, for every message of the catalogue
			its = append(its, "RFC822.SIZE", "ENVELOPE", "BODYSTRUCTURE", "BODY")
		}
		if c.It.Date {
			its = append(its, "INTERNALDATE")
		}
		if c.It.Sec != 0 {
			its = append(its, wireSection(c.It))
		}
		return u + "FETCH " + wireSet(c.Set) + " (" + strings.Join(its, " ") + ")", nil
	}
	return "XBADOP", nil
}

// ---------------------------------------------------------------- a live server with its connections

type world struct {
	srv      *imapserver.Server
	ln       *vh.Listener
	log      *vh.LogBuf
	conns    []*vh.Raw
	raw      []*vh.Conn
	nconn    int
	uvSeen   map[string][]string // name -> distinct UIDVALIDITY values in order of first appearance
	dead     string              // non-empty once a connection was lost: "PANIC" / "CLOSED" / "STALL" / "TIMEOUT"
	ro       [8]bool             // connection's last successful selection answered [READ-ONLY]
	stalled  bool
	stallRaw string
	wires    []string // what was sent (for reports)
}

func newWorld(nconn int) (*world, error) {
	w := &world{nconn: nconn, uvSeen: map[string][]string{}, log: vh.NewLogBuf()}
	mem := imapmemserver.New()
	mem.AddUser(imapmemserver.NewUser("u", "p"))
	w.ln = vh.NewListener()
	w.srv = imapserver.New(&imapserver.Options{
		NewSession: func(c *imapserver.Conn) (imapserver.Session, *imapserver.GreetingData, error) {
			return mem.NewSession(), nil, nil
		},
		Caps:         imap.CapSet{imap.CapIMAP4rev1: {}, imap.CapIMAP4rev2: {}},
		InsecureAuth: true,
		Logger:       w.log,
	})
	go w.srv.Serve(w.ln)
	for i := 0; i < nconn; i++ {
		c, _, err := w.ln.Dial()
		if err != nil {
			return nil, err
		}
		r := vh.NewRaw(c)
		r.Timeout = readTimeout
		if _, err := r.ReadResp(); err != nil { // greeting
			return nil, fmt.Errorf("greeting: %v", err)
		}
		_, tg, err := r.Cmd("LOGIN u p")
		if err != nil || tg.Name != "OK" {
			return nil, fmt.Errorf("login failed: %v %v", err, tg)
		}
		w.conns = append(w.conns, r)
		w.raw = append(w.raw, c)
	}
	return w, nil
}

func (w *world) close() {
	for _, c := range w.raw {
		c.Close()
	}
	w.ln.Close()
	w.srv.Close()
}

func (w *world) panicked() bool {
	for _, l := range w.log.Snapshot() {
		if strings.Contains(strings.ToLower(l), "panic") {
			return true
		}
	}
	return false
}

func (w *world) lost(err error) string {
	// give the server's recover() a moment to log
	for i := 0; i < 20 && !w.panicked(); i++ {
		time.Sleep(time.Millisecond)
	}
	if w.panicked() {
		w.dead = "PANIC"
	} else if w.stalled {
		w.dead = "STALL"
	} else if os.IsTimeout(err) || strings.Contains(err.Error(), "deadline") {
		w.dead = "TIMEOUT"
	} else {
		w.dead = "CLOSED"
	}
	return w.dead
}

// run sends one command on connection c (1-based) and returns untagged + tagged.
func (w *world) run(c int, line string, literal []byte) ([]*vh.Resp, *vh.Resp, error) {
	r := w.conns[c-1]
	tag := r.NextTag()
	w.wires = append(w.wires, fmt.Sprintf("C%d: %s", c, line))
	if err := r.Send(tag + " " + line + "\r\n"); err != nil {
		return nil, nil, err
	}
	if literal != nil {
		resp, err := r.ReadResp()
		if err != nil {
			return nil, nil, err
		}
		if resp.Tag != "+" {
			if resp.Tag == tag {
				return nil, resp, nil
			}
			return nil, nil, fmt.Errorf("expected continuation, got %q", resp.Raw)
		}
		if err := r.Send(string(literal) + "\r\n"); err != nil {
			return nil, nil, err
		}
	}
	// A command the server fails to complete (error while writing the reply) leaves the
	// client waiting for ever.  Watch the server log: when a line appears while we are
	// still waiting, shorten the read deadline; a timeout with such a line is the
	// observation "STALL" (no tagged completion), a timeout without one is infrastructure.
	logLen := len(w.log.Snapshot())
	stop := make(chan struct{})
	go func() {
		t := time.NewTicker(2 * time.Millisecond)
		defer t.Stop()
		for {
			select {
			case <-stop:
				return
			case <-t.C:
				if len(w.log.Snapshot()) > logLen {
					select {
					case <-stop:
					case <-time.After(100 * time.Millisecond):
						w.raw[c-1].SetReadDeadline(time.Now().Add(200 * time.Millisecond))
					}
					return
				}
			}
		}
	}()
	un, tg, err := r.Until(tag)
	close(stop)
	if err != nil && len(w.log.Snapshot()) > logLen && !w.panicked() && (os.IsTimeout(err) || strings.Contains(err.Error(), "deadline")) {
		w.stalled = true
		for _, x := range un {
			w.stallRaw += strings.TrimSpace(x.Raw) + " / "
		}
	}
	return un, tg, err
}

func (w *world) uvRank(name string, val string) int {
	l := w.uvSeen[name]
	for i, v := range l {
		if v == val {
			return i + 1
		}
	}
	w.uvSeen[name] = append(l, val)
	return len(l) + 1
}

type M = map[string]interface{}

func normFlag(f string) string {
	f = strings.ToLower(f)
	if strings.HasPrefix(f, `\`) {
		return ":" + f[1:]
	}
	return f
}

func flagList(t vh.Tok) []string {
	out := []string{}
	for _, f := range t.List {
		out = append(out, normFlag(f.S))
	}
	sort.Strings(out)
	return out
}

func atoi(s string) int {
	n, err := strconv.Atoi(s)
	if err != nil {
		return -1
	}
	return n
}

func expandSet(s string) []int {
	out := []int{}
	if s == "" {
		return out
	}
	for _, part := range strings.Split(s, ",") {
		a, b, isRange := strings.Cut(part, ":")
		lo := atoi(a)
		hi := lo
		if isRange {
			hi = atoi(b)
		}
		if lo > hi {
			lo, hi = hi, lo
		}
		if lo < 0 || hi-lo > 100000 {
			return []int{-1}
		}
		for n := lo; n <= hi; n++ {
			out = append(out, n)
		}
	}
	return out
}

func fingerprint(b string) string {
	h := sha256.Sum256([]byte(b))
	return hex.EncodeToString(h[:])[:8]
}

// fetchItems turns the item list of one FETCH response into a name->token map.
func fetchItems(r *vh.Resp) map[string]vh.Tok {
	out := map[string]vh.Tok{}
	if len(r.Toks) != 1 || r.Toks[0].Kind != 'L' {
		return out
	}
	l := r.Toks[0].List
	for i := 0; i+1 < len(l); i += 2 {
		out[strings.ToUpper(l[i].S)] = l[i+1]
	}
	return out
}

func normDate(s string) string {
	t, err := time.Parse("_2-Jan-2006 15:04:05 -0700", s)
	if err != nil {
		return "unparsable:" + s
	}
	return t.UTC().Format("2006-01-02T15:04:05Z")
}

// exec runs a model command and returns its normal form.
func (w *world) exec(c *cmdT) M {
	if w.dead != "" {
		return M{"st": w.dead}
	}
	line, lit := wire(c)
	un, tg, err := w.run(c.C, line, lit)
	if err != nil {
		return M{"st": w.lost(err)}
	}
	st := tg.Name
	switch c.Op {
	case "SELECT", "EXAMINE", "CLOSE", "UNSELECT":
		w.ro[c.C] = st == "OK" && tg.Code == "READ-ONLY"
	case "STORE", "MOVE", "EXPUNGE", "UIDEXPUNGE":
		if w.ro[c.C] && (st == "OK" || st == "NO") && !strings.Contains(tg.Raw, "[SERVERBUG]") {
			return M{"st": "RO"} // the effect (none) is judged by the audit
		}
	}
	if strings.Contains(tg.Raw, "[SERVERBUG]") || strings.Contains(tg.Text+" "+tg.CodeArg, " "+tg.Tag+" ") {
		return M{"st": "MALFORMED", "raw": strings.TrimSpace(tg.Raw)}
	}
	if st != "OK" {
		return M{"st": st}
	}
	res := M{"st": "OK"}
	switch c.Op {
	case "LIST", "LSUB":
		names := []string{}
		for _, r := range un {
			if r.Name == c.Op && len(r.Toks) >= 3 {
				names = append(names, r.Toks[2].S)
			}
		}
		sort.Strings(names)
		out := [][]int{}
		for _, n := range names {
			out = append(out, codes(n))
		}
		res["names"] = out
	case "STATUS":
		vals := map[string]string{}
		for _, r := range un {
			if r.Name == "STATUS" && len(r.Toks) >= 2 && r.Toks[1].Kind == 'L' {
				l := r.Toks[1].List
				for i := 0; i+1 < len(l); i += 2 {
					vals[strings.ToUpper(l[i].S)] = l[i+1].S
				}
			}
		}
		get := func(k string) int {
			v, ok := vals[k]
			if !ok {
				return -1
			}
			return atoi(v)
		}
		res["messages"] = get("MESSAGES")
		res["uidnext"] = get("UIDNEXT")
		res["unseen"] = get("UNSEEN")
		res["deleted"] = get("DELETED")
		res["size"] = get("SIZE")
		if v, ok := vals["UIDVALIDITY"]; ok {
			res["uv"] = w.uvRank(str(c.Name), v)
		} else {
			res["uv"] = -1
		}
	case "APPEND":
		res["uv"], res["uid"] = -1, -1
		if tg.Code == "APPENDUID" {
			f := strings.Fields(tg.CodeArg)
			if len(f) == 2 {
				res["uv"] = w.uvRank(str(c.Name), f[0])
				res["uid"] = atoi(f[1])
			}
		}
	case "SELECT", "EXAMINE":
		res["exists"], res["uidnext"], res["uv"] = -1, -1, -1
		for _, r := range un {
			if r.Name == "EXISTS" && r.HasNum {
				res["exists"] = int(r.Num)
			}
			if r.Name == "OK" && r.Code == "UIDNEXT" {
				res["uidnext"] = atoi(strings.TrimSpace(r.CodeArg))
			}
			if r.Name == "OK" && r.Code == "UIDVALIDITY" {
				res["uv"] = w.uvRank(str(c.Name), strings.TrimSpace(r.CodeArg))
			}
		}
		res["rw"] = tg.Code
	case "STORE":
		res["fetch"] = w.normStore(c, un)
	case "COPY", "MOVE":
		code, arg := tg.Code, tg.CodeArg
		if c.Op == "MOVE" {
			for _, r := range un {
				if r.Name == "OK" && r.Code == "COPYUID" {
					code, arg = r.Code, r.CodeArg
				}
			}
		}
		res["uv"], res["src"], res["dst"] = 0, []int{}, []int{}
		if code == "COPYUID" {
			f := strings.Fields(arg)
			if len(f) == 3 {
				res["uv"] = w.uvRank(str(c.Name), f[0])
				res["src"] = expandSet(f[1])
				res["dst"] = expandSet(f[2])
			}
		}
	case "EXPUNGE", "UIDEXPUNGE":
		orig := []int{}
		for _, r := range un {
			if r.Name == "EXPUNGE" && r.HasNum {
				pos := int(r.Num)
				sort.Ints(orig)
				for _, o := range orig {
					if o <= pos {
						pos++
					}
				}
				orig = append(orig, pos)
			}
		}
		sort.Ints(orig)
		res["expunged"] = orig
	case "SEARCH":
		nums := []int{}
		for _, r := range un {
			if r.Name == "SEARCH" {
				for _, t := range r.Toks {
					nums = append(nums, atoi(t.S))
				}
			}
			if r.Name == "ESEARCH" {
				nums = append(nums, -2)
			}
		}
		sort.Ints(nums)
		res["nums"] = nums
	case "FETCH":
		res["msgs"] = w.normFetch(c, un)
	}
	return res
}

func mergeFetch(un []*vh.Resp) (map[int]map[string]vh.Tok, []int) {
	per := map[int]map[string]vh.Tok{}
	var seqs []int
	for _, r := range un {
		if r.Name != "FETCH" || !r.HasNum {
			continue
		}
		n := int(r.Num)
		if per[n] == nil {
			per[n] = map[string]vh.Tok{}
			seqs = append(seqs, n)
		}
		for k, v := range fetchItems(r) {
			per[n][k] = v
		}
	}
	sort.Ints(seqs)
	return per, seqs
}

func (w *world) normStore(c *cmdT, un []*vh.Resp) []M {
	out := []M{}
	if c.Silent {
		return out
	}
	per, seqs := mergeFetch(un)
	for _, n := range seqs {
		it := per[n]
		m := M{"seq": n, "uid": 0, "fl": []string{"missing"}}
		if c.UID {
			m["uid"] = -1
			if t, ok := it["UID"]; ok {
				m["uid"] = atoi(t.S)
			}
		}
		if t, ok := it["FLAGS"]; ok {
			m["fl"] = flagList(t)
		}
		out = append(out, m)
	}
	return out
}

func (w *world) normFetch(c *cmdT, un []*vh.Resp) []M {
	out := []M{}
	per, seqs := mergeFetch(un)
	for _, n := range seqs {
		it := per[n]
		m := M{"seq": n, "uid": 0, "fl": []string{}, "size": 0, "date": "", "sec": []M{}}
		if c.UID || c.It.Uidi {
			m["uid"] = -1
			if t, ok := it["UID"]; ok {
				m["uid"] = atoi(t.S)
			}
		}
		if c.It.Flags {
			m["fl"] = []string{"missing"}
			if t, ok := it["FLAGS"]; ok {
				m["fl"] = append([]string{"F"}, flagList(t)...)
			}
		}
		if c.It.Size {
			m["size"] = -1
			if t, ok := it["RFC822.SIZE"]; ok {
				m["size"] = atoi(t.S)
			}
			for _, k := range []string{"ENVELOPE", "BODYSTRUCTURE", "BODY"} {
				if _, ok := it[k]; !ok {
					m["size"] = -2 // asked for, not answered
				}
			}
		}
		if c.It.Date {
			m["date"] = "missing"
			if t, ok := it["INTERNALDATE"]; ok {
				m["date"] = normDate(t.S)
			}
		}
		if c.It.Sec != 0 {
			secs := []M{}
			var names []string
			for k := range it {
				if strings.HasPrefix(k, "BODY[") {
					names = append(names, k)
				}
			}
			sort.Strings(names)
			for _, k := range names {
				t := it[k]
				end := strings.LastIndexByte(k, ']')
				name := strings.ReplaceAll(k[len("BODY["):end], `"`, "")
				origin := "-"
				if rest := k[end+1:]; strings.HasPrefix(rest, "<") && strings.HasSuffix(rest, ">") {
					origin = rest[1 : len(rest)-1]
				}
				data := t.S
				if t.IsNil() {
					data = ""
				}
				secs = append(secs, M{"name": name, "origin": origin, "len": len(data), "fp": fingerprint(data)})
			}
			m["sec"] = secs
		}
		out = append(out, m)
	}
	return out
}

// sync + audit, as described in MemModel.tla
func (w *world) audit(names [][]int) M {
	sel := make([][]M, w.nconn)
	for c := 1; c <= w.nconn; c++ {
		sel[c-1] = []M{}
		if w.dead != "" {
			continue
		}
		if _, _, err := w.run(c, "NOOP", nil); err != nil {
			w.lost(err)
			continue
		}
		un, tg, err := w.run(c, "UID FETCH 1:4294967295 (FLAGS)", nil)
		if err != nil {
			w.lost(err)
			continue
		}
		if tg.Name != "OK" {
			continue
		}
		per, seqs := mergeFetch(un)
		for _, n := range seqs {
			m := M{"seq": n, "uid": -1, "fl": []string{"missing"}}
			if t, ok := per[n]["UID"]; ok {
				m["uid"] = atoi(t.S)
			}
			if t, ok := per[n]["FLAGS"]; ok {
				m["fl"] = flagList(t)
			}
			sel[c-1] = append(sel[c-1], m)
		}
	}
	st := []M{}
	for _, n := range names {
		e := M{"n": n, "e": false, "m": 0, "next": 0, "uv": 0}
		if w.dead == "" {
			un, tg, err := w.run(1, "STATUS "+quoted(str(n))+" (MESSAGES UIDNEXT UIDVALIDITY)", nil)
			if err != nil {
				w.lost(err)
			} else if tg.Name == "OK" {
				e["e"] = true
				for _, r := range un {
					if r.Name == "STATUS" && len(r.Toks) >= 2 && r.Toks[1].Kind == 'L' {
						l := r.Toks[1].List
						for i := 0; i+1 < len(l); i += 2 {
							switch strings.ToUpper(l[i].S) {
							case "MESSAGES":
								e["m"] = atoi(l[i+1].S)
							case "UIDNEXT":
								e["next"] = atoi(l[i+1].S)
							case "UIDVALIDITY":
								e["uv"] = w.uvRank(str(n), l[i+1].S)
							}
						}
					}
				}
			}
		}
		st = append(st, e)
	}
	return M{"sel": sel, "st": st}
}

// ---------------------------------------------------------------- comparison (syntactic: canonical JSON)

func canon(v interface{}) interface{} {
	b, err := json.Marshal(v)
	if err != nil {
		panic(err)
	}
	var out interface{}
	json.Unmarshal(b, &out)
	return out
}

func same(a, b interface{}) bool { return reflect.DeepEqual(canon(a), canon(b)) }

func js(v interface{}) string {
	b, _ := json.Marshal(v)
	s := string(b)
	if len(s) > 1500 {
		s = s[:1500] + "..."
	}
	return s
}

func auditNames(a interface{}) [][]int {
	var x struct {
		St []struct {
			N []int `json:"n"`
		} `json:"st"`
	}
	b, _ := json.Marshal(a)
	json.Unmarshal(b, &x)
	out := [][]int{}
	for _, s := range x.St {
		if s.N == nil {
			s.N = []int{}
		}
		out = append(out, s.N)
	}
	return out
}

func nconnOf(steps ...[]stepT) int {
	n := 1
	for _, l := range steps {
		for _, s := range l {
			if s.Cmd.C > n {
				n = s.Cmd.C
			}
			if a, ok := s.Audit.(map[string]interface{}); ok {
				if sel, ok := a["sel"].([]interface{}); ok && len(sel) > n {
					n = len(sel)
				}
			}
		}
	}
	return n
}

type report struct {
	mu        sync.Mutex
	out       *vh.Out
	perSig    map[string]int
	steps     int64
	behaviour int64
	nontriv   int64
	blocked   int64
	samples   []interface{}
	infra     string
}

func (rp *report) mismatch(sig, detail string, replay interface{}) {
	rp.mu.Lock()
	rp.perSig[sig]++
	n := rp.perSig[sig]
	rp.mu.Unlock()
	if n <= 4 {
		rp.out.Mismatch(sig, detail, replay)
	}
}

// runStep executes one predicted step and compares; returns false on disagreement.
func runStep(w *world, s *stepT, prevAudit interface{}, done []stepT, rp *report) (bool, interface{}) {
	got := w.exec(&s.Cmd)
	expAudit := s.Audit
	if a, ok := expAudit.([]interface{}); ok && len(a) == 0 { // pure step: audit unchanged
		expAudit = prevAudit
	}
	gotAudit := w.audit(auditNames(expAudit))
	rp.mu.Lock()
	rp.steps++
	rp.mu.Unlock()
	if w.dead == "TIMEOUT" {
		rp.mu.Lock()
		rp.infra = "read timeout talking to the in-process server: " + strings.Join(trimWires(w.wires), " | ") + " ; last: " + w.wires[len(w.wires)-1]
		rp.mu.Unlock()
		return false, expAudit
	}
	okR := same(s.R, got)
	okA := same(expAudit, gotAudit)
	if okR && okA {
		return true, expAudit
	}
	sig := s.Sig
	if sig == "" {
		sig = s.Cmd.Op
	}
	if st, _ := got["st"].(string); st == "PANIC" {
		sig += "-panic"
	} else if st == "CLOSED" {
		sig += "-closed"
	} else if st == "STALL" {
		sig += "-stall"
	} else if okR && !okA && !namedClass(sig) {
		sig += "/audit"
	}
	line, _ := wire(&s.Cmd)
	var detail string
	if !okR {
		detail = fmt.Sprintf("after [%s] command `%s`: model predicts %s, server gave %s", strings.Join(trimWires(w.wires), " | "), line, js(s.R), js(got))
	} else {
		detail = fmt.Sprintf("after [%s] command `%s`: result as predicted but audit differs: model %s, server %s", strings.Join(trimWires(w.wires), " | "), line, js(expAudit), js(gotAudit))
	}
	if w.dead == "STALL" {
		ls := w.log.Snapshot()
		detail += " ; no tagged completion; received: " + w.stallRaw + " server log: " + strings.SplitN(ls[len(ls)-1], "\n", 2)[0]
	}
	if w.dead == "PANIC" {
		for _, l := range w.log.Snapshot() {
			if strings.Contains(strings.ToLower(l), "panic") {
				if len(l) > 300 {
					l = l[:300]
				}
				detail += " ; server log: " + l
				break
			}
		}
	}
	steps := append(append([]stepT{}, done...), *s)
	steps[len(steps)-1].Audit = expAudit
	rp.mismatch(sig, detail, M{"steps": steps})
	return false, expAudit
}

// namedClass: signatures MemModel!Sig gives to a specific class of command-in-state (they are
// reported as they are); the others are just the command name and get "/audit" when only the
// audit differs.
func namedClass(sig string) bool {
	for _, p := range []string{"uid-star/", "partial/", "copyuid/", "examine/", "rename/", "lsub/"} {
		if strings.HasPrefix(sig, p) {
			return true
		}
	}
	return false
}

// trimWires drops the harness's own sync/audit commands from the report
func trimWires(ws []string) []string {
	out := []string{}
	for _, x := range ws {
		if strings.Contains(x, ": NOOP") || strings.Contains(x, "UID FETCH 1:4294967295 (FLAGS)") || strings.Contains(x, "(MESSAGES UIDNEXT UIDVALIDITY)") {
			continue
		}
		out = append(out, x)
	}
	if len(out) > 40 {
		out = append([]string{"..."}, out[len(out)-40:]...)
	}
	return out
}

// replayTask: fresh server, prefix, then the given successors in sequence.
func replayTask(prefix []stepT, succ []stepT, nconn int, cur interface{}, rp *report) {
	w, err := newWorld(nconn)
	if err != nil {
		rp.mu.Lock()
		rp.infra = err.Error()
		rp.mu.Unlock()
		return
	}
	defer w.close()
	var prev interface{}
	done := []stepT{}
	for i := range prefix {
		ok, a := runStep(w, &prefix[i], prev, done, rp)
		prev = a
		if !ok {
			rp.mu.Lock()
			rp.blocked += int64(len(succ))
			rp.mu.Unlock()
			return
		}
		done = append(done, prefix[i])
	}
	if cur != nil {
		prev = cur
	}
	for i := range succ {
		ok, a := runStep(w, &succ[i], prev, done, rp)
		if !ok {
			// the server may have diverged: the remaining successors get a fresh replay
			rest := succ[i+1:]
			if len(rest) > 0 {
				replayTask(prefix, rest, nconn, cur, rp)
			}
			return
		}
		st := succ[i]
		st.Audit = a
		done = append(done, st)
		if !succ[i].Pure {
			return
		}
	}
}

func interesting(s *stepT) bool {
	switch s.Cmd.Op {
	case "SEARCH":
		return len(s.Cmd.Keys) > 1 || len(s.Cmd.Keys[0].Sub) > 0
	case "FETCH":
		return s.Cmd.It.Pi != 0 || s.Cmd.It.Sec > 3
	case "LIST", "LSUB":
		for _, c := range s.Cmd.Pat {
			if c == '%' || c == '*' {
				return true
			}
		}
		return false
	case "STORE", "COPY", "MOVE", "EXPUNGE", "UIDEXPUNGE", "RENAME", "DELETE":
		if m, ok := s.R.(map[string]interface{}); ok {
			return m["st"] == "OK" && !s.Pure
		}
	}
	return false
}

func doReplay(path string, max int, seed int64, out *vh.Out) {
	rp := &report{out: out, perSig: map[string]int{}}
	type task struct {
		prefix []stepT
		succ   []stepT
		nconn  int
		cur    interface{}
	}
	tasks := make(chan task, 256)
	var wg sync.WaitGroup
	nw := runtime.NumCPU()
	if nw > 16 {
		nw = 16
	}
	for i := 0; i < nw; i++ {
		wg.Add(1)
		go func() {
			defer wg.Done()
			for t := range tasks {
				rp.mu.Lock()
				bad := rp.infra != ""
				rp.mu.Unlock()
				if !bad {
					replayTask(t.prefix, t.succ, t.nconn, t.cur, rp)
				}
			}
		}()
	}
	rng := rand.New(rand.NewSource(seed))
	lines := 0
	err := vh.ReadTLines(path, func(p []byte) error {
		var l lineT
		if err := json.Unmarshal(p, &l); err != nil {
			return fmt.Errorf("bad T line: %v", err)
		}
		lines++
		nconn := nconnOf(l.Hist, l.Next)
		if len(l.Next) == 0 {
			rp.behaviour++
			if len(rp.samples) < 2 {
				rp.samples = append(rp.samples, sampleOf(l.Hist))
			}
			for i := range l.Hist {
				if interesting(&l.Hist[i]) {
					rp.nontriv++
					break
				}
			}
			tasks <- task{l.Hist, nil, nconn, l.Cur}
			return nil
		}
		var pure, impure []stepT
		for _, s := range l.Next {
			if s.Pure {
				pure = append(pure, s)
			} else {
				impure = append(impure, s)
			}
		}
		// deterministic order, then optional sampling
		sort.Slice(pure, func(i, j int) bool { return js(pure[i].Cmd) < js(pure[j].Cmd) })
		sort.Slice(impure, func(i, j int) bool { return js(impure[i].Cmd) < js(impure[j].Cmd) })
		if max > 0 {
			// sample: keep each successor with probability max/len (at least a few)
			keep := func(l []stepT) []stepT {
				if len(l) <= max {
					return l
				}
				rng.Shuffle(len(l), func(i, j int) { l[i], l[j] = l[j], l[i] })
				return l[:max]
			}
			pure, impure = keep(pure), keep(impure)
		}
		for _, s := range append(append([]stepT{}, pure...), impure...) {
			rp.behaviour++
			if interesting(&s) {
				rp.nontriv++
			}
		}
		if len(rp.samples) < 2 && len(impure) > 0 && len(l.Hist) >= 3 {
			rp.samples = append(rp.samples, sampleOf(append(append([]stepT{}, l.Hist...), impure[0])))
		}
		const chunk = 120
		if len(pure) == 0 && len(impure) == 0 {
			tasks <- task{l.Hist, nil, nconn, l.Cur}
		}
		for i := 0; i < len(pure); i += chunk {
			j := i + chunk
			if j > len(pure) {
				j = len(pure)
			}
			tasks <- task{l.Hist, pure[i:j], nconn, l.Cur}
		}
		for i := range impure {
			tasks <- task{l.Hist, impure[i : i+1], nconn, l.Cur}
		}
		return nil
	})
	close(tasks)
	wg.Wait()
	sum := M{"behaviours": rp.behaviour, "steps": rp.steps, "nontrivial": rp.nontriv, "lines": lines,
		"blocked_by_earlier_mismatch": rp.blocked, "mismatch_counts": rp.perSig, "samples": rp.samples}
	if err != nil {
		sum["infra_error"] = err.Error()
	} else if rp.infra != "" {
		sum["infra_error"] = rp.infra
	}
	out.Summary(sum)
}

func sampleOf(steps []stepT) interface{} {
	var ws []string
	for i := range steps {
		l, _ := wire(&steps[i].Cmd)
		ws = append(ws, fmt.Sprintf("C%d %s => %s", steps[i].Cmd.C, l, js(steps[i].R)))
	}
	if len(ws) > 14 {
		ws = ws[len(ws)-14:]
	}
	return ws
}

func doOne(path string, out *vh.Out) {
	b, err := os.ReadFile(path)
	if err != nil {
		out.Summary(M{"infra_error": err.Error()})
		return
	}
	var c struct {
		Steps []stepT `json:"steps"`
	}
	if err := json.Unmarshal(b, &c); err != nil {
		out.Summary(M{"infra_error": err.Error()})
		return
	}
	rp := &report{out: out, perSig: map[string]int{}}
	replayTask(c.Steps, nil, nconnOf(c.Steps), nil, rp)
	sum := M{"behaviours": 1, "steps": rp.steps, "nontrivial": 0, "mismatch_counts": rp.perSig}
	if rp.infra != "" {
		sum["infra_error"] = rp.infra
	}
	out.Summary(sum)
}

func main() {
	if len(os.Args) < 3 {
		fmt.Fprintln(os.Stderr, "usage: memmodel replay|random|one <file> -cat <dir> ...")
		os.Exit(2)
	}
	mode, path := os.Args[1], os.Args[2]
	fs := flag.NewFlagSet(mode, flag.ExitOnError)
	catDir := fs.String("cat", "/verif/spec/catalogue", "catalogue directory")
	seed := fs.Int64("seed", 1, "seed")
	max := fs.Int("max", 0, "replay: at most this many pure and this many state-changing successors per state (0 = all)")
	traces := fs.Int("traces", 20, "random: number of histories")
	steps := fs.Int("steps", 60, "random: commands per history")
	fs.Parse(os.Args[3:])
	out := vh.NewOut()
	defer out.Flush()
	if err := loadCatalogue(*catDir); err != nil {
		out.Summary(M{"infra_error": "catalogue: " + err.Error()})
		return
	}
	switch mode {
	case "replay":
		doReplay(path, *max, *seed, out)
	case "one":
		doOne(path, out)
	case "random":
		doRandom(path, *seed, *traces, *steps, out)
	case "raw":
		doRaw()
	default:
		out.Summary(M{"infra_error": "unknown mode " + mode})
	}
}

var readTimeout = func() time.Duration {
	if s := os.Getenv("MEMMODEL_TIMEOUT_MS"); s != "" {
		if n, err := strconv.Atoi(s); err == nil {
			return time.Duration(n) * time.Millisecond
		}
	}
	return 20 * time.Second
}()
