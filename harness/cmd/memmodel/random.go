package main

import (
	"bufio"
	"encoding/json"
	"math/rand"
	"os"
	"strings"

	"verif/harness/vh"
)

// Random driver (impl -> spec).  It chooses commands with its own seeded
// randomness, looking only at what a client can see (the last audit: which
// names exist, how many messages each connection sees; the tagged results of
// its own SELECT / CLOSE), and records command + normalised result + audit.
// It never decides whether a result is right: MemModelTrace does.

var pool = []string{"a", "a/b", "a/b/c", "ab", "c", "c/b"} // byte order

var spellings = []string{":Seen", ":SEEN", ":seen", ":Deleted", ":DELETED", ":deleted", ":Flagged", ":fLAGGED",
	":Answered", ":ANSWERED", ":Draft", ":draft", "kw1", "KW1", "Kw1", "kw2", "KW2"}

var flagKeys = []string{"SEEN", "UNSEEN", "DELETED", "UNDELETED", "FLAGGED", "UNFLAGGED", "ANSWERED", "UNANSWERED", "DRAFT", "UNDRAFT"}

type driver struct {
	rng     *rand.Rand
	noPart1 bool // a message without section "1" has been appended somewhere
	exists  map[string]bool
	next    map[string]int
	count   [2]int
	sel     [2]string
	ro      [2]bool
}

func poolCodes() [][]int {
	out := [][]int{}
	for _, n := range pool {
		out = append(out, codes(n))
	}
	return out
}

func under(n, p string) bool { return strings.HasPrefix(n, p+"/") }

func parent(n string) (string, bool) {
	i := strings.LastIndexByte(n, '/')
	if i < 0 {
		return "", false
	}
	return n[:i], true
}

func (d *driver) selected(n string) bool { return d.sel[0] == n || d.sel[1] == n }

func (d *driver) inferiors(n string) []string {
	var out []string
	for _, x := range pool {
		if d.exists[x] && under(x, n) {
			out = append(out, x)
		}
	}
	return out
}

func (d *driver) pickName() string { return pool[d.rng.Intn(len(pool))] }

func (d *driver) flags(max int) []string {
	n := d.rng.Intn(max + 1)
	out := []string{}
	for i := 0; i < n; i++ {
		out = append(out, spellings[d.rng.Intn(len(spellings))])
	}
	return out
}

func (d *driver) seqSet(count int) [][2]int {
	num := func() int {
		if d.rng.Intn(5) == 0 {
			return 0
		}
		return 1 + d.rng.Intn(count)
	}
	out := [][2]int{}
	for i := 0; i < 1+d.rng.Intn(2); i++ {
		a := num()
		b := a
		if d.rng.Intn(2) == 0 {
			b = num()
		}
		out = append(out, [2]int{a, b})
	}
	return out
}

func (d *driver) uidSet(star bool) [][2]int {
	top := 3
	for _, n := range d.next {
		if n > top {
			top = n
		}
	}
	num := func() int {
		if star && d.rng.Intn(6) == 0 {
			return 0
		}
		return 1 + d.rng.Intn(top+1)
	}
	out := [][2]int{}
	for i := 0; i < 1+d.rng.Intn(2); i++ {
		a := num()
		b := a
		if d.rng.Intn(2) == 0 {
			b = num()
		}
		out = append(out, [2]int{a, b})
	}
	return out
}

func (d *driver) atom(count int) key {
	k := key{K: "ALL", Set: [][2]int{}, Sub: []key{}}
	switch d.rng.Intn(14) {
	case 0:
		k.K = "ALL"
	case 1:
		if count >= 1 {
			k.K, k.Set = "SEQ", d.seqSet(count)
		}
	case 2:
		k.K, k.Set = "UID", d.uidSet(d.rng.Intn(3) == 0)
	case 3, 4:
		k.K, k.F = "FLAG", flagKeys[d.rng.Intn(len(flagKeys))]
	case 5:
		k.K, k.F = []string{"KEYWORD", "UNKEYWORD"}[d.rng.Intn(2)], []string{"kw1", "KW1", "Kw1", "kw2", "KW2"}[d.rng.Intn(5)]
	case 6:
		sizes := []int{1, 118, 119, 120, 235, 236, 237, 346, 652, 3006, 3007, 3008, 100000}
		k.K, k.N = []string{"LARGER", "SMALLER"}[d.rng.Intn(2)], sizes[d.rng.Intn(len(sizes))]
	case 7, 8:
		k.K, k.N = []string{"SINCE", "BEFORE", "ON"}[d.rng.Intn(3)], []int{4, 5, 6, 10, 19, 20, 21, 22, 32, 33}[d.rng.Intn(10)]
	case 9:
		k.K, k.N = []string{"SENTSINCE", "SENTBEFORE", "SENTON"}[d.rng.Intn(3)], []int{9, 10, 11, 15, 16, 19, 20, 32, 40, 41}[d.rng.Intn(10)]
	case 10, 11:
		k.K, k.N = "HDR", 1+d.rng.Intn(len(cat.HdrProbes))
	case 12:
		k.K, k.N = "BODY", 1+d.rng.Intn(len(cat.WordProbes))
	case 13:
		k.K, k.N = "TEXT", 1+d.rng.Intn(len(cat.WordProbes))
	}
	return k
}

func (d *driver) keyTree(depth, count int) key {
	if depth == 0 || d.rng.Intn(3) == 0 {
		return d.atom(count)
	}
	if d.rng.Intn(2) == 0 {
		return key{K: "NOT", Set: [][2]int{}, Sub: []key{d.keyTree(depth-1, count)}}
	}
	return key{K: "OR", Set: [][2]int{}, Sub: []key{d.keyTree(depth-1, count), d.keyTree(depth-1, count)}}
}

func (d *driver) pattern() []int {
	alpha := []byte("aabc/%*")
	n := d.rng.Intn(5)
	var p []byte
	for i := 0; i < n; i++ {
		ch := alpha[d.rng.Intn(len(alpha))]
		if i == 0 && ch == '/' {
			ch = '%'
		}
		p = append(p, ch)
	}
	return codes(string(p))
}

// pick returns the next command(s) to issue, all permitted by MemModel!Allowed
// as far as a client can tell.
func (d *driver) pick() []cmdT {
	for tries := 0; tries < 200; tries++ {
		c := cmdT{C: 1 + d.rng.Intn(2), It: item{Peek: true}}
		ci := c.C - 1
		sel := d.sel[ci]
		r := d.rng.Intn(100)
		nexist := 0
		for _, n := range pool {
			if d.exists[n] {
				nexist++
			}
		}
		if nexist < 2 && d.rng.Intn(2) == 0 {
			r = 0 // CREATE
		} else if sel != "" && d.count[ci] < 4 && d.rng.Intn(3) == 0 {
			r = 30 // APPEND (into the selected mailbox half of the time)
		} else if sel != "" && d.rng.Intn(3) != 0 {
			r = 51 + d.rng.Intn(49) // a command of the selected state
		} else if sel == "" && nexist > 0 && d.rng.Intn(4) == 0 {
			r = 42 // SELECT
		}
		switch {
		case r < 7:
			n := d.pickName()
			if p, ok := parent(n); ok && !d.exists[p] {
				continue
			}
			c.Op, c.Name = "CREATE", codes(n)
			if d.rng.Intn(5) == 0 {
				c.Name = codes(n + "/")
			}
		case r < 10:
			n := d.pickName()
			if !d.exists[n] {
				c.Op, c.Name = "DELETE", codes(n)
				break
			}
			if len(d.inferiors(n)) > 0 || d.selected(n) {
				continue
			}
			un := cmdT{Op: "UNSUBSCRIBE", C: c.C, Name: codes(n), It: item{Peek: true}}
			c.Op, c.Name = "DELETE", codes(n)
			return []cmdT{un, c}
		case r < 14:
			old, nw := d.pickName(), d.pickName()
			if nw == old || under(nw, old) {
				continue
			}
			moved := append([]string{old}, d.inferiors(old)...)
			if len(moved) > 1 && d.rng.Intn(4) != 0 {
				continue // renames of a whole subtree are rare (see R5)
			}
			bad := false
			if p, ok := parent(nw); ok {
				if !d.exists[p] {
					bad = true
				}
				for _, m := range moved {
					if m == p {
						bad = true
					}
				}
			}
			for _, m := range moved {
				if d.selected(m) {
					bad = true
				}
				if m != old && d.exists[nw+m[len(old):]] {
					bad = true
				}
			}
			if bad {
				continue
			}
			c.Op, c.Name, c.Name2 = "RENAME", codes(old), codes(nw)
		case r < 18:
			n := d.pickName()
			if !d.exists[n] {
				continue
			}
			c.Op, c.Name = []string{"SUBSCRIBE", "SUBSCRIBE", "UNSUBSCRIBE"}[d.rng.Intn(3)], codes(n)
		case r < 24:
			c.Op = []string{"LIST", "LSUB"}[d.rng.Intn(2)]
			c.Ref = codes([]string{"", "", "a", "a/", "a/b", "c", "x"}[d.rng.Intn(7)])
			c.Pat = d.pattern()
			if c.Op == "LSUB" && len(c.Pat) == 0 {
				continue
			}
		case r < 28:
			c.Op, c.Name = "STATUS", codes(d.pickName())
		case r < 42:
			c.Op, c.Name, c.Cat, c.Fl = "APPEND", codes(d.pickName()), 1+d.rng.Intn(len(cat.Messages)), d.flags(3)
			if c.Cat == 7 {
				d.noPart1 = true // from now on some mailbox may hold a message without section "1"
			}
			if sel != "" && d.rng.Intn(2) == 0 {
				c.Name = codes(sel)
			}
		case r < 49:
			n := d.pickName()
			for i := 0; i < 6 && !d.exists[n] && d.rng.Intn(5) != 0; i++ {
				n = d.pickName()
			}
			c.Op, c.Name = "SELECT", codes(n)
			if d.rng.Intn(8) == 0 {
				c.Op = "EXAMINE"
			}
		case r < 51:
			if sel == "" {
				continue
			}
			c.Op = []string{"CLOSE", "UNSELECT"}[d.rng.Intn(2)]
		default:
			if sel == "" {
				continue
			}
			if d.ro[ci] && d.rng.Intn(10) != 0 && r < 75 {
				continue // writes on a read-only mailbox are rare (see R6)
			}
			count := d.count[ci]
			c.UID = d.rng.Intn(2) == 0
			set := func() bool {
				if c.UID {
					c.Set = d.uidSet(true)
					return true
				}
				if count < 1 {
					return false
				}
				c.Set = d.seqSet(count)
				return true
			}
			switch {
			case r < 62:
				if !set() {
					continue
				}
				c.Op, c.Sop, c.Fl = "STORE", []string{"set", "add", "add", "del", "del"}[d.rng.Intn(5)], d.flags(3)
				c.Silent = d.rng.Intn(5) == 0
			case r < 67:
				if !set() {
					continue
				}
				n := d.pickName()
				if n == sel {
					continue
				}
				c.Op, c.Name = []string{"COPY", "COPY", "MOVE"}[d.rng.Intn(3)], codes(n)
			case r < 71:
				c.UID = false
				c.Op = "EXPUNGE"
			case r < 73:
				c.UID = false
				c.Op, c.Set = "UIDEXPUNGE", d.uidSet(d.rng.Intn(8) == 0)
			case r < 86:
				c.Op = "SEARCH"
				c.Keys = []key{d.keyTree(2, count)}
				if d.rng.Intn(3) == 0 {
					c.Keys = append(c.Keys, d.keyTree(1, count))
				}
			default:
				if !set() {
					continue
				}
				c.Op = "FETCH"
				c.It = item{Flags: d.rng.Intn(2) == 0, Uidi: d.rng.Intn(3) == 0, Size: d.rng.Intn(3) == 0, Date: d.rng.Intn(3) == 0, Peek: d.rng.Intn(4) != 0}
				if d.rng.Intn(4) != 0 {
					// sections every message has (a multipart without parts - entry 7 - has no section "1")
					c.It.Sec = 1 + d.rng.Intn(6)
					if !d.noPart1 && d.rng.Intn(7) == 0 {
						c.It.Sec = 7
					}
					for _, ps := range cat.PartialSections {
						if ps == c.It.Sec && d.rng.Intn(2) == 0 {
							c.It.Pi = 1 + d.rng.Intn(len(cat.Partials))
						}
					}
				} else if !c.It.Flags && !c.It.Uidi && !c.It.Size && !c.It.Date {
					c.It.Flags = true
				}
			}
		}
		return []cmdT{c}
	}
	return []cmdT{{Op: "STATUS", C: 1, Name: codes("a"), It: item{Peek: true}}}
}

func (d *driver) observe(c *cmdT, r M, a M) {
	ci := c.C - 1
	st, _ := r["st"].(string)
	switch c.Op {
	case "SELECT", "EXAMINE":
		d.sel[ci], d.ro[ci] = "", false
		if st == "OK" {
			d.sel[ci], d.ro[ci] = str(c.Name), c.Op == "EXAMINE"
		}
	case "CLOSE", "UNSELECT":
		if st == "OK" {
			d.sel[ci], d.ro[ci] = "", false
		}
	}
	for i, l := range a["sel"].([][]M) {
		if i < 2 {
			d.count[i] = len(l)
		}
	}
	for _, e := range a["st"].([]M) {
		n := str(e["n"].([]int))
		d.exists[n] = e["e"].(bool)
		d.next[n], _ = e["next"].(int)
	}
}

func doRandom(path string, seed int64, traces, steps int, out *vh.Out) {
	fh, err := os.Create(path)
	if err != nil {
		out.Summary(M{"infra_error": err.Error()})
		return
	}
	defer fh.Close()
	bw := bufio.NewWriterSize(fh, 1<<20)
	defer bw.Flush()
	enc := func(v interface{}) {
		b, _ := json.Marshal(v)
		bw.Write(b)
		bw.WriteByte('\n')
	}
	records, lost := 0, 0
	ops := map[string]int{}
	names := poolCodes()
	for t := 0; t < traces; t++ {
		d := &driver{rng: rand.New(rand.NewSource(seed*1000003 + int64(t))), exists: map[string]bool{}, next: map[string]int{}}
		w, err := newWorld(2)
		if err != nil {
			out.Summary(M{"infra_error": err.Error()})
			return
		}
		enc(M{"ev": "Reset"})
		records++
		n := 0
	trace:
		for n < steps {
			for _, c := range d.pick() {
				c := c
				nz(&c)
				r := w.exec(&c)
				a := w.audit(names)
				if w.dead == "TIMEOUT" {
					out.Summary(M{"infra_error": "read timeout talking to the in-process server: " + strings.Join(trimWires(w.wires), " | ")})
					w.close()
					return
				}
				enc(M{"ev": "Step", "cmd": c, "r": r, "audit": a})
				records++
				n++
				ops[c.Op]++
				if w.dead != "" {
					lost++
					break trace
				}
				d.observe(&c, r, a)
			}
		}
		w.close()
	}
	out.Summary(M{"traces": traces, "records": records, "connection_lost": lost, "ops": ops})
}
