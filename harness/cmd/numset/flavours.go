//go:build verifnum

package main

import (
	"fmt"
	"github.com/emersion/go-imap/v2"
	"github.com/emersion/go-imap/v2/verifnum"
)

// The three flavours of the code under test: the internal imapnum.Set and
// the two public wrappers (unsafe casts of the same memory layout).
type flavour interface {
	Name() string
	AddNum(vs ...uint32)
	AddRange(a, b uint32)
	AddSet(t [][2]uint32)
	Ranges() [][2]uint32
	String() string
	Dynamic() bool
	Contains(q uint32) bool
	Nums() ([]uint32, bool)
	// ParseBack parses text with the parser that produces this flavour.
	ParseBack(text string) (flavour, error)
	// Alias checks value semantics against the operand of the latest AddSet (see keeper).
	Alias() string
}

// ---- internal/imapnum.Set ----
type fNum struct {
	s  verifnum.Set
	k  keeper
	nm string
}

func (f *fNum) Name() string {
	if f.nm != "" {
		return f.nm
	}
	return "imapnum.Set"
}
func (f *fNum) AddNum(vs ...uint32)  { f.s.AddNum(vs...) }
func (f *fNum) AddRange(a, b uint32) { f.s.AddRange(a, b) }
func (f *fNum) AddSet(t [][2]uint32) {
	var o verifnum.Set
	for _, r := range t {
		o = append(o, verifnum.Range{Start: r[0], Stop: r[1]})
	}
	f.s.AddSet(o)
	op := &fNum{s: o}
	f.k = keeper{op: op, want: cloneRanges(op.Ranges())}
}
func (f *fNum) Ranges() [][2]uint32 {
	out := make([][2]uint32, len(f.s))
	for i, r := range f.s {
		out[i] = [2]uint32{r.Start, r.Stop}
	}
	return out
}
func (f *fNum) String() string         { return f.s.String() }
func (f *fNum) Dynamic() bool          { return f.s.Dynamic() }
func (f *fNum) Contains(q uint32) bool { return f.s.Contains(q) }
func (f *fNum) Nums() ([]uint32, bool) { return f.s.Nums() }
func (f *fNum) ParseBack(text string) (flavour, error) {
	s, err := verifnum.ParseSet(text)
	if err != nil {
		return nil, err
	}
	return &fNum{s: s}, nil
}

// ---- imap.SeqSet ----
type fSeq struct {
	s  imap.SeqSet
	k  keeper
	nm string
}

func (f *fSeq) Name() string {
	if f.nm != "" {
		return f.nm
	}
	return "imap.SeqSet"
}
func (f *fSeq) AddNum(vs ...uint32)  { f.s.AddNum(vs...) }
func (f *fSeq) AddRange(a, b uint32) { f.s.AddRange(a, b) }
func (f *fSeq) AddSet(t [][2]uint32) {
	var o imap.SeqSet
	for _, r := range t {
		o = append(o, imap.SeqRange{Start: r[0], Stop: r[1]})
	}
	f.s.AddSet(o)
	op := &fSeq{s: o}
	f.k = keeper{op: op, want: cloneRanges(op.Ranges())}
}
func (f *fSeq) Ranges() [][2]uint32 {
	out := make([][2]uint32, len(f.s))
	for i, r := range f.s {
		out[i] = [2]uint32{r.Start, r.Stop}
	}
	return out
}
func (f *fSeq) String() string         { return f.s.String() }
func (f *fSeq) Dynamic() bool          { return f.s.Dynamic() }
func (f *fSeq) Contains(q uint32) bool { return f.s.Contains(q) }
func (f *fSeq) Nums() ([]uint32, bool) { return f.s.Nums() }
func (f *fSeq) ParseBack(text string) (flavour, error) {
	s, err := verifnum.ParseSeqSet(text)
	if err != nil {
		return nil, err
	}
	return &fSeq{s: s}, nil
}

// ---- imap.UIDSet ----
type fUID struct {
	s  imap.UIDSet
	k  keeper
	nm string
}

func (f *fUID) Name() string {
	if f.nm != "" {
		return f.nm
	}
	return "imap.UIDSet"
}
func (f *fUID) AddNum(vs ...uint32) {
	uids := make([]imap.UID, len(vs))
	for i, v := range vs {
		uids[i] = imap.UID(v)
	}
	f.s.AddNum(uids...)
}
func (f *fUID) AddRange(a, b uint32) { f.s.AddRange(imap.UID(a), imap.UID(b)) }
func (f *fUID) AddSet(t [][2]uint32) {
	var o imap.UIDSet
	for _, r := range t {
		o = append(o, imap.UIDRange{Start: imap.UID(r[0]), Stop: imap.UID(r[1])})
	}
	f.s.AddSet(o)
	op := &fUID{s: o}
	f.k = keeper{op: op, want: cloneRanges(op.Ranges())}
}
func (f *fUID) Ranges() [][2]uint32 {
	out := make([][2]uint32, len(f.s))
	for i, r := range f.s {
		out[i] = [2]uint32{uint32(r.Start), uint32(r.Stop)}
	}
	return out
}
func (f *fUID) String() string         { return f.s.String() }
func (f *fUID) Dynamic() bool          { return f.s.Dynamic() }
func (f *fUID) Contains(q uint32) bool { return f.s.Contains(imap.UID(q)) }
func (f *fUID) Nums() ([]uint32, bool) {
	uids, ok := f.s.Nums()
	if uids == nil {
		return nil, ok
	}
	out := make([]uint32, len(uids))
	for i, u := range uids {
		out[i] = uint32(u)
	}
	return out, ok
}
func (f *fUID) ParseBack(text string) (flavour, error) {
	ns, err := verifnum.DecodeNumSet(true, text)
	if err != nil {
		return nil, err
	}
	return &fUID{s: ns.(imap.UIDSet)}, nil
}

// Every flavour starts from the zero value (a nil slice) and from the other two ways an empty set is written down:
// an empty literal and make(T, 0) - non-nil, no capacity.  All are the empty set.
func newFlavours() []flavour {
	return []flavour{&fNum{}, &fSeq{}, &fUID{},
		&fNum{s: verifnum.Set{}, nm: "imapnum.Set{}"}, &fSeq{s: imap.SeqSet{}, nm: "imap.SeqSet{}"}, &fUID{s: imap.UIDSet{}, nm: "imap.UIDSet{}"},
		&fSeq{s: make(imap.SeqSet, 0), nm: "make(imap.SeqSet,0)"}, &fUID{s: make(imap.UIDSet, 0), nm: "make(imap.UIDSet,0)"}}
}

// ---- value semantics ----
// In the specification a number set is a value: AddSet(t) makes the receiver the union and nothing ties
// the two sets together afterwards.  The harness keeps the operand of the latest AddSet of every flavour
// alive, as a caller would, and after every later operation checks that (1) the operand still is what it
// was (operations on the receiver must not write into it) and (2) inserting a number into the operand
// leaves the receiver alone.
type keeper struct {
	op   flavour     // the operand, a live object of the same flavour
	want [][2]uint32 // what it has to be
	n    uint32
}

func eqU32Ranges(a, b [][2]uint32) bool {
	if len(a) != len(b) {
		return false
	}
	for i := range a {
		if a[i] != b[i] {
			return false
		}
	}
	return true
}

func cloneRanges(a [][2]uint32) [][2]uint32 { return append([][2]uint32{}, a...) }

// check returns a description of a violated clause, or "".
func (k *keeper) check(recv flavour) string {
	if k.op == nil {
		return ""
	}
	if got := k.op.Ranges(); !eqU32Ranges(got, k.want) {
		w := k.want
		k.want = cloneRanges(got)
		return fmt.Sprintf("the operand of an earlier AddSet was %v and now reads %v although nothing was inserted into it", w, got)
	}
	before := cloneRanges(recv.Ranges())
	// poke the operand: a number in front, one in the middle, one behind (in turn)
	k.n++
	var v uint32
	switch last := len(k.want); {
	case last == 0:
		v = 5
	case k.n%3 == 0 && k.want[0][0] > 2:
		v = k.want[0][0] - 2
	case k.n%3 == 1 && k.want[last-1][1] != 0 && k.want[last-1][1] < 1<<32-3:
		v = k.want[last-1][1] + 2
	default:
		v = k.want[0][1]/2 + k.want[0][0]/2 + 1
	}
	if v == 0 {
		v = 1
	}
	k.op.AddNum(v)
	k.want = cloneRanges(k.op.Ranges())
	if after := recv.Ranges(); !eqU32Ranges(before, after) {
		return fmt.Sprintf("inserting %d into the operand of an earlier AddSet changed the receiver from %v to %v", v, before, after)
	}
	return ""
}

func (f *fNum) Alias() string { return f.k.check(f) }
func (f *fSeq) Alias() string { return f.k.check(f) }
func (f *fUID) Alias() string { return f.k.check(f) }

// parsePaths: every way the library turns sequence-set text into a set.
type parsePath struct {
	name    string
	decoder bool // goes through the wire decoder (stops at the first non-set character)
	parse   func(text string) (flavour, error)
}

func parsePaths() []parsePath {
	return []parsePath{
		{"imapnum.ParseSet", false, (&fNum{}).ParseBack},
		{"imapwire.ParseSeqSet", false, (&fSeq{}).ParseBack},
		{"Decoder.ExpectNumSet(seq)", true, func(text string) (flavour, error) {
			ns, err := verifnum.DecodeNumSet(false, text)
			if err != nil {
				return nil, err
			}
			return &fSeq{s: ns.(imap.SeqSet)}, nil
		}},
		{"Decoder.ExpectNumSet(uid)", true, (&fUID{}).ParseBack},
	}
}
