//go:build verifnum

// Command numset binds spec/NumSet.tla to go-imap's number sets (property
// C15): internal/imapnum.Set and the public imap.SeqSet / imap.UIDSet.
//
//	numset replay <tlc-output> <side.ndjson>   replay every TLC-generated behaviour / parse vector,
//	                                           compare with the predicted observation after every op;
//	                                           behaviours that differ from the prediction in anything
//	                                           but Nums() are recorded to <side.ndjson> for the judge
//	numset one <payload.json> <side.ndjson>    the same for one behaviour / vector (replay files)
//	numset random <out.ndjson>                 random op sequences and texts over a denser domain,
//	                                           recorded for NumSetTrace
//	numset rerun <in.ndjson> <out.ndjson>      re-execute the inputs of a recorded trace
//	numset child                               (internal) Nums() under a time and memory limit
//
// The harness has no oracle: it translates between symbolic points and real
// numbers (domain.go), tokenises text, and compares with what TLC printed.
// Build: needs the verifnum bridge package injected with -overlay and the
// build tag verifnum (checks/c15.py does both).
package main

import (
	"bufio"
	"bytes"
	"context"
	"encoding/json"
	"flag"
	"fmt"
	"math/rand"
	"os"
	"os/exec"
	"sort"
	"strings"
	"sync"
	"sync/atomic"
	"syscall"
	"time"

	"verif/harness/vh"
)

// ---------------------------------------------------------------- records

type altT struct {
	L [][2]int `json:"l"`
	S []int    `json:"s"`
}

type expT struct {
	Ranges [][2]int `json:"ranges"`
	Alts   []altT   `json:"alts"`
	Dyn    bool     `json:"dyn"`
	Con    []int    `json:"con"`
	Small  bool     `json:"small"`
	Nums   []int    `json:"nums"`
	Top    bool     `json:"top"`
	Rt     bool     `json:"rt"`
}

// one step of a TLC-generated behaviour (symbolic)
type stepT struct {
	Op  string   `json:"op"`
	X   int      `json:"x"`
	Y   int      `json:"y"`
	T   [][2]int `json:"t"`
	Exp *expT    `json:"exp,omitempty"`
}

type pvecT struct {
	Toks   []int    `json:"toks"`
	Ok     bool     `json:"ok"`
	Ranges [][2]int `json:"ranges"`
	Alts   []altT   `json:"alts"`
	Dyn    bool     `json:"dyn"`
	Con    []int    `json:"con"`
}

type payloadT struct {
	Max  int     `json:"max"`
	Gaps []int   `json:"gaps"`
	H    []stepT `json:"h,omitempty"`
	P    *pvecT  `json:"p,omitempty"`
}

// an operation in symbolic form (0 = '*')
type opT struct {
	Kind string
	Vs   []int
	X, Y int
	T    [][2]int
}

type numsObs struct {
	Called   bool   `json:"called"`
	Returned bool   `json:"returned"`
	Ok       bool   `json:"ok"`
	Vals     []int  `json:"vals"`
	Why      string `json:"why"`
}

type rtObs struct {
	Ok     bool     `json:"ok"`
	Ranges [][2]int `json:"ranges"`
}

// what one flavour shows after an op (symbolic, plus the raw text)
type obsT struct {
	F      string   `json:"f"`
	Ranges [][2]int `json:"ranges"`
	Str    []int    `json:"str"`
	Text   string   `json:"text"`
	Dyn    bool     `json:"dyn"`
	Con    []int    `json:"con"`
	C0     int      `json:"c0"`
	Rt     rtObs    `json:"rt"`
	Nums   numsObs  `json:"nums"`
}

type parseObs struct {
	F      string   `json:"f"`
	Ok     bool     `json:"ok"`
	Ranges [][2]int `json:"ranges"`
	Dyn    bool     `json:"dyn"`
	Con    []int    `json:"con"`
}

func domainRec(d *domain) map[string]interface{} {
	gaps := d.gaps
	if gaps == nil {
		gaps = []int{}
	}
	return map[string]interface{}{"ev": "Domain", "max": d.max, "gaps": gaps, "blocks": d.blocksString()}
}

// groupObs merges flavours whose observations are identical into one entry
// (f lists their names): the recorded file stays small, nothing is judged here.
func groupObs(obs []obsT) []obsT {
	var out []obsT
	var keys []string
	for _, o := range obs {
		name := o.F
		o.F = ""
		b, _ := json.Marshal(o)
		found := false
		for i, k := range keys {
			if k == string(b) {
				out[i].F += "+" + name
				found = true
			}
		}
		if !found {
			o.F = name
			out = append(out, o)
			keys = append(keys, string(b))
		}
	}
	return out
}

func opRec(o opT, obs []obsT) map[string]interface{} {
	m := map[string]interface{}{"ev": o.Kind, "obs": groupObs(obs)}
	switch o.Kind {
	case "AddNum":
		m["vs"] = o.Vs
	case "AddRange":
		m["x"], m["y"] = o.X, o.Y
	case "AddSet":
		t := o.T
		if t == nil {
			t = [][2]int{}
		}
		m["t"] = t
	}
	return m
}

// ---------------------------------------------------------------- driving the real code

func apply(d *domain, f flavour, o opT) error {
	switch o.Kind {
	case "AddNum":
		vs := make([]uint32, len(o.Vs))
		for i, v := range o.Vs {
			r, err := d.toReal(v)
			if err != nil {
				return err
			}
			vs[i] = r
		}
		f.AddNum(vs...)
	case "AddRange":
		a, err := d.toReal(o.X)
		if err != nil {
			return err
		}
		b, err := d.toReal(o.Y)
		if err != nil {
			return err
		}
		f.AddRange(a, b)
	case "AddSet":
		t := make([][2]uint32, len(o.T))
		for i, r := range o.T {
			a, err := d.toReal(r[0])
			if err != nil {
				return err
			}
			b, err := d.toReal(r[1])
			if err != nil {
				return err
			}
			t[i] = [2]uint32{a, b}
		}
		f.AddSet(t)
	default:
		return fmt.Errorf("unknown op %q", o.Kind)
	}
	return nil
}

func containsTable(d *domain, contains func(uint32) bool) []int {
	con := make([]int, d.max)
	for p := 1; p <= d.max; p++ {
		yes, no := 0, 0
		for _, q := range d.probes[p] {
			if contains(q) {
				yes++
			} else {
				no++
			}
		}
		switch {
		case no == 0:
			con[p-1] = 1
		case yes == 0:
			con[p-1] = 0
		default:
			con[p-1] = 2 // probes inside one gap block disagree
		}
	}
	return con
}

// observe reads everything but Nums() off one flavour.
// aliasOut receives violations of value semantics (see keeper in flavours.go)
var (
	aliasMu  sync.Mutex
	aliasN   = map[string]int{}
	aliasOut *vh.Out
)

func observe(d *domain, f flavour) obsT {
	if a := f.Alias(); a != "" {
		sig := "alias/" + f.Name()
		aliasMu.Lock()
		aliasN[sig]++
		n := aliasN[sig]
		aliasMu.Unlock()
		if n <= 3 && aliasOut != nil {
			aliasOut.Mismatch(sig, "value semantics: "+a, nil)
		}
	}
	o := obsT{F: f.Name()}
	o.Ranges = d.symRanges(f.Ranges())
	o.Text = f.String()
	o.Str = d.lex(o.Text)
	o.Dyn = f.Dynamic()
	o.Con = containsTable(d, f.Contains)
	if f.Contains(0) {
		o.C0 = 1
	}
	o.Rt.Ranges = [][2]int{}
	if back, err := f.ParseBack(o.Text); err == nil {
		o.Rt.Ok = true
		o.Rt.Ranges = d.symRanges(back.Ranges())
	}
	o.Nums.Vals = []int{}
	return o
}

// looksSmallStatic decides from the REAL list whether Nums() is called in
// recording mode (the judge checks the decision against the specification).
func looksSmallStatic(rs [][2]uint32) bool {
	var n uint64
	for _, r := range rs {
		if r[0] == 0 || r[1] == 0 || r[1] < r[0] {
			return false
		}
		n += uint64(r[1]) - uint64(r[0]) + 1
		if n > 16 {
			return false
		}
	}
	return true
}

// ---------------------------------------------------------------- Nums() in a child process

const (
	childTimeout  = 2 * time.Second
	childMemLimit = 32 << 20
	childASLimit  = 4 << 30 // address space backstop (the Go runtime itself maps a few hundred MiB)
	exitMemLimit  = 97
)

type childIn struct {
	Blocks  string `json:"blocks"`
	Flavour int    `json:"flavour"`
	Ops     []opT  `json:"ops"`
}

type childLine struct {
	F    string `json:"f"`
	Ok   bool   `json:"ok"`
	Vals []int  `json:"vals"`
	N    int    `json:"n"`
}

func cmdChild() {
	var in childIn
	if err := json.NewDecoder(os.Stdin).Decode(&in); err != nil {
		fmt.Fprintln(os.Stderr, "child: bad input:", err)
		os.Exit(3)
	}
	d, err := parseBlocks(in.Blocks)
	if err != nil {
		fmt.Fprintln(os.Stderr, "child:", err)
		os.Exit(3)
	}
	// hard limit on the address space: a runaway Nums() dies with "out of
	// memory" instead of filling the machine; the watchdog below usually
	// stops it earlier
	lim := syscall.Rlimit{Cur: childASLimit, Max: childASLimit}
	if err := syscall.Setrlimit(syscall.RLIMIT_AS, &lim); err != nil {
		fmt.Fprintln(os.Stderr, "child: setrlimit:", err)
		os.Exit(3)
	}
	go func() { // memory watchdog on the resident set (no stop-the-world needed)
		page := uint64(os.Getpagesize())
		for {
			time.Sleep(time.Millisecond)
			b, err := os.ReadFile("/proc/self/statm")
			if err != nil {
				continue
			}
			var size, rss uint64
			fmt.Sscanf(string(b), "%d %d", &size, &rss)
			if rss*page > childMemLimit {
				os.Exit(exitMemLimit)
			}
		}
	}()
	w := bufio.NewWriter(os.Stdout)
	fls := newFlavours()
	if in.Flavour < 0 || in.Flavour >= len(fls) {
		fmt.Fprintln(os.Stderr, "child: bad flavour")
		os.Exit(3)
	}
	f := fls[in.Flavour]
	for _, o := range in.Ops {
		if err := apply(d, f, o); err != nil {
			fmt.Fprintln(os.Stderr, "child:", err)
			os.Exit(3)
		}
	}
	// everything up to here is set-up; from the marker on only Nums() runs
	w.WriteString("{\"started\":true}\n")
	w.Flush()
	nums, ok := f.Nums()
	line := childLine{F: f.Name(), Ok: ok, N: len(nums), Vals: []int{}}
	for i, n := range nums {
		if i >= 64 {
			break
		}
		line.Vals = append(line.Vals, d.toSym(n))
	}
	b, _ := json.Marshal(line)
	w.Write(b)
	w.WriteByte('\n')
	w.Flush()
}

type numsRunner struct {
	numsOf  int // Nums() is run on one of numsOf states, chosen by a hash of the range list (1: all)
	wrapOf  int // the two public wrappers are run on one of wrapOf states (1: all)
	self    string
	sem     chan struct{}
	mu      sync.Mutex
	memo    map[string]*numsEntry
	Runs    int64
	NoRet   int64
	infraMu sync.Mutex
	infra   string
}

type numsEntry struct {
	once sync.Once
	res  []numsObs
}

func newNumsRunner() *numsRunner {
	self, err := os.Executable()
	if err != nil {
		self = os.Args[0]
	}
	return &numsRunner{self: self, sem: make(chan struct{}, 16), memo: map[string]*numsEntry{}, numsOf: 1, wrapOf: 1}
}

// nums returns, per flavour, what Nums() did on the set built by ops.  The
// result is memoised by the real range list (Nums is a function of it).
func (nr *numsRunner) nums(d *domain, key string, ops []opT) []numsObs {
	nr.mu.Lock()
	e := nr.memo[key]
	if e == nil {
		e = &numsEntry{}
		nr.memo[key] = e
	}
	nr.mu.Unlock()
	e.once.Do(func() { e.res = nr.run(d, key, ops) })
	return e.res
}

func (nr *numsRunner) run(d *domain, key string, ops []opT) []numsObs {
	nr.sem <- struct{}{}
	defer func() { <-nr.sem }()
	h := 0
	for _, c := range key {
		h = (h*31 + int(c)) & 0xffff
	}
	var res []numsObs
	for fi := range newFlavours() {
		if h%nr.numsOf != 0 || (fi > 0 && (h/nr.numsOf)%nr.wrapOf != 0) {
			res = append(res, numsObs{Vals: []int{}})
			continue
		}
		// A run that exceeds the memory limit is a runaway whatever the load of the
		// machine; a run that only exceeds the time limit is repeated with 4 s and
		// 8 s before "did not return" is recorded (a starved child is not a finding).
		var o numsObs
		for _, limit := range []time.Duration{childTimeout, 2 * childTimeout, 4 * childTimeout} {
			var reason string
			o, reason = nr.runOne(d, ops, fi, limit)
			if !o.Called {
				continue // the child never reached Nums() (slow start on a loaded machine): not an observation
			}
			if o.Returned || reason != "time" {
				break
			}
		}
		if !o.Called {
			nr.infraMu.Lock()
			nr.infra = "nums child did not reach Nums() in three attempts: " + o.Why
			nr.infraMu.Unlock()
		}
		if o.Called && !o.Returned {
			atomic.AddInt64(&nr.NoRet, 1)
		}
		res = append(res, o)
	}
	return res
}

// runOne calls Nums() of one flavour in a child process of its own.
func (nr *numsRunner) runOne(d *domain, ops []opT, fi int, limit time.Duration) (numsObs, string) {
	atomic.AddInt64(&nr.Runs, 1)
	in, _ := json.Marshal(childIn{Blocks: d.blocksString(), Flavour: fi, Ops: ops})
	ctx, cancel := context.WithTimeout(context.Background(), limit)
	defer cancel()
	cmd := exec.CommandContext(ctx, nr.self, "child")
	cmd.Env = append(os.Environ(), "GOMAXPROCS=2", "GOGC=off")
	cmd.Stdin = bytes.NewReader(in)
	var stdout, stderr bytes.Buffer
	cmd.Stdout, cmd.Stderr = &stdout, &stderr
	err := cmd.Run()
	why, reason := "", ""
	if err != nil {
		switch {
		case cmd.ProcessState != nil && cmd.ProcessState.ExitCode() == exitMemLimit,
			strings.Contains(stderr.String(), "cannot allocate memory"), strings.Contains(stderr.String(), "out of memory"):
			why, reason = "no result: stopped by the time / memory limit", "mem"
		case ctx.Err() == context.DeadlineExceeded:
			why, reason = "no result: stopped by the time / memory limit", "time"
		default:
			tail := stderr.String()
			if len(tail) > 300 {
				tail = tail[:300]
			}
			why, reason = "child died: "+err.Error()+" "+strings.TrimSpace(tail), "died"
		}
	}
	o := numsObs{Vals: []int{}, Why: why}
	sc := bufio.NewScanner(&stdout)
	sc.Buffer(make([]byte, 1<<16), 1<<24)
	for sc.Scan() {
		if strings.Contains(sc.Text(), `"started"`) {
			o.Called = true
			continue
		}
		var l childLine
		if json.Unmarshal(sc.Bytes(), &l) == nil && l.F != "" {
			o.Returned, o.Ok, o.Vals, o.Why = true, l.Ok, l.Vals, ""
			if l.N > len(l.Vals) {
				o.Why = fmt.Sprintf("returned %d numbers, first %d kept", l.N, len(l.Vals))
			}
		}
	}
	if o.Called && !o.Returned && o.Why == "" {
		o.Why = "child ended without a result"
	}
	return o, reason
}

func rangesKey(rs [][2]uint32) string {
	var sb strings.Builder
	for _, r := range rs {
		fmt.Fprintf(&sb, "%d-%d,", r[0], r[1])
	}
	return sb.String()
}

// ---------------------------------------------------------------- comparison with the prediction

func eqRanges(a, b [][2]int) bool {
	if len(a) != len(b) {
		return false
	}
	for i := range a {
		if a[i] != b[i] {
			return false
		}
	}
	return true
}

func eqInts(a, b []int) bool {
	if len(a) != len(b) {
		return false
	}
	for i := range a {
		if a[i] != b[i] {
			return false
		}
	}
	return true
}

// stepVerdict compares one flavour's observation with the prediction.
// differs: something other than Nums() is not exactly as predicted (the
// judge decides whether that is within what the statement allows);
// numsSig: Nums() disagrees with the specification.
func stepVerdict(exp *expT, o obsT) (differs string, altHit bool, numsSig string) {
	var alt *altT
	for i := range exp.Alts {
		if eqRanges(exp.Alts[i].L, o.Ranges) {
			alt = &exp.Alts[i]
		}
	}
	switch {
	case alt == nil:
		differs = "ranges"
	case !eqRanges(exp.Ranges, o.Ranges):
		altHit = true
	}
	if differs == "" && !eqInts(alt.S, o.Str) {
		differs = "string"
	}
	if differs == "" && o.Dyn != exp.Dyn {
		differs = "dynamic"
	}
	if differs == "" && !eqInts(o.Con, exp.Con) {
		differs = "contains"
	}
	if differs == "" && o.C0 != 0 {
		differs = "contains-zero"
	}
	if differs == "" && exp.Rt && !(o.Rt.Ok && eqRanges(o.Rt.Ranges, o.Ranges)) {
		differs = "roundtrip"
	}
	if exp.Small && o.Nums.Called {
		switch {
		case !o.Nums.Returned && exp.Top:
			numsSig = "nums-nonterminating/stop=2^32-1"
		case !o.Nums.Returned:
			numsSig = "nums-nonterminating/other"
		case !o.Nums.Ok || !eqInts(o.Nums.Vals, exp.Nums) || o.Nums.Why != "":
			numsSig = "nums-wrong"
		}
	}
	return
}

type stats struct {
	behaviours, steps, nontrivial, vectors, validVectors int64
	altHits, divergent, numsBad, prefixOff               int64
	mu                                                   sync.Mutex
	perSig                                               map[string]int
	samples                                              []interface{}
	side                                                 *sideFile
}

type sideFile struct {
	mu   sync.Mutex
	w    *bufio.Writer
	fh   *os.File
	n    int
	head bool
}

func newSide(path string) (*sideFile, error) {
	fh, err := os.Create(path)
	if err != nil {
		return nil, err
	}
	return &sideFile{fh: fh, w: bufio.NewWriter(fh)}, nil
}

// add records one divergent case (at most 300 are kept).
func (s *sideFile) add(d *domain, recs []map[string]interface{}) {
	s.mu.Lock()
	defer s.mu.Unlock()
	if s.n >= 300 {
		return
	}
	s.n++
	enc := json.NewEncoder(s.w)
	if !s.head {
		enc.Encode(domainRec(d))
		s.head = true
	}
	for _, r := range recs {
		enc.Encode(r)
	}
}

func (s *sideFile) close() { s.w.Flush(); s.fh.Close() }

func (st *stats) emit(out *vh.Out, sig, detail string, replay interface{}) {
	st.mu.Lock()
	st.perSig[sig]++
	n := st.perSig[sig]
	st.mu.Unlock()
	if n <= 4 {
		out.Mismatch(sig, detail, replay)
	}
}

func stepOp(s stepT) opT {
	o := opT{Kind: s.Op, X: s.X, Y: s.Y, T: s.T}
	if s.Op == "AddNum" {
		o.Vs = []int{s.X}
	}
	return o
}

func describe(d *domain, ops []opT) string {
	var parts []string
	num := func(p int) string {
		if p == 0 {
			return "*"
		}
		r, err := d.toReal(p)
		if err != nil {
			return fmt.Sprintf("?%d", p)
		}
		return fmt.Sprint(r)
	}
	for _, o := range ops {
		switch o.Kind {
		case "AddNum":
			var vs []string
			for _, v := range o.Vs {
				vs = append(vs, num(v))
			}
			parts = append(parts, "AddNum("+strings.Join(vs, ",")+")")
		case "AddRange":
			parts = append(parts, "AddRange("+num(o.X)+","+num(o.Y)+")")
		case "AddSet":
			var rs []string
			for _, r := range o.T {
				rs = append(rs, num(r[0])+":"+num(r[1]))
			}
			parts = append(parts, "AddSet{"+strings.Join(rs, " ")+"}")
		}
	}
	return strings.Join(parts, "; ")
}

// runBehaviour replays one TLC behaviour on the three flavours.
func runBehaviour(d *domain, p *payloadT, nr *numsRunner, st *stats, out *vh.Out) error {
	fls := newFlavours()
	var ops []opT
	var recs []map[string]interface{}
	recs = append(recs, map[string]interface{}{"ev": "Reset"})
	divergedAt, why := -1, ""
	for i, s := range p.H {
		if s.Exp == nil {
			return fmt.Errorf("step %d without prediction", i)
		}
		o := stepOp(s)
		ops = append(ops, o)
		before := len(fls[0].Ranges())
		var obs []obsT
		for _, f := range fls {
			if err := apply(d, f, o); err != nil {
				return err
			}
			obs = append(obs, observe(d, f))
		}
		if s.Exp.Small {
			res := nr.nums(d, rangesKey(fls[0].Ranges()), ops)
			for k := range obs {
				obs[k].Nums = res[k]
			}
		}
		recs = append(recs, opRec(o, obs))
		atomic.AddInt64(&st.steps, 1)
		last := i == len(p.H)-1
		prefixOff := false
		for k := range obs {
			differs, alt, numsSig := stepVerdict(s.Exp, obs[k])
			if !last {
				// a step of the prefix is the last step of another printed behaviour and is
				// reported there; here it only tells that going on is pointless
				if differs != "" {
					prefixOff = true
				}
				continue
			}
			if alt {
				atomic.AddInt64(&st.altHits, 1)
			}
			if differs != "" && divergedAt < 0 {
				divergedAt, why = i, differs+" of "+obs[k].F
			}
			if numsSig != "" {
				atomic.AddInt64(&st.numsBad, 1)
				st.emit(out, numsSig, fmt.Sprintf("%s: after %s the set is %q; Nums() must return %v (as points) but: returned=%v ok=%v vals=%v %s",
					obs[k].F, describe(d, ops), obs[k].Text, s.Exp.Nums, obs[k].Nums.Returned, obs[k].Nums.Ok, obs[k].Nums.Vals, obs[k].Nums.Why), p)
			}
		}
		if prefixOff {
			atomic.AddInt64(&st.prefixOff, 1)
			break
		}
		if i == len(p.H)-1 {
			after := len(fls[0].Ranges())
			// boundary numbers (2^32-2, 2^32-1) or '*' among the arguments
			top := false
			args := flat(s.T)
			switch s.Op {
			case "AddNum":
				args = append(args, s.X)
			case "AddRange":
				args = append(args, s.X, s.Y)
			}
			for _, v := range args {
				if v == 0 || v >= d.max-1 {
					top = true
				}
			}
			if (before > 0 && after <= before) || top {
				atomic.AddInt64(&st.nontrivial, 1)
			}
		}
		if divergedAt >= 0 {
			break
		}
	}
	atomic.AddInt64(&st.behaviours, 1)
	if divergedAt >= 0 {
		atomic.AddInt64(&st.divergent, 1)
		recs[0]["why"] = why
		pre := *p
		pre.H = p.H[:divergedAt+1]
		recs[0]["payload"] = pre
		st.side.add(d, recs)
	}
	st.mu.Lock()
	if len(st.samples) < 3 && len(p.H) >= 3 {
		last := p.H[len(p.H)-1].Exp
		txt, _ := d.render(last.Alts[0].S, nil)
		st.samples = append(st.samples, map[string]interface{}{"ops": describe(d, ops), "set": txt})
	}
	st.mu.Unlock()
	return nil
}

func flat(t [][2]int) []int {
	var out []int
	for _, r := range t {
		out = append(out, r[0], r[1])
	}
	return out
}

// parseObserve runs every parse path on text.
func parseObserve(d *domain, text string, withDecoder bool) []parseObs {
	var res []parseObs
	for _, pp := range parsePaths() {
		if pp.decoder && !withDecoder {
			continue
		}
		po := parseObs{F: pp.name, Ranges: [][2]int{}, Con: []int{}}
		if f, err := pp.parse(text); err == nil {
			po.Ok = true
			po.Ranges = d.symRanges(f.Ranges())
			po.Dyn = f.Dynamic()
			po.Con = containsTable(d, f.Contains)
		}
		res = append(res, po)
	}
	return res
}

func hasJunk(toks []int) bool {
	for _, t := range toks {
		if t == tokJunk {
			return true
		}
	}
	return false
}

func runVector(d *domain, p *payloadT, st *stats) error {
	v := p.P
	text, err := d.render(v.Toks, nil)
	if err != nil {
		return err
	}
	res := parseObserve(d, text, !hasJunk(v.Toks))
	atomic.AddInt64(&st.vectors, 1)
	if v.Ok {
		atomic.AddInt64(&st.validVectors, 1)
	}
	why := ""
	for _, r := range res {
		switch {
		case r.Ok != v.Ok:
			why = fmt.Sprintf("%s: verdict %v, predicted %v", r.F, r.Ok, v.Ok)
		case v.Ok:
			inAlts := false
			for _, a := range v.Alts {
				if eqRanges(a.L, r.Ranges) {
					inAlts = true
				}
			}
			if !inAlts || r.Dyn != v.Dyn || !eqInts(r.Con, v.Con) {
				why = r.F + ": value differs from prediction"
			}
		}
		if why != "" {
			break
		}
	}
	if why != "" {
		atomic.AddInt64(&st.divergent, 1)
		toks := v.Toks
		if toks == nil {
			toks = []int{}
		}
		st.side.add(d, []map[string]interface{}{{"ev": "Parse", "toks": toks, "text": text, "res": res, "why": why, "payload": p}})
	}
	st.mu.Lock()
	if v.Ok && len(v.Toks) >= 5 && len(st.samples) < 5 && st.validVectors%50 == 0 {
		st.samples = append(st.samples, map[string]interface{}{"text": text, "valid": true})
	}
	st.mu.Unlock()
	return nil
}

func runPayloads(payloads <-chan []byte, workers int, nr *numsRunner, st *stats, out *vh.Out) string {
	var wg sync.WaitGroup
	var infraMu sync.Mutex
	infra := ""
	domains := sync.Map{}
	for w := 0; w < workers; w++ {
		wg.Add(1)
		go func() {
			defer wg.Done()
			for b := range payloads {
				var p payloadT
				if err := json.Unmarshal(b, &p); err != nil {
					infraMu.Lock()
					infra = "bad payload: " + err.Error()
					infraMu.Unlock()
					continue
				}
				key := fmt.Sprint(p.Max, p.Gaps)
				dv, ok := domains.Load(key)
				if !ok {
					d, err := domainFor(p.Max, p.Gaps)
					if err != nil {
						infraMu.Lock()
						infra = "domain: " + err.Error()
						infraMu.Unlock()
						continue
					}
					dv, _ = domains.LoadOrStore(key, d)
				}
				d := dv.(*domain)
				var err error
				if p.P != nil {
					err = runVector(d, &p, st)
				} else {
					err = runBehaviour(d, &p, nr, st, out)
				}
				if err != nil {
					infraMu.Lock()
					infra = err.Error()
					infraMu.Unlock()
				}
			}
		}()
	}
	wg.Wait()
	return infra
}

func finishReplay(st *stats, nr *numsRunner, out *vh.Out, infra string) {
	st.side.close()
	sum := map[string]interface{}{
		"behaviours": st.behaviours, "steps": st.steps, "nontrivial": st.nontrivial,
		"vectors": st.vectors, "valid_vectors": st.validVectors,
		"alt_canonical_hits": st.altHits, "divergent": st.divergent, "divergent_recorded": st.side.n,
		"nums_bad_steps": st.numsBad, "stopped_in_prefix": st.prefixOff, "nums_children": nr.Runs, "nums_children_without_result": nr.NoRet,
		"per_sig": st.perSig, "samples": st.samples,
	}
	if infra == "" {
		infra = nr.infra
	}
	if infra != "" {
		sum["infra_error"] = infra
	}
	out.Summary(sum)
	out.Flush()
}

func cmdReplay(path, side string, workers int, numsOf, wrapOf int) {
	out := vh.NewOut()
	aliasOut = out
	nr := newNumsRunner()
	nr.numsOf, nr.wrapOf = numsOf, wrapOf
	sf, err := newSide(side)
	if err != nil {
		out.Summary(map[string]interface{}{"infra_error": err.Error()})
		out.Flush()
		return
	}
	st := &stats{perSig: map[string]int{}, side: sf}
	ch := make(chan []byte, 1024)
	var rerr error
	go func() {
		rerr = vh.ReadTLines(path, func(b []byte) error {
			c := make([]byte, len(b))
			copy(c, b)
			ch <- c
			return nil
		})
		close(ch)
	}()
	infra := runPayloads(ch, workers, nr, st, out)
	if rerr != nil && infra == "" {
		infra = rerr.Error()
	}
	finishReplay(st, nr, out, infra)
}

func cmdOne(path, side string) {
	out := vh.NewOut()
	aliasOut = out
	nr := newNumsRunner()
	sf, err := newSide(side)
	if err != nil {
		out.Summary(map[string]interface{}{"infra_error": err.Error()})
		out.Flush()
		return
	}
	st := &stats{perSig: map[string]int{}, side: sf}
	b, err := os.ReadFile(path)
	infra := ""
	if err != nil {
		infra = err.Error()
	} else {
		ch := make(chan []byte, 1)
		ch <- b
		close(ch)
		infra = runPayloads(ch, 1, nr, st, out)
	}
	finishReplay(st, nr, out, infra)
}

// ---------------------------------------------------------------- recording mode (impl -> spec)

const randomBlocks = "1-10,100-102,65535-65537,2147483647-2147483649,4294967291-4294967295"

type gen struct {
	rng  *rand.Rand
	d    *domain
	pool []int // indices into d.ends this trace draws from
	last int   // index into d.ends of the previous pick
	wide bool  // dense profile: long ranges, '*', anything
}

func (g *gen) end() int {
	n := len(g.d.ends)
	var i int
	switch r := g.rng.Intn(100); {
	case !g.wide:
		i = g.pool[g.rng.Intn(len(g.pool))]
	case r < 40: // next to the previous pick: adjacency is where merging happens
		i = g.last + g.rng.Intn(5) - 2
	case r < 65: // the uint32 boundary block
		i = n - 1 - g.rng.Intn(5)
	default:
		i = g.rng.Intn(n)
	}
	if i < 0 {
		i = 0
	}
	if i >= n {
		i = n - 1
	}
	g.last = i
	return i
}

func (g *gen) arg() int {
	if g.wide && g.rng.Intn(100) < 12 {
		return 0
	}
	return g.d.ends[g.end()]
}

// canonical builds a random number set in canonical form (the argument of AddSet).
func (g *gen) canonical() [][2]int {
	k := g.rng.Intn(5)
	idx := map[int]bool{}
	for i := 0; i < 2*k; i++ {
		idx[g.end()] = true
	}
	var pts []int
	for i := range idx {
		pts = append(pts, g.d.ends[i])
	}
	sort.Ints(pts)
	t := [][2]int{}
	for i := 0; i < len(pts); i++ {
		a, b := pts[i], pts[i]
		if i+1 < len(pts) && g.rng.Intn(2) == 0 && (g.wide || pts[i+1]-pts[i] <= 2) {
			b = pts[i+1]
			i++
		}
		if !g.wide { // sparse profile: never across a gap point
			for p := a; p <= b; p++ {
				if g.d.isGap[p] {
					b = a
				}
			}
		}
		if len(t) > 0 && a <= t[len(t)-1][1]+1 {
			continue // would touch the previous range
		}
		t = append(t, [2]int{a, b})
	}
	if g.wide {
		switch r := g.rng.Intn(100); {
		case r < 12:
			t = append(t, [2]int{0, 0})
		case r < 24 && len(t) > 0:
			t[len(t)-1][1] = 0
		}
	}
	return t
}

func (g *gen) op() opT {
	switch r := g.rng.Intn(100); {
	case r < 35:
		o := opT{Kind: "AddNum"}
		for i, n := 0, 1+g.rng.Intn(3); i < n; i++ {
			o.Vs = append(o.Vs, g.arg())
		}
		return o
	case r < 80:
		x := g.arg()
		y := g.arg()
		if !g.wide && x != 0 && y != 0 {
			// sparse profile: short ranges that do not cross a gap
			lo, hi := x, y
			if lo > hi {
				lo, hi = hi, lo
			}
			for p := lo; p <= hi; p++ {
				if g.d.isGap[p] || hi-lo > 2 {
					y = x
					break
				}
			}
		}
		return opT{Kind: "AddRange", X: x, Y: y}
	default:
		return opT{Kind: "AddSet", T: g.canonical()}
	}
}

func (g *gen) val() int {
	if g.rng.Intn(100) < 15 {
		return 0
	}
	return g.d.ends[g.end()]
}

func (g *gen) validText() []int {
	var toks []int
	n := 1 + g.rng.Intn(5)
	if g.rng.Intn(10) == 0 {
		n = 28 + g.rng.Intn(24) // a long list (unsorted, with repetitions): whatever a parser does differently for those
	}
	for i := 0; i < n; i++ {
		if i > 0 {
			toks = append(toks, tokComma)
		}
		toks = append(toks, g.val())
		if g.rng.Intn(2) == 0 {
			toks = append(toks, tokColon, g.val())
		}
	}
	return toks
}

func (g *gen) anyTok() int {
	switch r := g.rng.Intn(100); {
	case r < 30:
		return g.val()
	case r < 45:
		return tokComma
	case r < 60:
		return tokColon
	case r < 70:
		return tokZero
	case r < 80:
		return tokLZ
	case r < 90:
		return tokBig
	default:
		return tokJunk
	}
}

func (g *gen) text() []int {
	var toks []int
	switch r := g.rng.Intn(100); {
	case r < 40:
		toks = g.validText()
	case r < 80: // a valid text with one or two edits
		toks = g.validText()
		for i, n := 0, 1+g.rng.Intn(2); i < n; i++ {
			pos := 0
			if len(toks) > 0 {
				pos = g.rng.Intn(len(toks) + 1)
			}
			switch e := g.rng.Intn(3); {
			case e == 0 && pos < len(toks):
				toks[pos] = g.anyTok()
			case e == 1 && pos < len(toks):
				toks = append(toks[:pos], toks[pos+1:]...)
			default:
				toks = append(toks[:pos], append([]int{g.anyTok()}, toks[pos:]...)...)
			}
		}
	default:
		for i, n := 0, g.rng.Intn(8); i < n; i++ {
			toks = append(toks, g.anyTok())
		}
	}
	// two adjacent numerals would fuse into another numeral: separate them
	out := []int{}
	for i, t := range toks {
		if i > 0 && isDigitTok(t) && isDigitTok(out[len(out)-1]) {
			out = append(out, []int{tokComma, tokColon, 0, tokJunk}[g.rng.Intn(4)])
		}
		out = append(out, t)
	}
	return out
}

// recordOp applies o to every flavour and records what they show.
func recordOp(d *domain, fls []flavour, o opT, hist []opT, nr *numsRunner) ([]obsT, error) {
	var obs []obsT
	for _, f := range fls {
		if err := apply(d, f, o); err != nil {
			return nil, err
		}
		obs = append(obs, observe(d, f))
	}
	if looksSmallStatic(fls[0].Ranges()) {
		res := nr.nums(d, rangesKey(fls[0].Ranges()), hist)
		for k := range obs {
			obs[k].Nums = res[k]
		}
	}
	return obs, nil
}

func cmdRandom(path string, seed int64, traces, steps, texts int, numsOf, wrapOf int) {
	out := vh.NewOut()
	aliasOut = out
	d, err := parseBlocks(randomBlocks)
	if err != nil {
		out.Summary(map[string]interface{}{"infra_error": err.Error()})
		out.Flush()
		return
	}
	nr := newNumsRunner()
	nr.numsOf, nr.wrapOf = numsOf, wrapOf
	type result struct {
		recs []map[string]interface{}
		err  error
	}
	results := make([]result, traces)
	var wg sync.WaitGroup
	sem := make(chan struct{}, 16)
	var numsCalled int64
	for t := 0; t < traces; t++ {
		wg.Add(1)
		sem <- struct{}{}
		go func(t int) {
			defer wg.Done()
			defer func() { <-sem }()
			g := &gen{rng: rand.New(rand.NewSource(seed*1000003 + int64(t))), d: d}
			g.wide = g.rng.Intn(2) == 0
			n := len(d.ends)
			for i, k := 0, 5+g.rng.Intn(5); i < k; i++ {
				if g.rng.Intn(3) == 0 {
					g.pool = append(g.pool, n-1-g.rng.Intn(5))
				} else {
					g.pool = append(g.pool, g.rng.Intn(n))
				}
			}
			fls := newFlavours()
			recs := []map[string]interface{}{{"ev": "Reset"}}
			var hist []opT
			for s := 0; s < steps; s++ {
				o := g.op()
				hist = append(hist, o)
				obs, err := recordOp(d, fls, o, hist, nr)
				if err != nil {
					results[t].err = err
					return
				}
				if obs[0].Nums.Called {
					atomic.AddInt64(&numsCalled, 1)
				}
				recs = append(recs, opRec(o, obs))
			}
			results[t].recs = recs
		}(t)
	}
	wg.Wait()
	fh, err := os.Create(path)
	if err != nil {
		out.Summary(map[string]interface{}{"infra_error": err.Error()})
		out.Flush()
		return
	}
	w := bufio.NewWriterSize(fh, 1<<20)
	enc := json.NewEncoder(w)
	enc.Encode(domainRec(d))
	records, infra := 1, ""
	for _, r := range results {
		if r.err != nil {
			infra = r.err.Error()
			continue
		}
		for _, rec := range r.recs {
			enc.Encode(rec)
			records++
		}
	}
	// texts
	g := &gen{rng: rand.New(rand.NewSource(seed*7919 + 17)), d: d, wide: true}
	valid := 0
	var samples []interface{}
	for i := 0; i < texts; i++ {
		toks := g.text()
		text, err := d.render(toks, g.rng.Intn)
		if err != nil {
			infra = err.Error()
			break
		}
		res := parseObserve(d, text, !hasJunk(toks))
		if res[0].Ok {
			valid++
		}
		if len(samples) < 3 && len(toks) >= 5 && i%7 == 0 {
			samples = append(samples, map[string]interface{}{"text": text, "accepted": res[0].Ok})
		}
		enc.Encode(map[string]interface{}{"ev": "Parse", "toks": toks, "text": text, "res": res})
		records++
	}
	w.Flush()
	fh.Close()
	sum := map[string]interface{}{"traces": traces, "records": records, "texts": texts, "texts_accepted": valid,
		"nums_called_steps": numsCalled, "nums_children": nr.Runs, "nums_children_without_result": nr.NoRet, "samples": samples}
	if infra == "" {
		infra = nr.infra
	}
	if infra != "" {
		sum["infra_error"] = infra
	}
	out.Summary(sum)
	out.Flush()
}

// cmdRerun re-executes the inputs of a recorded trace against the working tree.
func cmdRerun(in, outPath string) {
	out := vh.NewOut()
	aliasOut = out
	fail := func(err error) {
		out.Summary(map[string]interface{}{"infra_error": err.Error()})
		out.Flush()
	}
	fh, err := os.Open(in)
	if err != nil {
		fail(err)
		return
	}
	defer fh.Close()
	oh, err := os.Create(outPath)
	if err != nil {
		fail(err)
		return
	}
	defer oh.Close()
	w := bufio.NewWriter(oh)
	defer w.Flush()
	enc := json.NewEncoder(w)
	nr := newNumsRunner()
	var d *domain
	var fls []flavour
	var hist []opT
	sc := bufio.NewScanner(fh)
	sc.Buffer(make([]byte, 1<<20), 1<<28)
	n := 0
	for sc.Scan() {
		var r struct {
			Ev     string   `json:"ev"`
			Blocks string   `json:"blocks"`
			Vs     []int    `json:"vs"`
			X      int      `json:"x"`
			Y      int      `json:"y"`
			T      [][2]int `json:"t"`
			Toks   []int    `json:"toks"`
			Text   string   `json:"text"`
		}
		if err := json.Unmarshal(sc.Bytes(), &r); err != nil {
			fail(err)
			return
		}
		n++
		switch r.Ev {
		case "Domain":
			if d, err = parseBlocks(r.Blocks); err != nil {
				fail(err)
				return
			}
			enc.Encode(domainRec(d))
		case "Reset":
			fls, hist = newFlavours(), nil
			enc.Encode(map[string]interface{}{"ev": "Reset"})
		case "AddNum", "AddRange", "AddSet":
			if d == nil || fls == nil {
				fail(fmt.Errorf("record %d before Domain/Reset", n))
				return
			}
			o := opT{Kind: r.Ev, Vs: r.Vs, X: r.X, Y: r.Y, T: r.T}
			hist = append(hist, o)
			obs, err := recordOp(d, fls, o, hist, nr)
			if err != nil {
				fail(err)
				return
			}
			enc.Encode(opRec(o, obs))
		case "Parse":
			if d == nil {
				fail(fmt.Errorf("record %d before Domain", n))
				return
			}
			toks := r.Toks
			if toks == nil {
				toks = []int{}
			}
			enc.Encode(map[string]interface{}{"ev": "Parse", "toks": toks, "text": r.Text,
				"res": parseObserve(d, r.Text, !hasJunk(toks))})
		default:
			fail(fmt.Errorf("record %d: unknown ev %q", n, r.Ev))
			return
		}
	}
	sum := map[string]interface{}{"records": n}
	if nr.infra != "" {
		sum["infra_error"] = nr.infra
	}
	out.Summary(sum)
	out.Flush()
}

func main() {
	if len(os.Args) >= 2 && os.Args[1] == "child" {
		cmdChild()
		return
	}
	if len(os.Args) < 3 {
		fmt.Fprintln(os.Stderr, "usage: numset replay|one <in> <side.ndjson> | random <out.ndjson> [flags] | rerun <in> <out>")
		os.Exit(2)
	}
	mode := os.Args[1]
	fs := flag.NewFlagSet(mode, flag.ExitOnError)
	seed := fs.Int64("seed", 1, "")
	traces := fs.Int("traces", 100, "")
	steps := fs.Int("steps", 50, "")
	texts := fs.Int("texts", 2000, "")
	workers := fs.Int("workers", 16, "")
	numsOf := fs.Int("numsof", 1, "")
	wrapOf := fs.Int("wrapof", 1, "")
	switch mode {
	case "replay", "one", "rerun":
		if len(os.Args) < 4 {
			fmt.Fprintln(os.Stderr, "missing output path")
			os.Exit(2)
		}
		fs.Parse(os.Args[4:])
		switch mode {
		case "replay":
			cmdReplay(os.Args[2], os.Args[3], *workers, *numsOf, *wrapOf)
		case "one":
			cmdOne(os.Args[2], os.Args[3])
		default:
			cmdRerun(os.Args[2], os.Args[3])
		}
	case "random":
		fs.Parse(os.Args[3:])
		cmdRandom(os.Args[2], *seed, *traces, *steps, *texts, *numsOf, *wrapOf)
	default:
		os.Exit(2)
	}
}
