//go:build verifnum

package main

import (
	"fmt"
	"strconv"
	"strings"
)

// Symbolic points (spec/NumSet.tla): the specification works on points
// 1..Max, the real code on uint32.  A domain is a list of blocks of
// consecutive real numbers; every number of a block is a usable point, and
// between two blocks sits exactly one gap point standing for all the real
// numbers strictly between them (at least 17, so a set covering a gap is
// never "small").  The map is order- and adjacency-preserving.  0 is '*' on
// both sides.
const (
	tokColon = -1
	tokComma = -2
	tokZero  = -3 // "0"
	tokLZ    = -4 // numeral with leading zero
	tokBig   = -5 // numeral > 2^32-1
	tokJunk  = -6 // text without digits, '*', ':', ','
	symUnk   = -9 // a real number that is not a usable point of the domain
)

type block struct{ lo, hi uint32 }

type domain struct {
	blocks []block
	max    int
	gaps   []int
	real   []uint32   // point -> real number (usable points), index 1..max
	isGap  []bool     // point -> gap?
	probes [][]uint32 // point -> real numbers probed for Contains
	point  map[uint32]int
	ends   []int // usable points, ascending
}

func newDomain(blocks []block) (*domain, error) {
	d := &domain{blocks: blocks, point: map[uint32]int{}}
	d.real = []uint32{0}
	d.isGap = []bool{false}
	d.probes = [][]uint32{nil}
	for i, b := range blocks {
		if b.lo == 0 || b.lo > b.hi {
			return nil, fmt.Errorf("bad block %v", b)
		}
		if i == 0 && b.lo != 1 {
			// numbers below the first block would need a leading gap point
			return nil, fmt.Errorf("first block must start at 1")
		}
		if i > 0 {
			prev := blocks[i-1]
			if uint64(b.lo) < uint64(prev.hi)+18 {
				return nil, fmt.Errorf("blocks %v and %v closer than 17 numbers", prev, b)
			}
			lo, hi := prev.hi+1, b.lo-1
			d.real = append(d.real, 0)
			d.isGap = append(d.isGap, true)
			d.probes = append(d.probes, []uint32{lo, lo + (hi-lo)/2, hi})
			d.gaps = append(d.gaps, len(d.real)-1)
		}
		for n := uint64(b.lo); n <= uint64(b.hi); n++ {
			d.real = append(d.real, uint32(n))
			d.isGap = append(d.isGap, false)
			d.probes = append(d.probes, []uint32{uint32(n)})
			d.point[uint32(n)] = len(d.real) - 1
			d.ends = append(d.ends, len(d.real)-1)
		}
	}
	d.max = len(d.real) - 1
	if blocks[len(blocks)-1].hi != ^uint32(0) {
		return nil, fmt.Errorf("last block must end at 2^32-1 (point Max stands for it)")
	}
	return d, nil
}

// domainFor builds the domain of a TLC configuration (Max, Gaps): the lowest
// run of usable points is 1.., the highest run ends at 2^32-1, runs in
// between are placed at multiples of 65536 (k*65536-1 is their first number).
func domainFor(max int, gaps []int) (*domain, error) {
	isGap := make([]bool, max+2)
	for _, g := range gaps {
		if g < 1 || g > max {
			return nil, fmt.Errorf("gap %d outside 1..%d", g, max)
		}
		isGap[g] = true
	}
	var runs [][2]int
	for p := 1; p <= max; p++ {
		if isGap[p] {
			if p == 1 || p == max || isGap[p-1] {
				return nil, fmt.Errorf("gap points must be isolated and interior")
			}
			continue
		}
		if len(runs) > 0 && runs[len(runs)-1][1] == p-1 {
			runs[len(runs)-1][1] = p
		} else {
			runs = append(runs, [2]int{p, p})
		}
	}
	var blocks []block
	for i, r := range runs {
		n := uint32(r[1] - r[0])
		switch {
		case i == 0:
			blocks = append(blocks, block{1, 1 + n})
		case i == len(runs)-1:
			blocks = append(blocks, block{^uint32(0) - n, ^uint32(0)})
		default:
			lo := uint32(i)<<16 - 1
			blocks = append(blocks, block{lo, lo + n})
		}
	}
	d, err := newDomain(blocks)
	if err != nil {
		return nil, err
	}
	if d.max != max {
		return nil, fmt.Errorf("domain has %d points, configuration says %d", d.max, max)
	}
	return d, nil
}

func (d *domain) blocksString() string {
	var parts []string
	for _, b := range d.blocks {
		parts = append(parts, fmt.Sprintf("%d-%d", b.lo, b.hi))
	}
	return strings.Join(parts, ",")
}

func parseBlocks(s string) (*domain, error) {
	var blocks []block
	for _, part := range strings.Split(s, ",") {
		lh := strings.SplitN(part, "-", 2)
		if len(lh) != 2 {
			return nil, fmt.Errorf("bad block %q", part)
		}
		lo, err1 := strconv.ParseUint(lh[0], 10, 32)
		hi, err2 := strconv.ParseUint(lh[1], 10, 32)
		if err1 != nil || err2 != nil {
			return nil, fmt.Errorf("bad block %q", part)
		}
		blocks = append(blocks, block{uint32(lo), uint32(hi)})
	}
	return newDomain(blocks)
}

// toReal maps an argument point (usable point or 0 = '*').
func (d *domain) toReal(p int) (uint32, error) {
	if p == 0 {
		return 0, nil
	}
	if p < 1 || p > d.max || d.isGap[p] {
		return 0, fmt.Errorf("point %d is not a usable point", p)
	}
	return d.real[p], nil
}

// toSym maps a number returned by the real code back to a point.
func (d *domain) toSym(n uint32) int {
	if n == 0 {
		return 0
	}
	if p, ok := d.point[n]; ok {
		return p
	}
	return symUnk
}

func (d *domain) symRanges(rs [][2]uint32) [][2]int {
	out := make([][2]int, len(rs))
	for i, r := range rs {
		out[i] = [2]int{d.toSym(r[0]), d.toSym(r[1])}
	}
	return out
}

// lex turns text written by the real code into tokens (pure tokenisation:
// maximal digit runs, the three punctuation characters, anything else junk).
func (d *domain) lex(text string) []int {
	toks := []int{}
	for i := 0; i < len(text); {
		c := text[i]
		switch {
		case c >= '0' && c <= '9':
			j := i
			for j < len(text) && text[j] >= '0' && text[j] <= '9' {
				j++
			}
			num := text[i:j]
			switch {
			case num == "0":
				toks = append(toks, tokZero)
			case num[0] == '0':
				toks = append(toks, tokLZ)
			default:
				v, err := strconv.ParseUint(num, 10, 64)
				if err != nil || v > 0xFFFFFFFF {
					toks = append(toks, tokBig)
				} else {
					toks = append(toks, d.toSym(uint32(v)))
				}
			}
			i = j
		case c == '*':
			toks = append(toks, 0)
			i++
		case c == ':':
			toks = append(toks, tokColon)
			i++
		case c == ',':
			toks = append(toks, tokComma)
			i++
		default:
			j := i
			for j < len(text) && !strings.ContainsRune("0123456789*:,", rune(text[j])) {
				j++
			}
			toks = append(toks, tokJunk)
			i = j
		}
	}
	return toks
}

var (
	lzForms   = []string{"01", "00", "010", "04294967295", "0001"}
	bigForms  = []string{"4294967296", "4294967300", "9999999999", "18446744073709551616", "99999999999999999999999"}
	junkForms = []string{"a", " ", "-", "+", ".", "$", "_", "x", "\t", "NIL", "%", "(", "#", "é"}
)

// render writes a token list as text.  pick chooses among the spellings of
// the class tokens (nil: the first spelling).
func (d *domain) render(toks []int, pick func(n int) int) (string, error) {
	var sb strings.Builder
	choose := func(forms []string) string {
		if pick == nil {
			return forms[0]
		}
		return forms[pick(len(forms))]
	}
	for _, t := range toks {
		switch {
		case t == 0:
			sb.WriteByte('*')
		case t > 0:
			n, err := d.toReal(t)
			if err != nil {
				return "", err
			}
			sb.WriteString(strconv.FormatUint(uint64(n), 10))
		case t == tokColon:
			sb.WriteByte(':')
		case t == tokComma:
			sb.WriteByte(',')
		case t == tokZero:
			sb.WriteByte('0')
		case t == tokLZ:
			sb.WriteString(choose(lzForms))
		case t == tokBig:
			sb.WriteString(choose(bigForms))
		case t == tokJunk:
			sb.WriteString(choose(junkForms))
		default:
			return "", fmt.Errorf("unknown token %d", t)
		}
	}
	return sb.String(), nil
}

func isDigitTok(t int) bool { return t > 0 || t == tokZero || t == tokLZ || t == tokBig }
