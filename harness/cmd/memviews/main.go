// Command memviews binds spec/MemViews.tla to a real imapserver.Server using
// the in-memory backend (property C08).
//
//	memviews replay <tlc-output>    replay every TLC-generated behaviour, compare after every step
//	memviews one <behaviour.json>   replay a single behaviour (replay files)
//	memviews random <out.ndjson>    random multi-session histories, recorded for MemViewsTrace
//	memviews script <file>          run "sN: RAW COMMAND" lines, print the normalised records (diagnosis)
//
// Each model session is one raw connection; responses are read with vh.Raw
// (the harness's own tokenizer, not go-imap's decoder) and normalised to the
// items the specification predicts:
//
//	["exists",n] ["expunge",n] ["fetch",seq,uid,[flags]] ["search",isUID,[nums]]
//	["copyuid",[src],[dst]] ["ok"] ["no"] ["bad"] ["cont"]
//
// The harness keeps no model of the mailbox: predictions come from TLC (replay)
// or are judged by TLC (random).
package main

import (
	"bufio"
	"encoding/json"
	"flag"
	"fmt"
	"math/rand"
	"os"
	"sort"
	"strconv"
	"strings"
	"sync"
	"sync/atomic"
	"time"

	"github.com/emersion/go-imap/v2"
	"github.com/emersion/go-imap/v2/imapserver"
	"github.com/emersion/go-imap/v2/imapserver/imapmemserver"

	"verif/harness/vh"
)

// ------------------------------------------------------------------ items

// Item is one normalised response.
type Item struct {
	T     string
	N     uint32
	UID   uint32
	Fl    []string
	Nums  []uint32
	Nums2 []uint32
	Raw   string // only for T == "other"
}

func u32s(a []uint32) []uint32 {
	if a == nil {
		return []uint32{}
	}
	return a
}
func strs(a []string) []string {
	if a == nil {
		return []string{}
	}
	return a
}

func (it Item) MarshalJSON() ([]byte, error) {
	switch it.T {
	case "exists", "expunge":
		return json.Marshal([]interface{}{it.T, it.N})
	case "fetch":
		return json.Marshal([]interface{}{it.T, it.N, it.UID, strs(it.Fl)})
	case "search":
		return json.Marshal([]interface{}{it.T, it.N, u32s(it.Nums)})
	case "copyuid":
		return json.Marshal([]interface{}{it.T, u32s(it.Nums), u32s(it.Nums2)})
	case "other":
		return json.Marshal([]interface{}{it.T, it.Raw})
	}
	return json.Marshal([]interface{}{it.T})
}

func (it *Item) UnmarshalJSON(b []byte) error {
	var raw []json.RawMessage
	if err := json.Unmarshal(b, &raw); err != nil {
		return err
	}
	if len(raw) == 0 {
		return fmt.Errorf("empty item")
	}
	if err := json.Unmarshal(raw[0], &it.T); err != nil {
		return err
	}
	get := func(i int, v interface{}) error {
		if i >= len(raw) {
			return fmt.Errorf("item %s: missing field %d", it.T, i)
		}
		return json.Unmarshal(raw[i], v)
	}
	switch it.T {
	case "exists", "expunge":
		return get(1, &it.N)
	case "fetch":
		if err := get(1, &it.N); err != nil {
			return err
		}
		if err := get(2, &it.UID); err != nil {
			return err
		}
		return get(3, &it.Fl)
	case "search":
		if err := get(1, &it.N); err != nil {
			return err
		}
		return get(2, &it.Nums)
	case "copyuid":
		if err := get(1, &it.Nums); err != nil {
			return err
		}
		return get(2, &it.Nums2)
	case "other":
		return get(1, &it.Raw)
	}
	return nil
}

func (it Item) String() string {
	b, _ := json.Marshal(it)
	return string(b)
}

func itemsString(a []Item) string {
	b, _ := json.Marshal(a)
	return string(b)
}

func itemKey(it Item) string {
	return fmt.Sprintf("%08d/%08d/%s", it.N, it.UID, strings.Join(it.Fl, ","))
}

// canon sorts every maximal run of FETCH items (FETCH data of one command
// and flag updates are compared as sets, C08 "reading"), search results and
// flag lists.
func canon(a []Item) []Item {
	out := make([]Item, len(a))
	copy(out, a)
	for i := range out {
		if out[i].Fl != nil {
			f := append([]string{}, out[i].Fl...)
			sort.Strings(f)
			out[i].Fl = f
		}
		if out[i].T == "search" || out[i].T == "copyuid" {
			n := append([]uint32{}, out[i].Nums...)
			sort.Slice(n, func(x, y int) bool { return n[x] < n[y] })
			out[i].Nums = n
		}
	}
	for i := 0; i < len(out); {
		if out[i].T != "fetch" {
			i++
			continue
		}
		j := i
		for j < len(out) && out[j].T == "fetch" {
			j++
		}
		run := out[i:j]
		sort.SliceStable(run, func(x, y int) bool { return itemKey(run[x]) < itemKey(run[y]) })
		i = j
	}
	return out
}

func isStatus(t string) bool {
	switch t {
	case "ok", "no", "bad", "garbled":
		return true
	}
	return false
}

func eqU32(a, b []uint32) bool {
	if len(a) != len(b) {
		return false
	}
	for i := range a {
		if a[i] != b[i] {
			return false
		}
	}
	return true
}

// sameItems compares a prediction with an observation (both canonicalised).
// The predicted status "any" matches every tagged completion; a FETCH item
// without UID on the wire matches any predicted UID.
func sameItems(exp, got []Item) bool {
	exp, got = canon(exp), canon(got)
	if len(exp) != len(got) {
		return false
	}
	for i := range exp {
		e, g := exp[i], got[i]
		if e.T == "any" && isStatus(g.T) {
			continue
		}
		if e.T != g.T || e.N != g.N {
			return false
		}
		switch e.T {
		case "fetch":
			if g.UID != 0 && g.UID != e.UID {
				return false
			}
			if strings.Join(e.Fl, ",") != strings.Join(g.Fl, ",") {
				return false
			}
		case "search":
			if !eqU32(e.Nums, g.Nums) {
				return false
			}
		case "copyuid":
			if !eqU32(e.Nums, g.Nums) || !eqU32(e.Nums2, g.Nums2) {
				return false
			}
		case "other":
			return false
		}
	}
	return true
}

// ------------------------------------------------------------------ commands

type Rng struct {
	A uint32 `json:"a"`
	B uint32 `json:"b"`
}

// Cmd is one command of the specification's alphabet.
type Cmd struct {
	K    string   `json:"k"`
	UID  bool     `json:"uid"`
	Set  []Rng    `json:"set"`
	Mbox string   `json:"mbox"`
	Op   string   `json:"op"`
	Fl   []string `json:"fl"`
	Key  string   `json:"key"`
}

func (c *Cmd) fromTuple(b []byte) error {
	var raw []json.RawMessage
	if err := json.Unmarshal(b, &raw); err != nil {
		return err
	}
	if len(raw) != 7 {
		return fmt.Errorf("command tuple: want 7 fields, got %d", len(raw))
	}
	var set [][2]uint32
	for i, dst := range []interface{}{&c.K, &c.UID, &set, &c.Mbox, &c.Op, &c.Fl, &c.Key} {
		if err := json.Unmarshal(raw[i], dst); err != nil {
			return fmt.Errorf("command field %d: %v", i, err)
		}
	}
	c.Set = []Rng{}
	for _, r := range set {
		c.Set = append(c.Set, Rng{r[0], r[1]})
	}
	if c.Fl == nil {
		c.Fl = []string{}
	}
	return nil
}

func numStr(n uint32) string {
	if n == 0 {
		return "*"
	}
	return strconv.FormatUint(uint64(n), 10)
}

func setStr(set []Rng) string {
	var parts []string
	for _, r := range set {
		if r.A == r.B {
			parts = append(parts, numStr(r.A))
		} else {
			parts = append(parts, numStr(r.A)+":"+numStr(r.B))
		}
	}
	return strings.Join(parts, ",")
}

var flagWire = map[string]string{"d": `\Deleted`, "s": `\Seen`}
var flagModel = map[string]string{`\deleted`: "d", `\seen`: "s"}

func flagsStr(fl []string) string {
	var parts []string
	for _, f := range fl {
		parts = append(parts, flagWire[f])
	}
	return "(" + strings.Join(parts, " ") + ")"
}

// wire renders the command (without tag).  APPEND carries a one-byte
// non-synchronising literal in the same write.
func (c *Cmd) wire() string {
	p := ""
	if c.UID {
		p = "UID "
	}
	switch c.K {
	case "NOOP", "EXPUNGE", "CLOSE", "UNSELECT", "IDLE":
		return c.K
	case "STALL":
		return "NOOP" // sent by a client that has stopped reading
	case "RESUME":
		return "(reads again)"
	case "SELECT":
		return "SELECT " + wireName(c.Mbox)
	case "APPEND":
		return "APPEND " + wireName(c.Mbox) + " " + flagsStr(c.Fl) + " {1+}\r\nx"
	case "FETCH":
		return p + "FETCH " + setStr(c.Set) + " (FLAGS UID)"
	case "STORE":
		return p + "STORE " + setStr(c.Set) + " " + c.Op + "FLAGS " + flagsStr(c.Fl)
	case "UIDEXPUNGE":
		return "UID EXPUNGE " + setStr(c.Set)
	case "COPY", "MOVE":
		return p + c.K + " " + setStr(c.Set) + " " + wireName(c.Mbox)
	case "SEARCH":
		switch c.Key {
		case "all":
			return p + "SEARCH ALL"
		case "seq":
			return p + "SEARCH " + setStr(c.Set)
		case "uidset":
			return p + "SEARCH UID " + setStr(c.Set)
		case "has":
			return p + "SEARCH " + map[string]string{"d": "DELETED", "s": "SEEN"}[c.Fl[0]]
		case "not":
			return p + "SEARCH " + map[string]string{"d": "UNDELETED", "s": "UNSEEN"}[c.Fl[0]]
		}
	}
	return "X-UNKNOWN"
}

func (c *Cmd) name() string {
	k := c.K
	if k == "UIDEXPUNGE" {
		return "UID-EXPUNGE"
	}
	if c.UID {
		return "UID-" + k
	}
	return k
}

// ------------------------------------------------------------------ world

type sess struct {
	name     string
	conn     *vh.Conn
	raw      *vh.Raw
	idleTag  string
	stallTag string // tag of the NOOP whose responses the server is blocked writing
	owed     []Item // predicted for an idling session but not seen yet (late wake-up)
}

// wireName: the model's mailbox A is INBOX on the wire (the one mailbox with rules of its own), B is B
func wireName(m string) string {
	if m == "A" {
		return "INBOX"
	}
	return m
}

type world struct {
	srv  *imapserver.Server
	ln   *vh.Listener
	sess map[string]*sess
	log  *vh.LogBuf
}

func newWorld() *world {
	w := &world{sess: map[string]*sess{}, log: vh.NewLogBuf()}
	mem := imapmemserver.New()
	u := imapmemserver.NewUser("u", "p")
	u.Create(wireName("A"), nil)
	u.Create(wireName("B"), nil)
	mem.AddUser(u)
	w.ln = vh.NewListener()
	w.srv = imapserver.New(&imapserver.Options{
		NewSession: func(c *imapserver.Conn) (imapserver.Session, *imapserver.GreetingData, error) {
			return mem.NewSession(), nil, nil
		},
		Caps: imap.CapSet{imap.CapIMAP4rev1: {}, imap.CapMove: {}, imap.CapUIDPlus: {}, imap.CapUnselect: {},
			imap.CapIdle: {}, imap.CapLiteralPlus: {}},
		InsecureAuth: true,
		Logger:       w.log,
	})
	go w.srv.Serve(w.ln)
	return w
}

func (w *world) renameInboxAwayAndBack(n int) error {
	a, err := w.get("admin")
	if err != nil {
		return err
	}
	tmp := fmt.Sprintf("zz%d", n)
	if _, t, err := a.raw.Cmd("RENAME INBOX " + tmp); err != nil || t.Name != "OK" {
		return fmt.Errorf("RENAME INBOX %s: %v %+v", tmp, err, t)
	}
	// (a backend that leaves INBOX in place refuses the way back: what that does to the views is then judged
	// by the audits that follow)
	a.raw.Cmd("RENAME " + tmp + " INBOX")
	return nil
}

func (w *world) close() {
	for _, s := range w.sess {
		s.conn.Close()
	}
	w.srv.Close()
}

// get returns the (lazily created and logged-in) connection of a model session.
func (w *world) get(name string) (*sess, error) {
	if s, ok := w.sess[name]; ok {
		return s, nil
	}
	c, _, err := w.ln.Dial()
	if err != nil {
		return nil, err
	}
	s := &sess{name: name, conn: c, raw: vh.NewRaw(c)}
	s.raw.Timeout = 15 * time.Second // a loaded machine must not look like a lost response
	if _, err := s.raw.ReadResp(); err != nil {
		return nil, fmt.Errorf("greeting: %v", err)
	}
	_, tagged, err := s.raw.Cmd("LOGIN u p")
	if err != nil || tagged.Name != "OK" {
		return nil, fmt.Errorf("login failed: %v %+v", err, tagged)
	}
	w.sess[name] = s
	return s, nil
}

// ------------------------------------------------------------------ normalisation

func parseNumSetText(s string) ([]uint32, bool) {
	var out []uint32
	if s == "" {
		return out, true
	}
	for _, part := range strings.Split(s, ",") {
		ab := strings.SplitN(part, ":", 2)
		a, err := strconv.ParseUint(ab[0], 10, 32)
		if err != nil {
			return nil, false
		}
		b := a
		if len(ab) == 2 {
			b, err = strconv.ParseUint(ab[1], 10, 32)
			if err != nil {
				return nil, false
			}
		}
		if a > b {
			a, b = b, a
		}
		if b-a > 100000 {
			return nil, false
		}
		for x := a; x <= b; x++ {
			out = append(out, uint32(x))
		}
	}
	return out, true
}

func copyUID(r *vh.Resp) (Item, bool) {
	if r.Code != "COPYUID" {
		return Item{}, false
	}
	f := strings.Fields(r.CodeArg)
	if len(f) != 3 {
		return Item{T: "other", Raw: r.Raw}, true
	}
	src, ok1 := parseNumSetText(f[1])
	dst, ok2 := parseNumSetText(f[2])
	if !ok1 || !ok2 {
		return Item{T: "other", Raw: r.Raw}, true
	}
	return Item{T: "copyuid", Nums: src, Nums2: dst}, true
}

// normalise turns one response into at most one item.  uidSearch tells how
// the numbers of a SEARCH response are to be read (known from the command sent).
func normalise(r *vh.Resp, uidSearch bool) (Item, bool) {
	if r.Malformed != "" {
		return Item{T: "other", Raw: r.Raw}, true
	}
	if r.Tag == "+" {
		return Item{T: "cont"}, true
	}
	if r.Tag != "*" {
		switch r.Name {
		case "OK":
			return Item{T: "ok"}, true
		case "NO":
			return Item{T: "no"}, true
		case "BAD":
			return Item{T: "bad"}, true
		}
		return Item{T: "other", Raw: r.Raw}, true
	}
	switch {
	case r.Name == "EXISTS" && r.HasNum:
		return Item{T: "exists", N: r.Num}, true
	case r.Name == "EXPUNGE" && r.HasNum:
		return Item{T: "expunge", N: r.Num}, true
	case r.Name == "RECENT" && r.HasNum, r.Name == "FLAGS" && !r.HasNum:
		return Item{}, false
	case r.Name == "OK" && !r.HasNum:
		if it, ok := copyUID(r); ok {
			return it, true
		}
		return Item{}, false // UIDVALIDITY, UIDNEXT, PERMANENTFLAGS, CLOSED, ...
	case r.Name == "FETCH" && r.HasNum:
		it := Item{T: "fetch", N: r.Num, Fl: []string{}}
		if len(r.Toks) != 1 || r.Toks[0].Kind != 'L' {
			return Item{T: "other", Raw: r.Raw}, true
		}
		l := r.Toks[0].List
		for i := 0; i+1 < len(l); i += 2 {
			switch strings.ToUpper(l[i].S) {
			case "UID":
				n, err := strconv.ParseUint(l[i+1].S, 10, 32)
				if err != nil {
					return Item{T: "other", Raw: r.Raw}, true
				}
				it.UID = uint32(n)
			case "FLAGS":
				if l[i+1].Kind != 'L' {
					return Item{T: "other", Raw: r.Raw}, true
				}
				for _, f := range l[i+1].List {
					lf := strings.ToLower(f.S)
					if m, ok := flagModel[lf]; ok {
						it.Fl = append(it.Fl, m)
					} else {
						it.Fl = append(it.Fl, lf)
					}
				}
				sort.Strings(it.Fl)
			}
		}
		return it, true
	case r.Name == "SEARCH" && !r.HasNum:
		it := Item{T: "search", Nums: []uint32{}}
		if uidSearch {
			it.N = 1
		}
		for _, t := range r.Toks {
			n, err := strconv.ParseUint(t.S, 10, 32)
			if err != nil || t.Kind != 'a' {
				return Item{T: "other", Raw: r.Raw}, true
			}
			it.Nums = append(it.Nums, uint32(n))
		}
		sort.Slice(it.Nums, func(x, y int) bool { return it.Nums[x] < it.Nums[y] })
		return it, true
	}
	return Item{T: "other", Raw: r.Raw}, true
}

// frontCopyUID moves the COPYUID item to the front: COPY carries it in the
// tagged completion, MOVE in an untagged OK before the EXPUNGEs; the
// specification lists it first in both cases.
func frontCopyUID(a []Item) []Item {
	for i, it := range a {
		if it.T == "copyuid" {
			out := []Item{it}
			out = append(out, a[:i]...)
			return append(out, a[i+1:]...)
		}
	}
	return a
}

// run sends one command on s and reads up to its tagged completion.
// A completion swallowed by a half-written line (imapserver fails to encode
// an empty COPYUID set after having started the line) is recognised by the
// tag appearing inside the line and reported as status "garbled".
func (s *sess) run(c *Cmd) ([]Item, error) {
	uidSearch := c.K == "SEARCH" && c.UID
	var items []Item
	switch c.K {
	case "IDLE":
		s.idleTag = s.raw.NextTag()
		if err := s.raw.Send(s.idleTag + " IDLE\r\n"); err != nil {
			return nil, err
		}
		r, err := s.raw.ReadResp()
		if err != nil {
			return nil, fmt.Errorf("IDLE: %v", err)
		}
		it, _ := normalise(r, false)
		return []Item{it}, nil
	case "DONE":
		if err := s.raw.Send("DONE\r\n"); err != nil {
			return nil, err
		}
		return s.until(s.idleTag, false)
	case "STALL":
		// the client stops reading (its receive window is full) and sends NOOP: the server takes what is
		// pending for the session and blocks in the first write
		s.conn.SetPeerWindow(-1)
		s.stallTag = s.raw.NextTag()
		if err := s.raw.Send(s.stallTag + " NOOP\r\n"); err != nil {
			return nil, err
		}
		for i := 0; !s.conn.PeerBlockedInWrite(); i++ {
			if i > 100000 {
				return nil, fmt.Errorf("STALL: the server never got to write anything for NOOP")
			}
			time.Sleep(100 * time.Microsecond)
		}
		return []Item{}, nil
	case "RESUME":
		s.conn.SetPeerWindow(0)
		return s.until(s.stallTag, false)
	}
	tag := s.raw.NextTag()
	if err := s.raw.Send(tag + " " + c.wire() + "\r\n"); err != nil {
		return nil, err
	}
	items, err := s.until(tag, uidSearch)
	return frontCopyUID(items), err
}

func (s *sess) until(tag string, uidSearch bool) ([]Item, error) {
	var items []Item
	for {
		r, err := s.raw.ReadResp()
		if err != nil {
			return items, err
		}
		if i := strings.Index(r.Raw, " "+tag+" NO "); i > 0 {
			// "<tag> OK [COPYUID 1 <tag> NO [SERVERBUG] ..." or "* OK [COPYUID 1 <tag> NO ..."
			items = append(items, Item{T: "garbled"})
			return items, nil
		}
		if r.Tag == tag {
			if it, ok := copyUID(r); ok {
				items = append(items, it)
			}
		}
		it, ok := normalise(r, uidSearch)
		if ok {
			items = append(items, it)
		}
		if r.Tag == tag {
			return items, nil
		}
	}
}

// readIdle reads up to want items from an idling connection (bounded wait).
// With want < 0 it reads until the connection has been quiet for the wait.
func (s *sess) readIdle(want int, wait time.Duration) []Item {
	var items []Item
	old := s.raw.Timeout
	s.raw.Timeout = wait
	defer func() { s.raw.Timeout = old }()
	for want < 0 || len(items) < want {
		if want < 0 && s.raw.R.Buffered() == 0 && len(items) > 0 {
			s.raw.Timeout = wait / 4
		}
		r, err := s.raw.ReadResp()
		if err != nil {
			break
		}
		if it, ok := normalise(r, false); ok {
			items = append(items, it)
		}
	}
	return items
}

// audit reconstructs the message list with UID FETCH 1:* (UID).
func (s *sess) audit() ([]uint32, string) {
	items, err := s.run(&Cmd{K: "FETCH", UID: true, Set: []Rng{{1, 0}}})
	if err != nil {
		return nil, "audit failed: " + err.Error()
	}
	list := []uint32{}
	bySeq := map[uint32]uint32{}
	for _, it := range items {
		switch it.T {
		case "fetch":
			if _, dup := bySeq[it.N]; dup {
				return nil, "audit: sequence number reported twice: " + itemsString(items)
			}
			bySeq[it.N] = it.UID
		case "ok":
		default:
			return nil, "audit: unexpected response after NOOP: " + itemsString(items)
		}
	}
	for i := 1; i <= len(bySeq); i++ {
		u, ok := bySeq[uint32(i)]
		if !ok {
			return nil, "audit: sequence numbers not contiguous: " + itemsString(items)
		}
		list = append(list, u)
	}
	return list, ""
}

// ------------------------------------------------------------------ replay

type step struct {
	S     string
	C     Cmd
	Lat   [2]string
	Stale bool
	Exp   map[string][]Item
	Alts  [][]Item
	Audit bool
	List  []uint32
	Amb   bool
	raw   json.RawMessage
}

func (st *step) UnmarshalJSON(b []byte) error {
	var raw []json.RawMessage
	if err := json.Unmarshal(b, &raw); err != nil {
		return err
	}
	if len(raw) != 9 {
		return fmt.Errorf("step tuple: want 9 fields, got %d", len(raw))
	}
	if err := json.Unmarshal(raw[8], &st.Amb); err != nil {
		return err
	}
	st.raw = append(json.RawMessage{}, b...)
	if err := json.Unmarshal(raw[0], &st.S); err != nil {
		return err
	}
	if err := st.C.fromTuple(raw[1]); err != nil {
		return err
	}
	if err := json.Unmarshal(raw[2], &st.Lat); err != nil {
		return err
	}
	if err := json.Unmarshal(raw[3], &st.Stale); err != nil {
		return err
	}
	var exp [][]json.RawMessage
	if err := json.Unmarshal(raw[4], &exp); err != nil {
		return err
	}
	st.Exp = map[string][]Item{}
	for _, p := range exp {
		var name string
		var items []Item
		if len(p) != 2 || json.Unmarshal(p[0], &name) != nil || json.Unmarshal(p[1], &items) != nil {
			return fmt.Errorf("bad exp entry")
		}
		st.Exp[name] = items
	}
	if err := json.Unmarshal(raw[5], &st.Alts); err != nil {
		return err
	}
	if err := json.Unmarshal(raw[6], &st.Audit); err != nil {
		return err
	}
	return json.Unmarshal(raw[7], &st.List)
}

func (st step) MarshalJSON() ([]byte, error) { return st.raw, nil }

type verdict struct {
	sig, detail string
	step        int
}

type outcome struct {
	v          *verdict
	steps      int
	nontrivial bool
	notTaken   string // "" or the latitude of the step at which the code took another admissible branch
	taken      []string
	lateIdle   int
}

// classify gives a divergence a narrow, stable signature.
func classify(c *Cmd, exp, got []Item) string {
	count := func(a []Item, t string) int {
		n := 0
		for _, it := range a {
			if it.T == t {
				n++
			}
		}
		return n
	}
	for _, it := range got {
		if it.T == "fetch" && it.N == 0 {
			return "fetch/seq0-unannounced"
		}
	}
	if c.K == "MOVE" && count(got, "expunge") > count(exp, "expunge") {
		return "move/double-expunge"
	}
	for _, it := range got {
		if it.T == "other" {
			return "unparsed/" + c.name()
		}
	}
	if !c.UID && (c.K == "FETCH" || c.K == "STORE" || c.K == "SEARCH") && count(got, "expunge") > 0 {
		return "expunge-during/" + c.name()
	}
	if count(got, "expunge") != count(exp, "expunge") {
		return "expunge-count/" + c.name()
	}
	if count(got, "exists") != count(exp, "exists") {
		return "exists-count/" + c.name()
	}
	return "response/" + c.name()
}

const idleWait = 400 * time.Millisecond

func replay(beh []step) (*outcome, error) {
	w := newWorld()
	defer w.close()
	o := &outcome{}
	idling := map[string]bool{}
	for i := range beh {
		st := &beh[i]
		s, err := w.get(st.S)
		if err != nil {
			return nil, err
		}
		got, err := s.run(&st.C)
		o.steps++
		if st.Stale {
			o.nontrivial = true
		}
		if err != nil {
			o.v = &verdict{sig: "lost/" + st.C.name(), step: i,
				detail: fmt.Sprintf("%s %q: %v after %s (server log: %v)", st.S, st.C.wire(), err, itemsString(got), w.log.Snapshot())}
			return o, nil
		}
		exp := st.Exp[st.S]
		if st.C.K == "DONE" {
			exp = append(append([]Item{}, s.owed...), exp...)
			s.owed = nil
			delete(idling, st.S)
		}
		if !sameItems(exp, got) {
			for _, alt := range st.Alts {
				if sameItems(alt, got) {
					o.notTaken = st.Lat[0] + "/" + st.Lat[1]
					return o, nil
				}
			}
			o.v = &verdict{sig: classify(&st.C, exp, got), step: i,
				detail: fmt.Sprintf("%s %q: server sent %s, specification predicts %s", st.S, st.C.wire(), itemsString(got), itemsString(canon(exp)))}
			return o, nil
		}
		if st.Amb {
			// another admissible latitude predicts the same responses but another
			// effect: the wire does not tell which branch the server is on
			o.notTaken = "ambiguous"
			return o, nil
		}
		if st.Lat[0] != "same" || st.Lat[1] != "same" {
			o.taken = append(o.taken, st.Lat[0]+"/"+st.Lat[1])
		}
		if st.C.K == "IDLE" {
			idling[st.S] = true
			// imapserver writes "+ idling" before the idle goroutine has registered
			// with the tracker; give it a moment (a missed wake-up is tolerated below)
			time.Sleep(150 * time.Microsecond)
		}
		// deliveries to idling sessions
		for name := range idling {
			if name == st.S {
				continue
			}
			t := w.sess[name]
			want := append(append([]Item{}, t.owed...), st.Exp[name]...)
			if len(want) == 0 {
				continue
			}
			if len(st.Exp[name]) == 0 {
				continue // nothing new predicted: what is owed arrives with the next wake-up or DONE
			}
			seen := t.readIdle(len(want), idleWait)
			if !sameItems(want[:len(seen)], seen) {
				o.v = &verdict{sig: "idle/" + classify(&st.C, want, seen), step: i,
					detail: fmt.Sprintf("idling %s received %s during %s %q, specification predicts %s", name, itemsString(seen), st.S, st.C.wire(), itemsString(want))}
				return o, nil
			}
			t.owed = want[len(seen):]
			if len(t.owed) > 0 {
				o.lateIdle++
			}
		}
		if st.Audit {
			list, bad := s.audit()
			if bad != "" {
				o.v = &verdict{sig: "audit/malformed", step: i, detail: bad}
				return o, nil
			}
			if !eqU32(list, st.List) {
				o.v = &verdict{sig: "audit/list-differs", step: i,
					detail: fmt.Sprintf("after NOOP on %s the list reconstructed with UID FETCH 1:* is %v, the specification's mailbox is %v", st.S, list, st.List)}
				return o, nil
			}
		}
	}
	return o, nil
}

func describe(beh []step) []string {
	var out []string
	for _, st := range beh {
		out = append(out, st.S+": "+strings.Replace(st.C.wire(), "\r\nx", "", 1))
	}
	return out
}

func cmdReplay(path string, workers int) {
	out := vh.NewOut()
	defer out.Flush()
	jobs := make(chan []step, 1024)
	var wg sync.WaitGroup
	var nBeh, nSteps, nNontriv, nMis, nNotTaken, nLate int64
	var infra atomic.Value
	var mu sync.Mutex
	var samples []interface{}
	taken := map[string]int{}
	notTaken := map[string]int{}
	kinds := map[string]int{}
	var starExample []string
	for i := 0; i < workers; i++ {
		wg.Add(1)
		go func() {
			defer wg.Done()
			for beh := range jobs {
				o, err := replay(beh)
				atomic.AddInt64(&nBeh, 1)
				if err != nil {
					infra.Store(err.Error())
					continue
				}
				atomic.AddInt64(&nSteps, int64(o.steps))
				atomic.AddInt64(&nLate, int64(o.lateIdle))
				if o.nontrivial {
					atomic.AddInt64(&nNontriv, 1)
				}
				mu.Lock()
				if o.steps == len(beh) && o.v == nil && o.notTaken == "" {
					kinds[beh[len(beh)-1].C.name()]++
				}
				for _, t := range o.taken {
					taken[t]++
				}
				if o.notTaken != "" {
					notTaken[o.notTaken]++
					nNotTaken++
					if starExample == nil && strings.HasPrefix(o.notTaken, "rfc") {
						starExample = describe(beh[:o.steps])
					}
				}
				mu.Unlock()
				if o.v != nil {
					if atomic.AddInt64(&nMis, 1) <= 400 {
						out.Mismatch(o.v.sig, fmt.Sprintf("step %d: %s | history: %s", o.v.step, o.v.detail, strings.Join(describe(beh[:o.v.step+1]), "; ")), beh[:o.v.step+1])
					}
				} else if o.nontrivial && o.notTaken == "" {
					mu.Lock()
					if len(samples) < 3 {
						samples = append(samples, describe(beh))
					}
					mu.Unlock()
				}
			}
		}()
	}
	err := vh.ReadTLines(path, func(p []byte) error {
		var beh []step
		if err := json.Unmarshal(p, &beh); err != nil {
			return err
		}
		jobs <- beh
		return nil
	})
	close(jobs)
	wg.Wait()
	sum := map[string]interface{}{"behaviours": nBeh, "steps": nSteps, "nontrivial": nNontriv, "mismatches": nMis,
		"samples": samples, "latitude_taken": taken, "latitude_not_taken": notTaken, "branch_not_taken": nNotTaken,
		"late_idle_wakeups": nLate, "star_rfc_not_taken_example": starExample, "commands": kinds}
	if err != nil {
		sum["infra_error"] = err.Error()
	} else if e := infra.Load(); e != nil {
		sum["infra_error"] = e
	}
	out.Summary(sum)
}

func cmdOne(path string) {
	out := vh.NewOut()
	defer out.Flush()
	b, err := os.ReadFile(path)
	if err != nil {
		fmt.Fprintln(os.Stderr, err)
		os.Exit(2)
	}
	var beh []step
	if err := json.Unmarshal(b, &beh); err != nil {
		fmt.Fprintln(os.Stderr, err)
		os.Exit(2)
	}
	o, err := replay(beh)
	if err != nil {
		fmt.Fprintln(os.Stderr, err)
		os.Exit(2)
	}
	if o.v != nil {
		out.Mismatch(o.v.sig, fmt.Sprintf("step %d: %s | history: %s", o.v.step, o.v.detail, strings.Join(describe(beh[:o.v.step+1]), "; ")), beh[:o.v.step+1])
	}
	out.Summary(map[string]interface{}{"behaviours": 1, "steps": o.steps, "branch_not_taken": o.notTaken})
}

// ------------------------------------------------------------------ random driver

var sessNames = []string{"s1", "s2", "s3", "s4"}

type rec struct {
	Ev  string            `json:"ev"`
	S   string            `json:"s"`
	C   *Cmd              `json:"c,omitempty"`
	Out map[string][]Item `json:"out,omitempty"`
	Ad  bool              `json:"ad"`
	Au  []uint32          `json:"au"`
}

// client is what a client knows from its own commands and the responses it
// received (no mailbox semantics): which mailbox it selected, the count
// announced, UIDs it has seen.
type client struct {
	stalled bool
	sel     string
	count   int
	uids    []uint32
	idle    bool
	maxSeen uint32
}

func (cl *client) learn(items []Item) {
	for _, it := range items {
		switch it.T {
		case "exists":
			cl.count = int(it.N)
		case "expunge":
			if cl.count > 0 {
				cl.count--
			}
		case "fetch":
			if it.UID != 0 {
				cl.see(it.UID)
			}
		case "search":
			if it.N == 1 {
				for _, u := range it.Nums {
					cl.see(u)
				}
			}
		case "copyuid":
			for _, u := range it.Nums {
				cl.see(u)
			}
		}
	}
}

func (cl *client) see(u uint32) {
	if u > cl.maxSeen {
		cl.maxSeen = u
	}
	for _, x := range cl.uids {
		if x == u {
			return
		}
	}
	cl.uids = append(cl.uids, u)
	if len(cl.uids) > 12 {
		cl.uids = cl.uids[1:]
	}
}

func randSet(rng *rand.Rand, cl *client, uid bool) []Rng {
	num := func() uint32 {
		if uid {
			if len(cl.uids) > 0 && rng.Intn(4) != 0 {
				return cl.uids[rng.Intn(len(cl.uids))]
			}
			return uint32(1 + rng.Intn(int(cl.maxSeen)+3))
		}
		hi := cl.count + 1
		if rng.Intn(8) == 0 {
			hi += 2
		}
		return uint32(1 + rng.Intn(hi))
	}
	one := func() Rng {
		switch r := rng.Intn(10); {
		case r < 4:
			n := num()
			return Rng{n, n}
		case r < 6:
			return Rng{0, 0}
		case r < 8:
			return Rng{num(), 0}
		default:
			a, b := num(), num()
			if a > b {
				a, b = b, a
			}
			return Rng{a, b}
		}
	}
	set := []Rng{one()}
	if rng.Intn(6) == 0 {
		// a list of ranges: static numbers only.  (imapmemserver substitutes "*"
		// in place and then binary-searches the no longer sorted list, so
		// "*,2" on one message selects nothing; which messages a set selects is
		// not C08's subject, the case is left to C09/C15.)
		set = nil
		for len(set) < 2 {
			if r := one(); r.A != 0 && r.B != 0 {
				set = append(set, r)
			}
		}
	}
	return set
}

func staticSet(rng *rand.Rand, cl *client) []Rng {
	if rng.Intn(3) == 0 {
		return []Rng{{1, 0}}
	}
	for {
		set := randSet(rng, cl, true)
		ok := true
		for _, r := range set {
			if r.A == 0 || r.B == 0 {
				ok = false
			}
		}
		if ok {
			return set
		}
	}
}

func other(m string) string {
	if m == "A" {
		return "B"
	}
	return "A"
}

func randFlag(rng *rand.Rand) []string {
	if rng.Intn(4) == 0 {
		return []string{"s"}
	}
	return []string{"d"}
}

// mutation picks a command that changes a mailbox.
func mutation(rng *rand.Rand, cl *client) *Cmd {
	if cl.sel == "" {
		if rng.Intn(2) == 0 {
			return &Cmd{K: "SELECT", Mbox: []string{"A", "A", "B"}[rng.Intn(3)]}
		}
		return &Cmd{K: "APPEND", Mbox: []string{"A", "A", "B"}[rng.Intn(3)], Fl: []string{}}
	}
	uid := rng.Intn(3) == 0
	switch r := rng.Intn(100); {
	case r < 26:
		fl := []string{}
		if rng.Intn(5) == 0 {
			fl = randFlag(rng)
		}
		mb := cl.sel
		if rng.Intn(4) == 0 {
			mb = other(mb)
		}
		return &Cmd{K: "APPEND", Mbox: mb, Fl: fl}
	case r < 50:
		op := "+"
		if rng.Intn(4) == 0 {
			op = "-"
		}
		return &Cmd{K: "STORE", UID: uid, Set: randSet(rng, cl, uid), Op: op, Fl: randFlag(rng)}
	case r < 64:
		return &Cmd{K: "EXPUNGE"}
	case r < 70:
		return &Cmd{K: "UIDEXPUNGE", UID: true, Set: staticSet(rng, cl)}
	case r < 80:
		return &Cmd{K: "COPY", UID: uid, Set: randSet(rng, cl, uid), Mbox: other(cl.sel)}
	case r < 94:
		return &Cmd{K: "MOVE", UID: uid, Set: randSet(rng, cl, uid), Mbox: other(cl.sel)}
	case r < 96:
		return &Cmd{K: "COPY", UID: uid, Set: randSet(rng, cl, uid), Mbox: cl.sel}
	case r < 98:
		return &Cmd{K: "CLOSE"}
	default:
		return &Cmd{K: "SELECT", Mbox: []string{"A", "B"}[rng.Intn(2)]}
	}
}

// reading picks a command that does not change a mailbox; mostly non-UID
// FETCH/SEARCH, which never resynchronise the view past a pending EXPUNGE.
func reading(rng *rand.Rand, cl *client) *Cmd {
	if cl.sel == "" {
		return &Cmd{K: "SELECT", Mbox: []string{"A", "A", "B"}[rng.Intn(3)]}
	}
	switch r := rng.Intn(100); {
	case r < 40:
		return &Cmd{K: "FETCH", Set: randSet(rng, cl, false)}
	case r < 50:
		return &Cmd{K: "SEARCH", Key: "all"}
	case r < 62:
		return &Cmd{K: "SEARCH", Key: "seq", Set: randSet(rng, cl, false)}
	case r < 68:
		return &Cmd{K: "SEARCH", Key: []string{"has", "not"}[rng.Intn(2)], Fl: randFlag(rng)}
	case r < 72:
		return &Cmd{K: "SEARCH", Key: "uidset", Set: randSet(rng, cl, true)}
	case r < 78:
		return &Cmd{K: "FETCH", UID: true, Set: randSet(rng, cl, true)}
	case r < 83:
		u := rng.Intn(2) == 0
		k := []string{"all", "seq", "uidset", "has"}[rng.Intn(4)]
		c := &Cmd{K: "SEARCH", UID: u, Key: k}
		switch k {
		case "seq":
			c.Set = randSet(rng, cl, false)
		case "uidset":
			c.Set = randSet(rng, cl, true)
		case "has":
			c.Fl = randFlag(rng)
		}
		return c
	case r < 89:
		return &Cmd{K: "NOOP"}
	case r < 92:
		return &Cmd{K: "STALL"} // NOOP from a client that stops reading for a while
	case r < 96:
		return &Cmd{K: "IDLE"}
	case r < 98:
		return &Cmd{K: "UNSELECT"}
	default:
		return &Cmd{K: "SELECT", Mbox: []string{"A", "B"}[rng.Intn(2)]}
	}
}

func cmdRandom(path string, seed int64, traces, steps int) {
	out := vh.NewOut()
	defer out.Flush()
	f, err := os.Create(path)
	if err != nil {
		fmt.Fprintln(os.Stderr, err)
		os.Exit(2)
	}
	defer f.Close()
	bw := bufio.NewWriterSize(f, 1<<20)
	defer bw.Flush()
	enc := json.NewEncoder(bw)
	rng := rand.New(rand.NewSource(seed))
	total, lost, garbled, idleDeliveries, foreign, stalledDeliveries := 0, 0, 0, 0, 0, 0
	kinds := map[string]int{}
	for t := 0; t < traces; t++ {
		enc.Encode(rec{Ev: "Reset", Au: []uint32{}})
		total++
		w := newWorld()
		n := 1 + (t % 4)
		names := sessNames[:n]
		cls := map[string]*client{}
		for _, nm := range names {
			cls[nm] = &client{}
		}
		mutator := names[rng.Intn(n)]
		phase := 0
	trace:
		for i := 0; i < steps; i++ {
			if phase == 0 {
				mutator = names[rng.Intn(n)]
				phase = 6 + rng.Intn(16)
				if rng.Intn(3) == 0 {
					// somebody else renames INBOX away and back between two commands: the sessions that have it
					// selected stay on the same mailbox, nothing changes for anybody (no record: no session of the
					// model sends or receives anything)
					if err := w.renameInboxAwayAndBack(t*1000 + i); err != nil {
						out.Summary(map[string]interface{}{"infra_error": err.Error()})
						return
					}
				}
			}
			phase--
			// who acts
			nm := mutator
			if n > 1 && rng.Intn(100) < 45 {
				for {
					nm = names[rng.Intn(n)]
					if nm != mutator {
						break
					}
				}
			}
			cl := cls[nm]
			var c *Cmd
			switch {
			case cl.idle || cl.stalled:
				back := "DONE"
				if cl.stalled {
					back = "RESUME"
				}
				if rng.Intn(3) != 0 && n > 1 {
					// let it idle: someone else acts instead
					var cands []string
					for _, x := range names {
						if !cls[x].idle && !cls[x].stalled {
							cands = append(cands, x)
						}
					}
					if len(cands) == 0 {
						c = &Cmd{K: back}
					} else {
						nm = cands[rng.Intn(len(cands))]
						cl = cls[nm]
						if nm == mutator || rng.Intn(3) == 0 {
							c = mutation(rng, cl)
						} else {
							c = reading(rng, cl)
						}
					}
				} else {
					c = &Cmd{K: back}
				}
			case nm == mutator && rng.Intn(100) < 85:
				c = mutation(rng, cl)
			default:
				c = reading(rng, cl)
			}
			if c.Set == nil {
				c.Set = []Rng{}
			}
			if c.Fl == nil {
				c.Fl = []string{}
			}
			if c.Mbox == "" {
				c.Mbox = "none"
			}
			s, err := w.get(nm)
			if err != nil {
				out.Summary(map[string]interface{}{"infra_error": err.Error()})
				return
			}
			got, err := s.run(c)
			r := rec{Ev: "cmd", S: nm, C: c, Out: map[string][]Item{}, Au: []uint32{}}
			for _, x := range sessNames {
				r.Out[x] = []Item{}
			}
			if err != nil {
				got = append(got, Item{T: "lost"})
				lost++
			}
			r.Out[nm] = canon(got)
			kinds[c.name()]++
			ok := len(got) > 0 && got[len(got)-1].T == "ok"
			if c.K == "RESUME" && ok {
				stalledDeliveries += len(got) - 1
			}
			if len(got) > 0 && got[len(got)-1].T == "garbled" {
				garbled++
			}
			// client-side bookkeeping (syntax level only)
			switch c.K {
			case "SELECT":
				if ok {
					cl.sel, cl.count, cl.uids, cl.maxSeen = c.Mbox, 0, nil, 0
				} else {
					cl.sel = ""
				}
			case "CLOSE", "UNSELECT":
				if ok {
					cl.sel, cl.count = "", 0
				}
			case "IDLE":
				if len(got) == 1 && got[0].T == "cont" {
					cl.idle = true
					time.Sleep(150 * time.Microsecond)
				}
			case "DONE":
				cl.idle = false
			case "STALL":
				cl.stalled = err == nil
			case "RESUME":
				cl.stalled = false
			}
			cl.learn(got)
			switch c.K {
			case "NOOP", "FETCH", "SEARCH", "STORE", "APPEND", "COPY", "DONE", "RESUME":
				// an EXPUNGE here reports a removal made through another session
				for _, it := range got {
					if it.T == "expunge" {
						foreign++
					}
				}
			}
			// what idling sessions received meanwhile
			for _, x := range names {
				if x != nm && cls[x].idle {
					seen := w.sess[x].readIdle(-1, 4*time.Millisecond)
					if len(seen) > 0 {
						idleDeliveries++
						r.Out[x] = canon(seen)
						cls[x].learn(seen)
					}
				}
			}
			if c.K == "NOOP" && ok && cl.sel != "" {
				list, bad := s.audit()
				r.Ad = true
				if bad != "" {
					r.Au = []uint32{}
					r.Out[nm] = append(r.Out[nm], Item{T: "other", Raw: bad})
				} else {
					r.Au = list
					for _, u := range list {
						cl.see(u)
					}
				}
			}
			enc.Encode(r)
			total++
			if err != nil {
				break trace
			}
		}
		w.close()
	}
	out.Summary(map[string]interface{}{"records": total, "traces": traces, "lost": lost, "garbled_completions": garbled,
		"idle_deliveries": idleDeliveries, "responses_delivered_after_a_stall": stalledDeliveries, "commands": kinds, "expunges_of_other_sessions_delivered": foreign})
}

// ------------------------------------------------------------------ script (diagnosis)

func cmdScript(path string) {
	b, err := os.ReadFile(path)
	if err != nil {
		fmt.Fprintln(os.Stderr, err)
		os.Exit(2)
	}
	w := newWorld()
	defer w.close()
	for _, line := range strings.Split(string(b), "\n") {
		i := strings.Index(line, ": ")
		if i < 0 {
			continue
		}
		nm, text := line[:i], line[i+2:]
		s, err := w.get(nm)
		if err != nil {
			fmt.Println(err)
			return
		}
		s.raw.Timeout = 500 * time.Millisecond
		fmt.Printf("%s> %s\n", nm, text)
		var items []Item
		switch {
		case text == "DONE":
			s.raw.Send("DONE\r\n")
			items, err = s.until(s.idleTag, false)
		case text == "IDLE":
			items, err = s.run(&Cmd{K: "IDLE"})
		case text == "READ":
			items = s.readIdle(-1, 100*time.Millisecond)
		default:
			if strings.HasPrefix(text, "APPEND") {
				text += " {1+}\r\nx"
			}
			tag := s.raw.NextTag()
			s.raw.Send(tag + " " + text + "\r\n")
			items, err = s.until(tag, strings.HasPrefix(text, "UID SEARCH"))
		}
		fmt.Printf("   %s", itemsString(items))
		if err != nil {
			fmt.Printf("  (%v)", err)
		}
		fmt.Println()
	}
}

func main() {
	if len(os.Args) < 3 {
		fmt.Fprintln(os.Stderr, "usage: memviews replay|one|random|script <file> [flags]")
		os.Exit(2)
	}
	mode, path := os.Args[1], os.Args[2]
	fs := flag.NewFlagSet(mode, flag.ExitOnError)
	seed := fs.Int64("seed", 1, "")
	traces := fs.Int("traces", 40, "")
	steps := fs.Int("steps", 200, "")
	workers := fs.Int("workers", 16, "")
	fs.Parse(os.Args[3:])
	switch mode {
	case "replay":
		cmdReplay(path, *workers)
	case "one":
		cmdOne(path)
	case "random":
		cmdRandom(path, *seed, *traces, *steps)
	case "script":
		cmdScript(path)
	default:
		os.Exit(2)
	}
}
