// Command searchalg binds spec/SearchAlg.tla to imap.SearchCriteria.And and
// to the SEARCH key parser of imapserver (property C19).
//
//	searchalg gen <tlc-output> <out.ndjson>   run every TLC-enumerated case (criteria pair -> real And;
//	                                          key sequence -> real SEARCH command on a server connection)
//	searchalg random <out.ndjson> -seed N -pairs N -cmds N
//	                                          random criteria trees (depth <= 3) and key lists (<= 8 keys)
//	searchalg one <case.json> <out.ndjson>    a single case (replay files)
//
// The harness has no matcher and no notion of "intersection": it builds the
// real values, calls the real code and RECORDS the resulting struct field by
// field.  spec/SearchAlgTrace.tla judges every record.
//
// Mapping between model values and real values (alphabet of the spec):
//
//	day n            <-> 1999-12-31 + n days, 00:00 UTC (0 = zero time.Time); only the date is used
//	number set       <-> list of [start, stop] ranges (imap.SeqRange / imap.UIDRange)
//	flag "\\seen"    <-> imap.Flag(`\Seen`); flags are recorded lower-cased (case-insensitive)
//	header [k, v]    <-> SearchCriteriaHeaderField{Key, Value}; field names are recorded lower-cased
//	key [k,n,s,v,set,sub] <-> text of one search-key (render)
package main

import (
	"encoding/json"
	"flag"
	"fmt"
	"math/rand"
	"os"
	"strings"
	"sync"
	"time"

	"github.com/emersion/go-imap/v2"
	"github.com/emersion/go-imap/v2/imapserver"

	"verif/harness/vh"
)

// ---------------------------------------------------------------- model values

type hdr struct {
	K string `json:"k"`
	V string `json:"v"`
}

type crit struct {
	Seq        [][][2]uint32 `json:"seq"`
	UID        [][][2]uint32 `json:"uid"`
	Since      int64         `json:"since"`
	Before     int64         `json:"before"`
	SentSince  int64         `json:"sentsince"`
	SentBefore int64         `json:"sentbefore"`
	Header     []hdr         `json:"header"`
	Body       []string      `json:"body"`
	Text       []string      `json:"text"`
	Flag       []string      `json:"flag"`
	NotFlag    []string      `json:"notflag"`
	Larger     int64         `json:"larger"`
	Smaller    int64         `json:"smaller"`
	Not        []crit        `json:"not"`
	Or         [][2]crit     `json:"or"`
}

// norm makes every list non-nil so that it is written as [] (never null).
func (c *crit) norm() {
	if c.Seq == nil {
		c.Seq = [][][2]uint32{}
	}
	for i := range c.Seq {
		if c.Seq[i] == nil {
			c.Seq[i] = [][2]uint32{}
		}
	}
	if c.UID == nil {
		c.UID = [][][2]uint32{}
	}
	for i := range c.UID {
		if c.UID[i] == nil {
			c.UID[i] = [][2]uint32{}
		}
	}
	if c.Header == nil {
		c.Header = []hdr{}
	}
	if c.Body == nil {
		c.Body = []string{}
	}
	if c.Text == nil {
		c.Text = []string{}
	}
	if c.Flag == nil {
		c.Flag = []string{}
	}
	if c.NotFlag == nil {
		c.NotFlag = []string{}
	}
	if c.Not == nil {
		c.Not = []crit{}
	}
	for i := range c.Not {
		c.Not[i].norm()
	}
	if c.Or == nil {
		c.Or = [][2]crit{}
	}
	for i := range c.Or {
		c.Or[i][0].norm()
		c.Or[i][1].norm()
	}
}

func (c *crit) populated() bool {
	return len(c.Seq)+len(c.UID)+len(c.Header)+len(c.Body)+len(c.Text)+len(c.Flag)+len(c.NotFlag)+len(c.Not)+len(c.Or) > 0 ||
		c.Since != 0 || c.Before != 0 || c.SentSince != 0 || c.SentBefore != 0 || c.Larger != 0 || c.Smaller != 0
}

type key struct {
	K   string      `json:"k"`
	N   int64       `json:"n"`
	S   string      `json:"s"`
	V   string      `json:"v"`
	Set [][2]uint32 `json:"set"`
	Sub []key       `json:"sub"`
}

func (k *key) norm() {
	if k.Set == nil {
		k.Set = [][2]uint32{}
	}
	if k.Sub == nil {
		k.Sub = []key{}
	}
	for i := range k.Sub {
		k.Sub[i].norm()
	}
}

// tcase is one case: a criteria pair (fam != "keys") or a key sequence.
type tcase struct {
	Fam  string `json:"fam"`
	A    crit   `json:"a"`
	B    crit   `json:"b"`
	Keys []key  `json:"keys"`
	HA   int    `json:"ha,omitempty"` // clock (hour of day + 24 * zone) given to a's dates: "only the date is used"
	HB   int    `json:"hb,omitempty"`
}

// record is what the real code did.
type record struct {
	Kind string `json:"kind"` // "and" | "keys"
	A    *crit  `json:"a,omitempty"`
	B    *crit  `json:"b,omitempty"`
	Keys []key  `json:"keys,omitempty"`
	Wire string `json:"wire,omitempty"`
	Resp string `json:"resp,omitempty"`
	OK   bool   `json:"ok"`
	R    crit   `json:"r"`
	HA   int    `json:"ha,omitempty"`
	HB   int    `json:"hb,omitempty"`
}

// ---------------------------------------------------------------- alphabet

var dayBase = time.Date(1999, 12, 31, 0, 0, 0, 0, time.UTC)

// zones a caller may build its dates in: "only the date is used, the time and timezone are ignored", i.e. the
// calendar date of the value in its own location (that is also what goes on the wire)
var zones = []*time.Location{time.UTC, time.FixedZone("+0200", 2*3600), time.FixedZone("-0500", -5*3600),
	time.FixedZone("+1300", 13*3600), time.FixedZone("-1100", -11*3600)}

// clocks given to the operands of the enumerated pairs (the pairs themselves are about days)
var clockPairs = [][2]int{{0, 0}, {24*1 + 0, 24*3 + 23}, {24*4 + 1, 24*2 + 0}, {24*2 + 12, 24*1 + 0}, {24*3 + 0, 24*4 + 23}}

// dayToTime: clock = hour of day + 24 * index of the zone
func dayToTime(n int64, clock int) time.Time {
	if n == 0 {
		return time.Time{}
	}
	d := dayBase.AddDate(0, 0, int(n))
	return time.Date(d.Year(), d.Month(), d.Day(), clock%24, 0, 0, 0, zones[(clock/24)%len(zones)])
}

// timeToDay keeps only the date ("Only the date is used, the time and
// timezone are ignored").
func timeToDay(t time.Time) int64 {
	if t.IsZero() {
		return 0
	}
	d := time.Date(t.Year(), t.Month(), t.Day(), 0, 0, 0, 0, time.UTC)
	return int64(d.Sub(dayBase) / (24 * time.Hour))
}

func realFlag(s string) imap.Flag {
	if strings.HasPrefix(s, `\`) && len(s) > 1 {
		return imap.Flag(`\` + strings.ToUpper(s[1:2]) + s[2:])
	}
	return imap.Flag(s)
}

func realHeaderKey(s string) string {
	parts := strings.Split(s, "-")
	for i, p := range parts {
		if p != "" {
			parts[i] = strings.ToUpper(p[:1]) + p[1:]
		}
	}
	return strings.Join(parts, "-")
}

// build makes the real value from the model value.
func build(c *crit, hour int) imap.SearchCriteria {
	var out imap.SearchCriteria
	for _, s := range c.Seq {
		var set imap.SeqSet
		for _, r := range s {
			set = append(set, imap.SeqRange{Start: r[0], Stop: r[1]})
		}
		out.SeqNum = append(out.SeqNum, set)
	}
	for _, s := range c.UID {
		if len(s) == 1 && s[0] == [2]uint32{0, 0} {
			// the model's "$": the saved search result (a marker value, not a list of ranges)
			out.UID = append(out.UID, imap.SearchRes())
			continue
		}
		var set imap.UIDSet
		for _, r := range s {
			set = append(set, imap.UIDRange{Start: imap.UID(r[0]), Stop: imap.UID(r[1])})
		}
		out.UID = append(out.UID, set)
	}
	out.Since = dayToTime(c.Since, hour)
	out.Before = dayToTime(c.Before, hour)
	out.SentSince = dayToTime(c.SentSince, hour)
	out.SentBefore = dayToTime(c.SentBefore, hour)
	for _, h := range c.Header {
		out.Header = append(out.Header, imap.SearchCriteriaHeaderField{Key: realHeaderKey(h.K), Value: h.V})
	}
	out.Body = append(out.Body, c.Body...)
	out.Text = append(out.Text, c.Text...)
	for _, f := range c.Flag {
		out.Flag = append(out.Flag, realFlag(f))
	}
	for _, f := range c.NotFlag {
		out.NotFlag = append(out.NotFlag, realFlag(f))
	}
	out.Larger = c.Larger
	out.Smaller = c.Smaller
	for i := range c.Not {
		out.Not = append(out.Not, build(&c.Not[i], hour))
	}
	for i := range c.Or {
		out.Or = append(out.Or, [2]imap.SearchCriteria{build(&c.Or[i][0], hour), build(&c.Or[i][1], hour)})
	}
	return out
}

// observe reads the real value back, field by field.
func observe(c *imap.SearchCriteria) crit {
	var out crit
	for _, s := range c.SeqNum {
		set := [][2]uint32{}
		for _, r := range s {
			set = append(set, [2]uint32{r.Start, r.Stop})
		}
		out.Seq = append(out.Seq, set)
	}
	for _, s := range c.UID {
		if imap.IsSearchRes(s) {
			out.UID = append(out.UID, [][2]uint32{{0, 0}})
			continue
		}
		set := [][2]uint32{}
		for _, r := range s {
			set = append(set, [2]uint32{uint32(r.Start), uint32(r.Stop)})
		}
		out.UID = append(out.UID, set)
	}
	out.Since = timeToDay(c.Since)
	out.Before = timeToDay(c.Before)
	out.SentSince = timeToDay(c.SentSince)
	out.SentBefore = timeToDay(c.SentBefore)
	for _, h := range c.Header {
		out.Header = append(out.Header, hdr{K: strings.ToLower(h.Key), V: h.Value})
	}
	out.Body = append(out.Body, c.Body...)
	out.Text = append(out.Text, c.Text...)
	for _, f := range c.Flag {
		out.Flag = append(out.Flag, strings.ToLower(string(f)))
	}
	for _, f := range c.NotFlag {
		out.NotFlag = append(out.NotFlag, strings.ToLower(string(f)))
	}
	out.Larger = c.Larger
	out.Smaller = c.Smaller
	for i := range c.Not {
		out.Not = append(out.Not, observe(&c.Not[i]))
	}
	for i := range c.Or {
		out.Or = append(out.Or, [2]crit{observe(&c.Or[i][0]), observe(&c.Or[i][1])})
	}
	out.norm()
	return out
}

func isAtom(s string) bool {
	if s == "" {
		return false
	}
	for _, ch := range s {
		if !(ch >= 'a' && ch <= 'z' || ch >= 'A' && ch <= 'Z' || ch >= '0' && ch <= '9' || ch == '-' || ch == '.') {
			return false
		}
	}
	return true
}

func astring(s string) string {
	if isAtom(s) {
		return s
	}
	return `"` + strings.NewReplacer(`\`, `\\`, `"`, `\"`).Replace(s) + `"`
}

func setText(set [][2]uint32) string {
	var parts []string
	for _, r := range set {
		if r[0] == r[1] {
			parts = append(parts, fmt.Sprint(r[0]))
		} else {
			parts = append(parts, fmt.Sprintf("%d:%d", r[0], r[1]))
		}
	}
	return strings.Join(parts, ",")
}

// render writes one search-key as text.
func render(k *key) string {
	switch k.K {
	case "KEYWORD", "UNKEYWORD":
		return k.K + " " + k.S
	case "SEQ":
		return setText(k.Set)
	case "UID":
		return "UID " + setText(k.Set)
	case "SINCE", "BEFORE", "ON", "SENTSINCE", "SENTBEFORE", "SENTON":
		return k.K + " " + dayToTime(k.N, 0).Format("2-Jan-2006")
	case "LARGER", "SMALLER":
		return fmt.Sprintf("%s %d", k.K, k.N)
	case "HEADER":
		return "HEADER " + astring(k.S) + " " + astring(k.V)
	case "BCC", "CC", "FROM", "SUBJECT", "TO", "BODY", "TEXT":
		return k.K + " " + astring(k.V)
	case "NOT":
		return "NOT " + render(&k.Sub[0])
	case "OR":
		return "OR " + render(&k.Sub[0]) + " " + render(&k.Sub[1])
	case "LIST":
		parts := make([]string, len(k.Sub))
		for i := range k.Sub {
			parts[i] = render(&k.Sub[i])
		}
		return "(" + strings.Join(parts, " ") + ")"
	}
	return k.K // ALL, SEEN, UNSEEN, NEW, OLD, RECENT, ANSWERED, ...
}

// ---------------------------------------------------------------- real code: And

func runAnd(tc *tcase) record {
	a := build(&tc.A, tc.HA)
	b := build(&tc.B, tc.HB)
	ra, rb := observe(&a), observe(&b) // the operands as the real structs hold them
	a.And(&b)
	res := observe(&a)
	derivations(tc, &ra, &rb)
	return record{Kind: "and", A: &ra, B: &rb, OK: true, R: res, HA: tc.HA, HB: tc.HB}
}

// what And computes must be a value of its own: the operand is left as it was, and a result stays what it is when
// other criteria are derived from the same operands afterwards (c1 = {} AND a AND b; c2 = {} AND a AND y: c1 and a
// are what they were)
type aliasT struct{ sig, detail string }

var (
	aliasMu   sync.Mutex
	aliasSeen []aliasT
	aliasN    int
)

func same(x, y *crit) bool {
	bx, _ := json.Marshal(x)
	by, _ := json.Marshal(y)
	return string(bx) == string(by)
}

// spare re-allocates every list with room to grow (what append does to a list that was built piece by piece)
func spare(c *imap.SearchCriteria) {
	c.SeqNum = append(make([]imap.SeqSet, 0, len(c.SeqNum)+4), c.SeqNum...)
	c.UID = append(make([]imap.UIDSet, 0, len(c.UID)+4), c.UID...)
	c.Header = append(make([]imap.SearchCriteriaHeaderField, 0, len(c.Header)+4), c.Header...)
	c.Body = append(make([]string, 0, len(c.Body)+4), c.Body...)
	c.Text = append(make([]string, 0, len(c.Text)+4), c.Text...)
	c.Flag = append(make([]imap.Flag, 0, len(c.Flag)+4), c.Flag...)
	c.NotFlag = append(make([]imap.Flag, 0, len(c.NotFlag)+4), c.NotFlag...)
	c.Not = append(make([]imap.SearchCriteria, 0, len(c.Not)+4), c.Not...)
	c.Or = append(make([][2]imap.SearchCriteria, 0, len(c.Or)+4), c.Or...)
}

func derivations(tc *tcase, ra, rb *crit) {
	note := func(sig, detail string) {
		aliasMu.Lock()
		aliasN++
		if len(aliasSeen) < 40 {
			aliasSeen = append(aliasSeen, aliasT{sig, detail})
		}
		aliasMu.Unlock()
	}
	a := build(&tc.A, tc.HA)
	b := build(&tc.B, tc.HB)
	spare(&a)
	spare(&b)
	// a marker criteria that touches every list
	y := imap.SearchCriteria{Flag: []imap.Flag{"zzflag"}, NotFlag: []imap.Flag{"zznot"}, Body: []string{"zzbody"}, Text: []string{"zztext"},
		Header: []imap.SearchCriteriaHeaderField{{Key: "X-Zz", Value: "zz"}}}
	var set imap.SeqSet
	set.AddNum(4242)
	y.SeqNum = []imap.SeqSet{set}
	var us imap.UIDSet
	us.AddNum(4243)
	y.UID = []imap.UIDSet{us}
	y.Not = []imap.SearchCriteria{{Body: []string{"zznotbody"}}}
	y.Or = [][2]imap.SearchCriteria{{{Body: []string{"zzor1"}}, {Body: []string{"zzor2"}}}}
	var c1 imap.SearchCriteria
	c1.And(&a)
	c1.And(&b)
	r1 := observe(&c1)
	if oa, ob := observe(&a), observe(&b); !same(&oa, ra) || !same(&ob, rb) {
		note("and-modifies-operand", fmt.Sprintf("after c1 = {} AND a AND b the operands read a=%s b=%s, they were a=%s b=%s", tc.show(&oa), tc.show(&ob), tc.show(ra), tc.show(rb)))
		return
	}
	var c2 imap.SearchCriteria
	c2.And(&a)
	c2.And(&y)
	var c3 imap.SearchCriteria
	c3.And(&b)
	c3.And(&y)
	if again := observe(&c1); !same(&again, &r1) {
		note("and-result-aliased", fmt.Sprintf("c1 = {} AND a AND b read %s; after c2 = {} AND a AND y and c3 = {} AND b AND y were derived from the same operands it reads %s (a=%s b=%s)", tc.show(&r1), tc.show(&again), tc.show(ra), tc.show(rb)))
		return
	}
	if oa, ob := observe(&a), observe(&b); !same(&oa, ra) || !same(&ob, rb) {
		note("and-modifies-operand", fmt.Sprintf("after further criteria were derived from them the operands read a=%s b=%s, they were a=%s b=%s", tc.show(&oa), tc.show(&ob), tc.show(ra), tc.show(rb)))
	}
}

func (tc *tcase) show(c *crit) string {
	b, _ := json.Marshal(c)
	if len(b) > 300 {
		return string(b[:300]) + "..."
	}
	return string(b)
}

// ---------------------------------------------------------------- real code: SEARCH on a connection

type stub struct {
	vh.NopSession
	mu   sync.Mutex
	got  *crit
	call int
}

func (s *stub) Search(kind imapserver.NumKind, criteria *imap.SearchCriteria, options *imap.SearchOptions) (*imap.SearchData, error) {
	c := observe(criteria)
	s.mu.Lock()
	s.got = &c
	s.call++
	s.mu.Unlock()
	return &imap.SearchData{All: imap.SeqSet{}}, nil
}

type world struct {
	srv   *imapserver.Server
	ln    *vh.Listener
	stubs chan *stub
}

func newWorld() *world {
	w := &world{stubs: make(chan *stub, 64), ln: vh.NewListener()}
	w.srv = imapserver.New(&imapserver.Options{
		NewSession: func(c *imapserver.Conn) (imapserver.Session, *imapserver.GreetingData, error) {
			st := &stub{}
			w.stubs <- st
			return st, &imapserver.GreetingData{PreAuth: true}, nil
		},
		InsecureAuth: true,
		Logger:       vh.NewLogBuf(),
	})
	go w.srv.Serve(w.ln)
	return w
}

type peer struct {
	st   *stub
	raw  *vh.Raw
	conn *vh.Conn
}

func (w *world) dial() (*peer, error) {
	c, _, err := w.ln.Dial()
	if err != nil {
		return nil, err
	}
	p := &peer{conn: c, raw: vh.NewRaw(c)}
	p.raw.Timeout = 120 * time.Second // a slow machine is not an observation
	p.st = <-w.stubs
	if _, err := p.raw.ReadResp(); err != nil {
		return nil, fmt.Errorf("greeting: %v", err)
	}
	if _, tagged, err := p.raw.Cmd("SELECT INBOX"); err != nil || tagged.Name != "OK" {
		return nil, fmt.Errorf("select failed: %v %+v", err, tagged)
	}
	return p, nil
}

func runKeys(p *peer, tc *tcase) (record, error) {
	parts := make([]string, len(tc.Keys))
	for i := range tc.Keys {
		parts[i] = render(&tc.Keys[i])
	}
	line := "SEARCH " + strings.Join(parts, " ")
	p.st.mu.Lock()
	p.st.got = nil
	before := p.st.call
	p.st.mu.Unlock()
	_, tagged, err := p.raw.Cmd(line)
	if err != nil {
		return record{}, fmt.Errorf("%q: %v", line, err)
	}
	p.st.mu.Lock()
	got, calls := p.st.got, p.st.call-before
	p.st.mu.Unlock()
	rec := record{Kind: "keys", Keys: tc.Keys, Wire: line, Resp: tagged.Name}
	if got != nil && calls == 1 && tagged.Name == "OK" {
		rec.OK = true
		rec.R = *got
	} else {
		rec.Resp = strings.TrimSpace(tagged.Raw)
	}
	rec.R.norm()
	return rec, nil
}

// ---------------------------------------------------------------- running cases

func runAll(cases []tcase, outPath string, out *vh.Out) {
	recs := make([]record, len(cases))
	var keyIdx []int
	for i := range cases {
		cases[i].A.norm()
		cases[i].B.norm()
		for j := range cases[i].Keys {
			cases[i].Keys[j].norm()
		}
		if cases[i].Fam == "keys" {
			keyIdx = append(keyIdx, i)
		} else {
			if cases[i].HA == 0 && cases[i].HB == 0 {
				cp := clockPairs[i%len(clockPairs)]
				cases[i].HA, cases[i].HB = cp[0], cp[1]
			}
			recs[i] = runAnd(&cases[i])
		}
	}
	var infra string
	if len(keyIdx) > 0 {
		w := newWorld()
		const nw = 8
		var wg sync.WaitGroup
		var mu sync.Mutex
		// dial one after the other: the stub handed out by NewSession is
		// matched to the connection by order
		var peers []*peer
		for k := 0; k < nw && infra == ""; k++ {
			p, err := w.dial()
			if err != nil {
				infra = err.Error()
				break
			}
			peers = append(peers, p)
		}
		for k := 0; k < len(peers) && infra == ""; k++ {
			wg.Add(1)
			go func(k int) {
				defer wg.Done()
				p := peers[k]
				defer p.conn.Close()
				for j := k; j < len(keyIdx); j += nw {
					rec, err := runKeys(p, &cases[keyIdx[j]])
					if err != nil {
						mu.Lock()
						infra = err.Error()
						mu.Unlock()
						return
					}
					recs[keyIdx[j]] = rec
				}
			}(k)
		}
		wg.Wait()
		w.srv.Close()
	}
	if infra != "" {
		out.Summary(map[string]interface{}{"infra_error": infra})
		out.Flush()
		os.Exit(2)
	}
	for _, m := range aliasSeen {
		out.Mismatch(m.sig, m.detail, nil)
	}
	fh, err := os.Create(outPath)
	if err != nil {
		out.Summary(map[string]interface{}{"infra_error": err.Error()})
		out.Flush()
		os.Exit(2)
	}
	enc := json.NewEncoder(fh)
	enc.SetEscapeHTML(false)
	pairs, cmds, nontrivial, rejected := 0, 0, 0, 0
	var samples []interface{}
	for i := range recs {
		if err := enc.Encode(&recs[i]); err != nil {
			panic(err)
		}
		if recs[i].Kind == "and" {
			pairs++
			if recs[i].A.populated() && recs[i].B.populated() {
				nontrivial++
				if len(samples) < 2 && i%7 == 3 {
					samples = append(samples, recs[i])
				}
			}
		} else {
			cmds++
			if !recs[i].OK {
				rejected++
			}
			if len(recs[i].Keys) >= 2 {
				nontrivial++
				if len(samples) < 4 && i%11 == 5 {
					samples = append(samples, map[string]interface{}{"wire": recs[i].Wire, "received": recs[i].R})
				}
			}
		}
	}
	fh.Close()
	out.Summary(map[string]interface{}{"records": len(recs), "pairs": pairs, "commands": cmds,
		"nontrivial": nontrivial, "not_accepted_by_server": rejected, "samples": samples})
	out.Flush()
}

func cmdGen(tlcOut, outPath string, out *vh.Out) {
	var cases []tcase
	err := vh.ReadTLines(tlcOut, func(p []byte) error {
		var tc tcase
		if err := json.Unmarshal(p, &tc); err != nil {
			return err
		}
		cases = append(cases, tc)
		return nil
	})
	if err != nil || len(cases) == 0 {
		out.Summary(map[string]interface{}{"infra_error": fmt.Sprintf("reading TLC output: %v (%d cases)", err, len(cases))})
		out.Flush()
		os.Exit(2)
	}
	runAll(cases, outPath, out)
}

func cmdOne(casePath, outPath string, out *vh.Out) {
	b, err := os.ReadFile(casePath)
	var tc tcase
	if err == nil {
		err = json.Unmarshal(b, &tc)
	}
	if err != nil {
		out.Summary(map[string]interface{}{"infra_error": err.Error()})
		out.Flush()
		os.Exit(2)
	}
	runAll([]tcase{tc}, outPath, out)
}

// ---------------------------------------------------------------- random cases (beyond TLC's bounds)

var groupNames = []string{"seq", "uid", "date", "sent", "size", "flags", "hdr", "body", "text"}

// pools of one case: a few values per dimension, so that the universe the
// judge has to enumerate stays small although values differ from case to case
type pools struct {
	on     map[string]bool
	days   []int64
	sizes  []int64
	flags  []string
	hdrs   []hdr
	bodies []string
	texts  []string
	maxNum uint32
}

var allFlags = []string{`\seen`, `\answered`, `\deleted`, `\draft`, `\flagged`, `\recent`, "kw1", "kw2", "$forwarded"}
var allSizes = []int64{1, 2, 3, 9, 10, 11, 100, 4096, 65536, 1 << 20, 1 << 30}
var allNeedles = []string{"n1", "n2", "hello", "hello world", "x", "100%", "re: n1"}
var allHdrKeys = []string{"subject", "from", "to", "cc", "bcc", "x-h", "message-id", "x-spam-level"}

func pick(r *rand.Rand, n int, from int) []int {
	p := r.Perm(from)
	if n > from {
		n = from
	}
	return p[:n]
}

func newPools(r *rand.Rand) *pools {
	p := &pools{on: map[string]bool{}}
	for _, i := range pick(r, 2+r.Intn(2), len(groupNames)) {
		p.on[groupNames[i]] = true
	}
	base := int64(1 + r.Intn(400))
	for i := 0; i < 3; i++ {
		p.days = append(p.days, base+int64(r.Intn(4)))
	}
	for _, i := range pick(r, 3, len(allSizes)) {
		p.sizes = append(p.sizes, allSizes[i])
	}
	for _, i := range pick(r, 3, len(allFlags)) {
		p.flags = append(p.flags, allFlags[i])
	}
	for _, i := range pick(r, 2, len(allHdrKeys)) {
		p.hdrs = append(p.hdrs, hdr{K: allHdrKeys[i], V: allNeedles[r.Intn(len(allNeedles))]})
	}
	for _, i := range pick(r, 2, len(allNeedles)) {
		p.bodies = append(p.bodies, allNeedles[i])
	}
	for _, i := range pick(r, 2, len(allNeedles)) {
		p.texts = append(p.texts, allNeedles[i])
	}
	p.maxNum = uint32(3 + r.Intn(3))
	return p
}

func (p *pools) numSet(r *rand.Rand) [][2]uint32 {
	var set [][2]uint32
	for i := 0; i < 1+r.Intn(2); i++ {
		lo := 1 + uint32(r.Intn(int(p.maxNum)))
		hi := lo + uint32(r.Intn(int(p.maxNum-lo)+1))
		set = append(set, [2]uint32{lo, hi})
	}
	return set
}
func (p *pools) day(r *rand.Rand) int64   { return p.days[r.Intn(len(p.days))] }
func (p *pools) size(r *rand.Rand) int64  { return p.sizes[r.Intn(len(p.sizes))] }
func (p *pools) flag(r *rand.Rand) string { return p.flags[r.Intn(len(p.flags))] }

func some(r *rand.Rand, n int, f func()) {
	for i := 0; i < n; i++ {
		f()
	}
}

// randCrit: random criteria tree of at most the given depth.
func (p *pools) randCrit(r *rand.Rand, depth int) crit {
	var c crit
	half := func() bool { return r.Intn(2) == 0 }
	if p.on["seq"] && half() {
		some(r, 1+r.Intn(2), func() { c.Seq = append(c.Seq, p.numSet(r)) })
	}
	if p.on["uid"] && half() {
		some(r, 1+r.Intn(2), func() { c.UID = append(c.UID, p.numSet(r)) })
	}
	if p.on["date"] {
		if half() {
			c.Since = p.day(r)
		}
		if half() {
			c.Before = p.day(r)
		}
	}
	if p.on["sent"] {
		if half() {
			c.SentSince = p.day(r)
		}
		if half() {
			c.SentBefore = p.day(r)
		}
	}
	if p.on["size"] {
		if half() {
			c.Larger = p.size(r)
		}
		if half() {
			c.Smaller = p.size(r)
		}
	}
	if p.on["flags"] {
		if half() {
			some(r, 1+r.Intn(2), func() { c.Flag = append(c.Flag, p.flag(r)) })
		}
		if half() {
			some(r, 1+r.Intn(2), func() { c.NotFlag = append(c.NotFlag, p.flag(r)) })
		}
	}
	if p.on["hdr"] && half() {
		some(r, 1+r.Intn(2), func() { c.Header = append(c.Header, p.hdrs[r.Intn(len(p.hdrs))]) })
	}
	if p.on["body"] && half() {
		some(r, 1+r.Intn(2), func() { c.Body = append(c.Body, p.bodies[r.Intn(len(p.bodies))]) })
	}
	if p.on["text"] && half() {
		some(r, 1+r.Intn(2), func() { c.Text = append(c.Text, p.texts[r.Intn(len(p.texts))]) })
	}
	if depth > 1 {
		if r.Intn(3) == 0 {
			some(r, 1+r.Intn(2), func() { c.Not = append(c.Not, p.randCrit(r, depth-1)) })
		}
		if r.Intn(3) == 0 {
			some(r, 1+r.Intn(2), func() {
				c.Or = append(c.Or, [2]crit{p.randCrit(r, depth-1), p.randCrit(r, depth-1)})
			})
		}
	}
	return c
}

// randKey: random search-key; depth bounds NOT / OR / parenthesised nesting.
func (p *pools) randKey(r *rand.Rand, depth int) key {
	if depth > 1 && r.Intn(4) == 0 {
		switch r.Intn(3) {
		case 0:
			return key{K: "NOT", Sub: []key{p.randKey(r, depth-1)}}
		case 1:
			return key{K: "OR", Sub: []key{p.randKey(r, depth-1), p.randKey(r, depth-1)}}
		default:
			var sub []key
			some(r, 1+r.Intn(3), func() { sub = append(sub, p.randKey(r, depth-1)) })
			return key{K: "LIST", Sub: sub}
		}
	}
	var on []string
	for _, g := range groupNames {
		if p.on[g] {
			on = append(on, g)
		}
	}
	switch on[r.Intn(len(on))] {
	case "seq":
		return key{K: "SEQ", Set: p.numSet(r)}
	case "uid":
		return key{K: "UID", Set: p.numSet(r)}
	case "date":
		return key{K: []string{"SINCE", "BEFORE", "ON"}[r.Intn(3)], N: p.day(r)}
	case "sent":
		return key{K: []string{"SENTSINCE", "SENTBEFORE", "SENTON"}[r.Intn(3)], N: p.day(r)}
	case "size":
		return key{K: []string{"LARGER", "SMALLER"}[r.Intn(2)], N: p.size(r)}
	case "flags":
		f := p.flag(r)
		un := r.Intn(2) == 0
		if strings.HasPrefix(f, `\`) {
			name := strings.ToUpper(f[1:])
			if name == "RECENT" {
				return key{K: []string{"RECENT", "OLD", "NEW"}[r.Intn(3)]}
			}
			if name == "SEEN" && r.Intn(4) == 0 {
				return key{K: "NEW"}
			}
			if un {
				name = "UN" + name
			}
			return key{K: name}
		}
		if un {
			return key{K: "UNKEYWORD", S: f}
		}
		return key{K: "KEYWORD", S: f}
	case "hdr":
		h := p.hdrs[r.Intn(len(p.hdrs))]
		switch h.K {
		case "subject", "from", "to", "cc", "bcc":
			if r.Intn(2) == 0 {
				return key{K: strings.ToUpper(h.K), V: h.V}
			}
		}
		return key{K: "HEADER", S: h.K, V: h.V}
	case "body":
		return key{K: "BODY", V: p.bodies[r.Intn(len(p.bodies))]}
	case "text":
		return key{K: "TEXT", V: p.texts[r.Intn(len(p.texts))]}
	}
	return key{K: "ALL"}
}

func cmdRandom(outPath string, seed int64, pairs, cmds int, out *vh.Out) {
	r := rand.New(rand.NewSource(seed))
	var cases []tcase
	for i := 0; i < pairs; i++ {
		p := newPools(r)
		cases = append(cases, tcase{Fam: "random", A: p.randCrit(r, 3), B: p.randCrit(r, 3),
			HA: r.Intn(24 * len(zones)), HB: r.Intn(24 * len(zones))})
	}
	for i := 0; i < cmds; i++ {
		p := newPools(r)
		var ks []key
		some(r, 1+r.Intn(8), func() { ks = append(ks, p.randKey(r, 3)) })
		cases = append(cases, tcase{Fam: "keys", Keys: ks})
	}
	runAll(cases, outPath, out)
}

func main() {
	if len(os.Args) < 3 {
		fmt.Fprintln(os.Stderr, "usage: searchalg gen <tlc-out> <out.ndjson> | random <out.ndjson> [flags] | one <case.json> <out.ndjson>")
		os.Exit(2)
	}
	out := vh.NewOut()
	switch os.Args[1] {
	case "gen":
		if len(os.Args) < 4 {
			os.Exit(2)
		}
		cmdGen(os.Args[2], os.Args[3], out)
	case "one":
		if len(os.Args) < 4 {
			os.Exit(2)
		}
		cmdOne(os.Args[2], os.Args[3], out)
	case "random":
		fs := flag.NewFlagSet("random", flag.ExitOnError)
		seed := fs.Int64("seed", 1, "")
		pairs := fs.Int("pairs", 300, "")
		cmds := fs.Int("cmds", 300, "")
		fs.Parse(os.Args[3:])
		cmdRandom(os.Args[2], *seed, *pairs, *cmds, out)
	default:
		os.Exit(2)
	}
}
