// Package verifwire is NOT part of go-imap.  The C01 check adds this file to
// the go-imap module at build time with `go build -overlay` (as
// <repo>/verifwire/shim.go; nothing is written into the repository) so that
// the harness, which lives in another module, can reach internal/imapwire and
// internal.ExpectFlag / ExpectMailboxAttr.  It adds no behaviour: type aliases
// and one-line forwarding functions only.
package verifwire

import (
	"bufio"

	imap "github.com/emersion/go-imap/v2"
	"github.com/emersion/go-imap/v2/internal"
	"github.com/emersion/go-imap/v2/internal/imapwire"
)

type (
	Encoder             = imapwire.Encoder
	Decoder             = imapwire.Decoder
	ConnSide            = imapwire.ConnSide
	ContinuationRequest = imapwire.ContinuationRequest
	NumKind             = imapwire.NumKind
	LiteralReader       = imapwire.LiteralReader
)

const (
	ConnSideClient = imapwire.ConnSideClient
	ConnSideServer = imapwire.ConnSideServer
	NumKindSeq     = imapwire.NumKindSeq
	NumKindUID     = imapwire.NumKindUID
)

func NewEncoder(w *bufio.Writer, side ConnSide) *Encoder { return imapwire.NewEncoder(w, side) }
func NewDecoder(r *bufio.Reader, side ConnSide) *Decoder { return imapwire.NewDecoder(r, side) }
func NewContinuationRequest() *ContinuationRequest       { return imapwire.NewContinuationRequest() }

func ExpectFlag(dec *Decoder) (imap.Flag, error) { return internal.ExpectFlag(dec) }
func ExpectMailboxAttr(dec *Decoder) (imap.MailboxAttr, error) {
	return internal.ExpectMailboxAttr(dec)
}
func ExpectFlagList(dec *Decoder) ([]imap.Flag, error) { return internal.ExpectFlagList(dec) }
