//go:build c01shim

// Command wire binds spec/Wire.tla to go-imap's wire codec (property C01):
// internal/imapwire Encoder / Decoder and internal.ExpectFlag /
// ExpectMailboxAttr.  The internal packages are reached through package
// verifwire, which the check adds to the go-imap module with
// `go build -overlay` (see testdata/verifwire/shim.go; the build tag keeps this
// command out of builds that have no overlay).
//
//	wire replay <tlc-output> <enc.ndjson>   every TLC-generated value: (i) the real Encoder in all 16
//	                                        modes, what it wrote and what the peer's real Decoder made
//	                                        of it is RECORDED for WireTrace; (ii) every representation
//	                                        TLC lists is fed to the real Decoder and compared with the
//	                                        value the specification predicts
//	wire random <enc.ndjson> -seed N        random values beyond TLC's bounds, recorded the same way
//	wire one <case.json>                    one decoder case (replay files)
//	wire record <case.json> <enc.ndjson>    one value, recorded (replay files)
//
// The harness has no oracle: in (i) it only records, in (ii) it compares with
// what TLC printed.
package main

import (
	"bufio"
	"bytes"
	"encoding/json"
	"flag"
	"fmt"
	"io"
	"math/rand"
	"os"
	"sort"
	"strconv"
	"strings"
	"unicode/utf8"

	imap "github.com/emersion/go-imap/v2"
	w "github.com/emersion/go-imap/v2/verifwire"

	"verif/harness/vh"
)

// sentinels: what follows the value on the wire (index sn-1; Wire.tla Sentinels).  The second one
// puts a quoted string with an escaped quote, a literal header look-alike and a parenthesis behind the
// value: "consuming exactly the bytes that were written" must not depend on what comes next.
var sentinels = []string{" Z\r\n", " Z \"q\\\"\" {3})\r\n"}

// ---------------------------------------------------------------- values

type node struct {
	K  string  `json:"k"` // "l" list, "s" string, "a" atom
	B  []int   `json:"b"`
	It []*node `json:"it"`
}

type longClass struct {
	N    int      `json:"n"`
	Fill int      `json:"fill"`
	Ins  [][2]int `json:"ins"` // <<position (1-based), byte>>, ascending
}

type nestClass struct {
	N     int   `json:"n"`
	Inner *node `json:"inner"`
}

func ints(b []byte) []int {
	out := make([]int, len(b))
	for i, c := range b {
		out[i] = int(c)
	}
	return out
}

func toBytes(a []int) []byte {
	out := make([]byte, len(a))
	for i, c := range a {
		out[i] = byte(c)
	}
	return out
}

func (c *longClass) expand() []byte {
	out := bytes.Repeat([]byte{byte(c.Fill)}, c.N)
	for _, in := range c.Ins {
		if in[0] >= 1 && in[0] <= c.N {
			out[in[0]-1] = byte(in[1])
		}
	}
	return out
}

// compress writes a long byte string as a length class (most frequent byte +
// the positions that differ); nil if more than 16 positions differ.
func compress(b []byte) *longClass {
	var cnt [256]int
	for _, c := range b {
		cnt[c]++
	}
	fill := 0
	for c := 1; c < 256; c++ {
		if cnt[c] > cnt[fill] {
			fill = c
		}
	}
	lc := &longClass{N: len(b), Fill: fill, Ins: [][2]int{}}
	for i, c := range b {
		if int(c) != fill {
			if len(lc.Ins) >= 16 {
				return nil
			}
			lc.Ins = append(lc.Ins, [2]int{i + 1, int(c)})
		}
	}
	return lc
}

func (n *nestClass) expand() *node {
	t := n.Inner
	for i := 0; i < n.N; i++ {
		t = &node{K: "l", B: []int{}, It: []*node{t}}
	}
	return t
}

// chain: the number of single-item lists from the root down, and what is inside
func chain(t *node) *nestClass {
	n := 0
	for t != nil && t.K == "l" && len(t.It) == 1 {
		t = t.It[0]
		n++
	}
	return &nestClass{N: n, Inner: t}
}

// symbolic points of NumSet.tla with Max = 9, Gaps = {6}: 0 is '*'
func pointToNum(p int) uint32 {
	switch {
	case p >= 0 && p <= 5:
		return uint32(p)
	case p >= 7 && p <= 9:
		return uint32(4294967295 - uint32(9-p))
	}
	panic(fmt.Sprintf("point %d stands for no number", p))
}

func numToPoint(n uint32) int {
	switch {
	case n <= 5:
		return int(n)
	case n >= 4294967293:
		return 9 - int(4294967295-n)
	}
	return -1
}

type value struct {
	kind string
	raw  json.RawMessage
	b    []byte     // str, flag, attr, num kinds (decimal numeral)
	cps  []int      // mbox
	set  [][2]int   // seqset, uidset
	tree *node      // list
	long *longClass // lstr
	nest *nestClass // nest
}

func parseValue(kind string, raw json.RawMessage) (*value, error) {
	v := &value{kind: kind, raw: raw}
	var err error
	switch kind {
	case "str", "flag", "attr", "num", "num64", "modseq":
		var a []int
		err = json.Unmarshal(raw, &a)
		v.b = toBytes(a)
	case "lstr":
		v.long = &longClass{}
		err = json.Unmarshal(raw, v.long)
		v.b = v.long.expand()
	case "mbox":
		err = json.Unmarshal(raw, &v.cps)
	case "seqset", "uidset":
		err = json.Unmarshal(raw, &v.set)
	case "sres":
	case "list":
		v.tree = &node{}
		err = json.Unmarshal(raw, v.tree)
	case "nest":
		v.nest = &nestClass{}
		err = json.Unmarshal(raw, v.nest)
		v.tree = v.nest.expand()
	default:
		err = fmt.Errorf("unknown kind %q", kind)
	}
	return v, err
}

func cpsToString(cps []int) string {
	var sb strings.Builder
	for _, c := range cps {
		sb.WriteRune(rune(c))
	}
	return sb.String()
}

func stringToCps(s string) []int {
	out := []int{}
	for len(s) > 0 {
		r, n := utf8.DecodeRuneInString(s)
		if r == utf8.RuneError && n <= 1 {
			out = append(out, -1)
		} else {
			out = append(out, int(r))
		}
		s = s[n:]
	}
	return out
}

// ---------------------------------------------------------------- encoder

func sideOf(mode int) w.ConnSide {
	if mode&8 != 0 {
		return w.ConnSideServer
	}
	return w.ConnSideClient
}

func otherSide(s w.ConnSide) w.ConnSide {
	if s == w.ConnSideServer {
		return w.ConnSideClient
	}
	return w.ConnSideServer
}

func encTree(enc *w.Encoder, t *node, api int) {
	switch t.K {
	case "s":
		enc.String(string(toBytes(t.B)))
	case "a":
		enc.Atom(string(toBytes(t.B)))
	default:
		if api == 0 {
			enc.List(len(t.It), func(i int) { encTree(enc, t.It[i], api) })
		} else {
			le := enc.BeginList()
			for _, it := range t.It {
				encTree(le.Item(), it, api)
			}
			le.End()
		}
	}
}

type encObs struct {
	Err   bool   `json:"err"`
	Panic string `json:"panic,omitempty"`
	Bytes []byte `json:"-"`
}

// encode runs the real Encoder: the value, then SP "Z" CRLF through the same encoder.
// What reached the connection is returned.
func encode(v *value, mode, api, sn int) (obs encObs) {
	var conn bytes.Buffer
	bw := bufio.NewWriter(&conn)
	enc := w.NewEncoder(bw, sideOf(mode))
	enc.QuotedUTF8 = mode&4 != 0
	enc.LiteralMinus = mode&2 != 0
	enc.LiteralPlus = mode&1 != 0
	// the continuation request of a synchronising literal is already satisfied:
	// the handshake itself is another property
	enc.NewContinuationRequest = func() *w.ContinuationRequest {
		c := w.NewContinuationRequest()
		c.Done("")
		return c
	}
	defer func() {
		if r := recover(); r != nil {
			obs.Panic = fmt.Sprint(r)
			obs.Bytes = append([]byte{}, conn.Bytes()...)
		}
	}()
	switch v.kind {
	case "str", "lstr":
		enc.String(string(v.b))
	case "mbox":
		enc.Mailbox(cpsToString(v.cps))
	case "flag":
		enc.Flag(imap.Flag(v.b))
	case "attr":
		enc.MailboxAttr(imap.MailboxAttr(v.b))
	case "num":
		n, err := strconv.ParseUint(string(v.b), 10, 32)
		if err != nil {
			panic("harness: bad num " + string(v.b))
		}
		enc.Number(uint32(n))
	case "num64":
		n, err := strconv.ParseInt(string(v.b), 10, 64)
		if err != nil {
			panic("harness: bad num64 " + string(v.b))
		}
		enc.Number64(n)
	case "modseq":
		n, err := strconv.ParseUint(string(v.b), 10, 64)
		if err != nil {
			panic("harness: bad modseq " + string(v.b))
		}
		enc.ModSeq(n)
	case "seqset":
		s := imap.SeqSet{}
		for _, r := range v.set {
			s = append(s, imap.SeqRange{Start: pointToNum(r[0]), Stop: pointToNum(r[1])})
		}
		enc.NumSet(s)
	case "uidset":
		s := imap.UIDSet{}
		for _, r := range v.set {
			s = append(s, imap.UIDRange{Start: imap.UID(pointToNum(r[0])), Stop: imap.UID(pointToNum(r[1]))})
		}
		enc.NumSet(s)
	case "sres":
		enc.NumSet(imap.SearchRes())
	case "list", "nest":
		encTree(enc, v.tree, api)
	}
	enc.SP().Atom(strings.TrimSuffix(sentinels[sn-1][1:], "\r\n")) // raw
	err := enc.CRLF()
	obs.Err = err != nil
	obs.Bytes = append([]byte{}, conn.Bytes()...)
	return obs
}

// ---------------------------------------------------------------- decoder

type decObs struct {
	F    string      `json:"f"`
	Ok   bool        `json:"ok"`
	Err  bool        `json:"err"`
	Val  interface{} `json:"val"`
	Left int         `json:"left"`
	Rest []int       `json:"rest"`
	Why  string      `json:"-"`
	GoOn bool        `json:"-"` // the same decoder could read on after the value
}

func readTree(dec *w.Decoder) (*node, error) {
	var items []*node
	isList, err := dec.List(func() error {
		t, err := readTree(dec)
		if err != nil {
			return err
		}
		items = append(items, t)
		return nil
	})
	if err != nil {
		return nil, err
	}
	if isList {
		if items == nil {
			items = []*node{}
		}
		return &node{K: "l", B: []int{}, It: items}, nil
	}
	var s string
	if dec.String(&s) {
		return &node{K: "s", B: ints([]byte(s)), It: []*node{}}, nil
	}
	if dec.Err() != nil {
		return nil, dec.Err()
	}
	if !dec.ExpectAtom(&s) {
		return nil, dec.Err()
	}
	return &node{K: "a", B: ints([]byte(s)), It: []*node{}}, nil
}

func setVal(ns imap.NumSet) interface{} {
	out := [][2]int{}
	switch s := ns.(type) {
	case imap.SeqSet:
		for _, r := range s {
			out = append(out, [2]int{numToPoint(r.Start), numToPoint(r.Stop)})
		}
	case imap.UIDSet:
		for _, r := range s {
			out = append(out, [2]int{numToPoint(uint32(r.Start)), numToPoint(uint32(r.Stop))})
		}
	default:
		return [][2]int{{-1, -1}}
	}
	return out
}

func strVal(kind string, s string) interface{} {
	if kind == "lstr" {
		if lc := compress([]byte(s)); lc != nil {
			return lc
		}
		return &longClass{N: -len(s), Fill: 0, Ins: [][2]int{}}
	}
	return ints([]byte(s))
}

func treeVal(kind string, t *node) interface{} {
	if t == nil {
		t = &node{K: "a", B: []int{}, It: []*node{}}
	}
	if kind == "nest" {
		return chain(t)
	}
	return t
}

// decoders lists the real decoding functions applicable to a value of the given
// kind written in a form of grammar g.
func decoders(kind, g string) []string {
	switch kind {
	case "str", "lstr":
		switch g {
		case "astring":
			return []string{"ExpectAString", "DiscardValue"}
		case "nstring":
			return []string{"ExpectNString", "ExpectNStringReader"}
		}
		return []string{"ExpectString", "String", "ExpectAString", "ExpectNString", "ExpectNStringReader", "DiscardValue"}
	case "mbox":
		return []string{"ExpectMailbox"}
	case "flag":
		return []string{"ExpectFlag"}
	case "attr":
		return []string{"ExpectMailboxAttr"}
	case "num":
		return []string{"ExpectNumber", "Number", "ExpectUID", "Number64", "ModSeq"}
	case "num64":
		return []string{"ExpectNumber64", "Number64"}
	case "modseq":
		return []string{"ExpectModSeq", "ModSeq"}
	case "seqset":
		return []string{"ExpectNumSet/seq"}
	case "uidset":
		return []string{"ExpectNumSet/uid", "ExpectUIDSet"}
	case "sres":
		return []string{"ExpectNumSet/uid", "ExpectNumSet/seq", "ExpectUIDSet"}
	case "list", "nest":
		return []string{"List", "DiscardValue"}
	}
	return nil
}

// decode feeds data to a fresh real Decoder of the given side and calls one decoding function.
func decode(kind, f string, side w.ConnSide, data []byte) (o decObs) {
	return decodeThen(kind, f, side, data, false)
}

// decodeThen: with goOn the same decoder is asked for the first tokens of what follows the value (SP, the atom Z):
// a decoder that handed out the right value but is left in a state in which nothing more can be read is no good
func decodeThen(kind, f string, side w.ConnSide, data []byte, goOn bool) (o decObs) {
	rd := bytes.NewReader(data)
	br := bufio.NewReader(rd)
	dec := w.NewDecoder(br, side)
	o.F = f
	var retErr error
	func() {
		defer func() {
			if r := recover(); r != nil {
				o.Ok = false
				retErr = fmt.Errorf("panic: %v", r)
			}
		}()
		switch f {
		case "ExpectString", "String", "ExpectAString", "ExpectNString":
			var s string
			switch f {
			case "ExpectString":
				o.Ok = dec.ExpectString(&s)
			case "String":
				o.Ok = dec.String(&s)
			case "ExpectAString":
				o.Ok = dec.ExpectAString(&s)
			case "ExpectNString":
				o.Ok = dec.ExpectNString(&s)
			}
			o.Val = strVal(kind, s)
		case "ExpectNStringReader":
			lit, _, ok := dec.ExpectNStringReader()
			o.Ok = ok
			s := ""
			if ok && lit != nil {
				b, err := io.ReadAll(lit)
				retErr = err
				s = string(b)
			}
			o.Val = strVal(kind, s)
		case "DiscardValue":
			o.Ok = dec.DiscardValue()
			o.Val = 0
		case "ExpectMailbox":
			var s string
			o.Ok = dec.ExpectMailbox(&s)
			o.Val = stringToCps(s)
		case "ExpectFlag":
			fl, err := w.ExpectFlag(dec)
			o.Ok, retErr = err == nil, err
			o.Val = ints([]byte(fl))
		case "ExpectMailboxAttr":
			at, err := w.ExpectMailboxAttr(dec)
			o.Ok, retErr = err == nil, err
			o.Val = ints([]byte(at))
		case "ExpectNumber", "Number":
			var n uint32
			if f == "Number" {
				o.Ok = dec.Number(&n)
			} else {
				o.Ok = dec.ExpectNumber(&n)
			}
			o.Val = ints([]byte(strconv.FormatUint(uint64(n), 10)))
		case "ExpectUID":
			var n imap.UID
			o.Ok = dec.ExpectUID(&n)
			o.Val = ints([]byte(strconv.FormatUint(uint64(n), 10)))
		case "ExpectNumber64", "Number64":
			var n int64
			if f == "Number64" {
				o.Ok = dec.Number64(&n)
			} else {
				o.Ok = dec.ExpectNumber64(&n)
			}
			o.Val = ints([]byte(strconv.FormatInt(n, 10)))
		case "ExpectModSeq", "ModSeq":
			var n uint64
			if f == "ModSeq" {
				o.Ok = dec.ModSeq(&n)
			} else {
				o.Ok = dec.ExpectModSeq(&n)
			}
			o.Val = ints([]byte(strconv.FormatUint(n, 10)))
		case "ExpectNumSet/seq", "ExpectNumSet/uid":
			var ns imap.NumSet
			nk := w.NumKindSeq
			if f == "ExpectNumSet/uid" {
				nk = w.NumKindUID
			}
			o.Ok = dec.ExpectNumSet(nk, &ns)
			if kind == "sres" {
				if o.Ok && ns != nil && imap.IsSearchRes(ns) {
					o.Val = []int{}
				} else {
					o.Val = []int{-1}
				}
			} else if o.Ok && ns != nil {
				o.Val = setVal(ns)
			} else {
				o.Val = [][2]int{}
			}
		case "ExpectUIDSet":
			var us imap.UIDSet
			o.Ok = dec.ExpectUIDSet(&us)
			if kind == "sres" {
				if o.Ok && imap.IsSearchRes(us) {
					o.Val = []int{}
				} else {
					o.Val = []int{-1}
				}
			} else if o.Ok {
				o.Val = setVal(us)
			} else {
				o.Val = [][2]int{}
			}
		case "List":
			t, err := readTree(dec)
			o.Ok, retErr = err == nil, err
			o.Val = treeVal(kind, t)
		default:
			panic("harness: unknown decoder " + f)
		}
	}()
	if retErr != nil {
		o.Err = true
		o.Why = retErr.Error()
	}
	if dec.Err() != nil {
		o.Err = true
		o.Why = dec.Err().Error()
	}
	if goOn && o.Ok && !o.Err {
		var a string
		o.GoOn = dec.ExpectSP() && dec.ExpectAtom(&a) && a == "Z"
		if !o.GoOn {
			o.Why = fmt.Sprintf("after the value: %v (atom %q)", dec.Err(), a)
		}
	}
	rest, _ := io.ReadAll(br)
	o.Left = len(rest)
	if len(rest) > 16 {
		rest = rest[:16]
	}
	o.Rest = ints(rest)
	return o
}

// ---------------------------------------------------------------- recording (i) and (3)

type recorder struct {
	w       *bufio.Writer
	fh      *os.File
	records int
	runs    int
	refused int
	lits    int
}

func newRecorder(path string) (*recorder, error) {
	fh, err := os.Create(path)
	if err != nil {
		return nil, err
	}
	return &recorder{fh: fh, w: bufio.NewWriterSize(fh, 1<<20)}, nil
}

func (r *recorder) close() { r.w.Flush(); r.fh.Close() }

// record runs the real Encoder on v in all 16 modes (lists: both list APIs), the
// real Decoder of the other side on what was written, and writes one record per
// group of modes with the same observation.
func (r *recorder) record(v *value) (nontrivial bool) {
	type group struct {
		ms  []int
		rec map[string]interface{}
	}
	groups := map[string]*group{}
	var order []string
	apis := 1
	if v.kind == "list" || v.kind == "nest" {
		apis = 2
	}
	for sn := 1; sn <= len(sentinels); sn++ {
		for api := 0; api < apis; api++ {
			for mode := 0; mode < 16; mode++ {
				obs := encode(v, mode, api, sn)
				r.runs++
				var decs []decObs
				if !obs.Err && obs.Panic == "" {
					for _, f := range decoders(v.kind, "string") {
						decs = append(decs, decode(v.kind, f, otherSide(sideOf(mode)), obs.Bytes))
						r.runs++
					}
				}
				if decs == nil {
					decs = []decObs{}
				}
				rec := map[string]interface{}{"ev": "Enc", "k": v.kind, "v": v.raw, "err": obs.Err || obs.Panic != "",
					"bytes": ints(obs.Bytes), "dec": decs, "sn": sn}
				// mode 0..7 client: the peer decoder is the server's and vice versa: part of the observation
				keyb, _ := json.Marshal([]interface{}{rec["err"], obs.Bytes, decs, obs.Panic, sn})
				key := string(keyb)
				g := groups[key]
				if g == nil {
					g = &group{rec: rec}
					groups[key] = g
					order = append(order, key)
				}
				seen := false
				for _, m := range g.ms {
					seen = seen || m == mode
				}
				if !seen {
					g.ms = append(g.ms, mode)
				}
				if bytes.HasPrefix(obs.Bytes, []byte("{")) {
					r.lits++
				}
				if obs.Err {
					r.refused++
				}
				// the encoder had to do more than copy the value between quotes
				if obs.Err || bytes.ContainsAny(obs.Bytes, "{\\&(") || (v.kind == "mbox" && bytes.HasPrefix(obs.Bytes, []byte("INBOX "))) {
					nontrivial = true
				}
			}
		}
	}
	for _, key := range order {
		g := groups[key]
		g.rec["ms"] = g.ms
		b, err := json.Marshal(g.rec)
		if err != nil {
			panic(err)
		}
		r.w.Write(b)
		r.w.WriteByte('\n')
		r.records++
	}
	return nontrivial
}

// ---------------------------------------------------------------- (ii) decoder cases

type repT struct {
	B   []int  `json:"b"`
	Cls string `json:"cls"`
	G   string `json:"g"`
	To  string `json:"to"`
}

type lineT struct {
	K      string          `json:"k"`
	V      json.RawMessage `json:"v"`
	Refuse bool            `json:"refuse"`
	Why    string          `json:"why"`
	Exp    json.RawMessage `json:"exp"`
	Alts   [][][2]int      `json:"alts"`
	Ci     bool            `json:"ci"`
	Must   bool            `json:"must"`
	Reps   []repT          `json:"reps"`
}

func lowerInts(a []int) []int {
	out := make([]int, len(a))
	for i, c := range a {
		if c >= 'A' && c <= 'Z' {
			c += 32
		}
		out[i] = c
	}
	return out
}

func canonJSON(v interface{}) string {
	b, err := json.Marshal(v)
	if err != nil {
		panic(err)
	}
	var x interface{}
	if err := json.Unmarshal(b, &x); err != nil {
		panic(err)
	}
	b, _ = json.Marshal(x) // maps are written with sorted keys
	return string(b)
}

// sameValue compares what a real decoding function handed out with the value TLC predicts.
func sameValue(ln *lineT, got interface{}) bool {
	switch ln.K {
	case "seqset", "uidset":
		g := canonJSON(got)
		for _, a := range ln.Alts {
			if canonJSON(a) == g {
				return true
			}
		}
		return false
	}
	var exp interface{}
	if err := json.Unmarshal(ln.Exp, &exp); err != nil {
		panic(err)
	}
	if ln.Ci {
		var e []int
		if err := json.Unmarshal(ln.Exp, &e); err != nil {
			panic(err)
		}
		g, ok := got.([]int)
		return ok && canonJSON(lowerInts(g)) == canonJSON(lowerInts(e))
	}
	return canonJSON(got) == canonJSON(exp)
}

type caseT struct {
	Line *lineT `json:"line"`
	Rep  repT   `json:"rep"`
	Side string `json:"side"`
	F    string `json:"f"`
}

type stats struct {
	behaviours, steps, nontrivial int
	cls                           map[string]int
	disagree                      map[string]int
	disagreeSamples               map[string][]string
	atCap                         map[string]int
	samples                       []interface{}
}

func newStats() *stats {
	return &stats{cls: map[string]int{}, disagree: map[string]int{}, disagreeSamples: map[string][]string{}, atCap: map[string]int{}}
}

func show(b []int) string {
	if len(b) > 48 {
		return fmt.Sprintf("%q...(%d bytes)", string(toBytes(b[:48])), len(b))
	}
	return fmt.Sprintf("%q", string(toBytes(b)))
}

// runCase feeds one representation to one real decoding function; returns "" or what differs.
func runCase(c *caseT) (string, decObs) {
	side := w.ConnSideServer
	if c.Side == "c" {
		side = w.ConnSideClient
	}
	var o decObs
	for _, sentinel := range sentinels {
		data := append(toBytes(c.Rep.B), sentinel...)
		o = decode(c.Line.K, c.F, side, data)
		switch {
		case o.Err || !o.Ok:
			return "error", o
		case c.F != "DiscardValue" && !sameValue(c.Line, normVal(o.Val)):
			return "value", o
		case string(toBytes(o.Rest)) != sentinel || o.Left != len(sentinel):
			return "leftover", o
		}
		if o2 := decodeThen(c.Line.K, c.F, side, data, true); !o2.GoOn {
			return "poisoned", o2
		}
	}
	return "", o
}

// normVal turns typed observation values into the generic form sameValue compares
func normVal(v interface{}) interface{} {
	if a, ok := v.([]int); ok {
		return a
	}
	return v
}

func runLineDecoders(ln *lineT, st *stats, out *vh.Out) {
	for _, rep := range ln.Reps {
		sides := []string{"s"}
		if rep.To == "b" {
			sides = []string{"s", "c"}
		}
		for _, side := range sides {
			for _, f := range decoders(ln.K, rep.G) {
				c := &caseT{Line: ln, Rep: rep, Side: side, F: f}
				what, o := runCase(c)
				st.steps++
				st.cls[rep.Cls]++
				if !ln.Must {
					st.atCap[fmt.Sprintf("%s:%v", f, what == "")]++
					continue
				}
				if what == "" {
					continue
				}
				desc := fmt.Sprintf("%s value %s written as %s: real %s of the %s side: %s (ok=%v err=%q value=%s unread=%d %s)",
					ln.K, compact(ln.V), show(rep.B), f, map[string]string{"s": "server", "c": "client"}[side], what,
					o.Ok, o.Why, compactVal(o.Val), o.Left, show(o.Rest))
				if rep.Cls == "std" {
					out.Mismatch(fmt.Sprintf("rep/%s/%s/%s", ln.K, f, what), desc+"; the specification says it is a conforming representation of the value",
						map[string]interface{}{"kind": "rep", "case": c})
				} else {
					key := rep.Cls + "/" + ln.K + "/" + f + "/" + what
					st.disagree[key]++
					if len(st.disagreeSamples[key]) < 2 {
						st.disagreeSamples[key] = append(st.disagreeSamples[key], desc)
					}
				}
			}
		}
	}
}

func compact(raw json.RawMessage) string {
	s := string(raw)
	if len(s) > 120 {
		s = s[:120] + "..."
	}
	return s
}

func compactVal(v interface{}) string {
	b, _ := json.Marshal(v)
	return compact(b)
}

// one decoder, many values: a connection's decoder lives as long as the connection - what it hands out for the
// n-th value must not depend on the values it has decoded before (conforming representations of catalogue
// values, separated by SP, several thousand of them on one Decoder of each side)
type manyT struct {
	ln *lineT
	rp repT
}

var many []manyT

func longLived(all []manyT, out *vh.Out) {
	if len(all) == 0 {
		return
	}
	for _, side := range []w.ConnSide{w.ConnSideServer, w.ConnSideClient} {
		var buf bytes.Buffer
		var seq []manyT
		for round := 0; round < 6 && len(seq) < 12000; round++ {
			for _, m := range all {
				buf.Write(toBytes(m.rp.B))
				buf.WriteByte(' ')
				seq = append(seq, m)
			}
			if round == 2 {
				// a long stretch of the smallest value of each kind in the middle (1500 empty lists, ...)
				for _, m := range all {
					if len(m.rp.B) <= 2 {
						for k := 0; k < 1500; k++ {
							buf.Write(toBytes(m.rp.B))
							buf.WriteByte(' ')
							seq = append(seq, m)
						}
					}
				}
			}
		}
		buf.WriteString("Z\r\n")
		br := bufio.NewReader(&buf)
		dec := w.NewDecoder(br, side)
		for i, m := range seq {
			var got interface{}
			ok := false
			func() {
				defer func() {
					if r := recover(); r != nil {
						ok = false
					}
				}()
				switch m.ln.K {
				case "list":
					t, err := readTree(dec)
					ok = err == nil
					got = treeVal(m.ln.K, t)
				case "num":
					var n uint32
					ok = dec.ExpectNumber(&n)
					got = ints([]byte(strconv.FormatUint(uint64(n), 10)))
				default:
					var sv string
					switch m.rp.G {
					case "astring":
						ok = dec.ExpectAString(&sv)
					case "nstring":
						ok = dec.ExpectNString(&sv)
					default:
						ok = dec.ExpectString(&sv)
					}
					got = strVal(m.ln.K, sv)
				}
			}()
			if !ok || dec.Err() != nil || !sameValue(m.ln, normVal(got)) || !dec.ExpectSP() {
				out.Mismatch("many/"+m.ln.K, fmt.Sprintf("value %d of %d on one Decoder: %s value %s written as %s decoded to %s (ok=%v err=%v); the same representation decodes correctly on a fresh Decoder",
					i+1, len(seq), m.ln.K, compact(m.ln.V), show(m.rp.B), compactVal(got), ok, dec.Err()), nil)
				return
			}
		}
	}
}

func cmdReplay(path, tracePath string) {
	out := vh.NewOut()
	defer out.Flush()
	rec, err := newRecorder(tracePath)
	if err != nil {
		out.Summary(map[string]interface{}{"infra_error": err.Error()})
		return
	}
	st := newStats()
	err = vh.ReadTLines(path, func(payload []byte) error {
		ln := &lineT{}
		if err := json.Unmarshal(payload, ln); err != nil {
			return err
		}
		v, err := parseValue(ln.K, ln.V)
		if err != nil {
			return err
		}
		st.behaviours++
		if rec.record(v) {
			st.nontrivial++
		}
		runLineDecoders(ln, st, out)
		if ln.Must && !ln.Refuse && (ln.K == "list" || ln.K == "str" || ln.K == "num") {
			for _, rp := range ln.Reps {
				if rp.Cls == "std" && rp.To == "b" && len(many) < 4000 {
					many = append(many, manyT{ln, rp})
				}
			}
		}
		if len(st.samples) < 3 && st.behaviours%97 == 5 {
			st.samples = append(st.samples, map[string]interface{}{"k": ln.K, "v": ln.V, "reps": len(ln.Reps)})
		}
		return nil
	})
	rec.close()
	if err != nil {
		out.Summary(map[string]interface{}{"infra_error": err.Error()})
		return
	}
	longLived(many, out)
	out.Summary(map[string]interface{}{"behaviours": st.behaviours, "steps": st.steps + rec.runs, "nontrivial": st.nontrivial,
		"samples": st.samples, "decoder_cases": st.steps, "rep_classes": st.cls, "records": rec.records,
		"encoder_runs": rec.runs, "encoder_refusals": rec.refused, "encoder_literals": rec.lits,
		"beyond_statement_disagreements": st.disagree, "beyond_statement_samples": st.disagreeSamples,
		"at_depth_cap": st.atCap})
}

func cmdOne(path string) {
	out := vh.NewOut()
	defer out.Flush()
	raw, err := os.ReadFile(path)
	if err != nil {
		out.Summary(map[string]interface{}{"infra_error": err.Error()})
		return
	}
	var rp struct {
		Case *caseT `json:"case"`
	}
	if err := json.Unmarshal(raw, &rp); err != nil || rp.Case == nil || rp.Case.Line == nil {
		out.Summary(map[string]interface{}{"infra_error": fmt.Sprintf("bad case file: %v", err)})
		return
	}
	c := rp.Case
	what, o := runCase(c)
	if what != "" {
		out.Mismatch(fmt.Sprintf("rep/%s/%s/%s", c.Line.K, c.F, what),
			fmt.Sprintf("%s value %s written as %s: real %s: %s (ok=%v err=%q value=%s unread=%d)", c.Line.K, compact(c.Line.V),
				show(c.Rep.B), c.F, what, o.Ok, o.Why, compactVal(o.Val), o.Left), map[string]interface{}{"kind": "rep", "case": c})
	}
	out.Summary(map[string]interface{}{"behaviours": 1, "steps": 1})
}

func cmdRecord(path, tracePath string) {
	out := vh.NewOut()
	defer out.Flush()
	raw, err := os.ReadFile(path)
	if err != nil {
		out.Summary(map[string]interface{}{"infra_error": err.Error()})
		return
	}
	var rp struct {
		K string          `json:"k"`
		V json.RawMessage `json:"v"`
	}
	if err := json.Unmarshal(raw, &rp); err != nil {
		out.Summary(map[string]interface{}{"infra_error": err.Error()})
		return
	}
	v, err := parseValue(rp.K, rp.V)
	if err != nil {
		out.Summary(map[string]interface{}{"infra_error": err.Error()})
		return
	}
	rec, err := newRecorder(tracePath)
	if err != nil {
		out.Summary(map[string]interface{}{"infra_error": err.Error()})
		return
	}
	rec.record(v)
	rec.close()
	out.Summary(map[string]interface{}{"behaviours": 1, "records": rec.records, "steps": rec.runs})
}

// ---------------------------------------------------------------- (3) random values beyond the bounds

type gen struct{ r *rand.Rand }

var specialBytes = []byte{'"', '\\', ' ', '{', '}', '(', ')', '%', '*', ']', '\r', '\n', 0, 127, 128, 0xc3, 0xa9, 0xff, '&', '-', '+', '~', 9, 0xa0, 0xe2, 0x82, 0xac}

func (g *gen) byteOf() byte {
	switch g.r.Intn(4) {
	case 0:
		return specialBytes[g.r.Intn(len(specialBytes))]
	case 1:
		return byte(g.r.Intn(256))
	}
	return byte('a' + g.r.Intn(26))
}

func (g *gen) str(min, max int) []byte {
	n := min + g.r.Intn(max-min+1)
	// one string in three stays printable ASCII, one in three valid UTF-8
	b := make([]byte, 0, n)
	switch g.r.Intn(3) {
	case 0:
		for len(b) < n {
			b = append(b, byte(32+g.r.Intn(95)))
		}
	case 1:
		for len(b) < n {
			b = append(b, []byte(string(rune(g.cp())))...)
		}
	default:
		for len(b) < n {
			b = append(b, g.byteOf())
		}
	}
	return b
}

var cpPool = []int{'a', 'Z', '0', '&', '-', '+', ',', '/', '.', ' ', '"', '\\', '~', '%', '*', '(', ']', '{', 0, 9, 13, 10, 127, 0x80, 0xa0,
	0xe9, 0xff, 0x131, 0x130, 0x17f, 0x212a, 0x20ac, 0x3042, 0xd7ff, 0xe000, 0xfffd, 0xffff, 0x10000, 0x1f600, 0x10ffff}

func (g *gen) cp() int {
	if g.r.Intn(3) == 0 {
		for {
			c := g.r.Intn(0x110000)
			if c < 0xd800 || c > 0xdfff {
				return c
			}
		}
	}
	return cpPool[g.r.Intn(len(cpPool))]
}

func (g *gen) mbox() []int {
	switch g.r.Intn(8) {
	case 0: // INBOX in some case, sometimes with something attached
		s := []int{}
		for _, c := range "INBOX" {
			if g.r.Intn(2) == 0 {
				c += 32
			}
			s = append(s, int(c))
		}
		if g.r.Intn(3) == 0 {
			s = append(s, '/', g.cp())
		}
		return s
	}
	n := g.r.Intn(13)
	s := make([]int, n)
	for i := range s {
		s[i] = g.cp()
	}
	return s
}

var wellKnown = []string{"\\Seen", "\\Answered", "\\Flagged", "\\Deleted", "\\Draft", "$Forwarded", "$MDNSent", "$Junk", "$NotJunk",
	"$Phishing", "$Important", "\\Noselect", "\\HasNoChildren", "\\Subscribed", "\\Trash", "\\All", "\\Recent", "\\*"}

func (g *gen) flag() []byte {
	switch g.r.Intn(4) {
	case 0: // a well-known name in random case
		s := []byte(wellKnown[g.r.Intn(len(wellKnown))])
		for i, c := range s {
			if c >= 'a' && c <= 'z' && g.r.Intn(2) == 0 {
				s[i] = c - 32
			} else if c >= 'A' && c <= 'Z' && g.r.Intn(2) == 0 {
				s[i] = c + 32
			}
		}
		return s
	case 1: // atom characters only, maybe a leading backslash
		n := 1 + g.r.Intn(8)
		s := []byte{}
		if g.r.Intn(2) == 0 {
			s = append(s, '\\')
		}
		const ok = "abcXYZ019$-_.}+&~'!#<=>?@^`|/:;,["
		for i := 0; i < n; i++ {
			s = append(s, ok[g.r.Intn(len(ok))])
		}
		return s
	}
	n := g.r.Intn(7)
	s := make([]byte, n)
	for i := range s {
		s[i] = g.byteOf()
	}
	if g.r.Intn(2) == 0 {
		s = append([]byte{'\\'}, s...)
	}
	return s
}

var endPoints = []int{0, 1, 2, 3, 4, 5, 7, 8, 9}

func (g *gen) set() [][2]int {
	n := g.r.Intn(7)
	if g.r.Intn(10) > 0 && n == 0 {
		n = 1
	}
	out := [][2]int{}
	for i := 0; i < n; i++ {
		x := endPoints[g.r.Intn(len(endPoints))]
		y := endPoints[g.r.Intn(len(endPoints))]
		// well-formed ranges only: start <= stop, '*' alone or as stop
		if x == 0 {
			y = 0
		} else if y != 0 && y < x {
			x, y = y, x
		}
		out = append(out, [2]int{x, y})
	}
	return out
}

func (g *gen) tree(depth int) *node {
	if depth > 0 && g.r.Intn(3) > 0 {
		n := g.r.Intn(5)
		t := &node{K: "l", B: []int{}, It: []*node{}}
		for i := 0; i < n; i++ {
			t.It = append(t.It, g.tree(depth-1))
		}
		return t
	}
	switch g.r.Intn(4) {
	case 0:
		return &node{K: "a", B: ints([]byte(strconv.Itoa(g.r.Intn(100000)))), It: []*node{}}
	case 1:
		const ok = "abcNILXYZ019$-_.}+&"
		n := 1 + g.r.Intn(6)
		s := []byte{}
		for i := 0; i < n; i++ {
			s = append(s, ok[g.r.Intn(len(ok))])
		}
		return &node{K: "a", B: ints(s), It: []*node{}}
	}
	return &node{K: "s", B: ints(g.str(0, 10)), It: []*node{}}
}

func rawOf(v interface{}) json.RawMessage {
	b, err := json.Marshal(v)
	if err != nil {
		panic(err)
	}
	return b
}

func cmdRandom(tracePath string, seed int64, scale int) {
	out := vh.NewOut()
	defer out.Flush()
	rec, err := newRecorder(tracePath)
	if err != nil {
		out.Summary(map[string]interface{}{"infra_error": err.Error()})
		return
	}
	g := &gen{r: rand.New(rand.NewSource(seed))}
	counts := map[string]int{}
	add := func(kind string, v interface{}) {
		val, err := parseValue(kind, rawOf(v))
		if err != nil {
			panic(err)
		}
		rec.record(val)
		counts[kind]++
	}
	for i := 0; i < 30*scale; i++ {
		add("str", ints(g.str(4, 40)))
	}
	for i := 0; i < 4*scale; i++ {
		add("str", ints(g.str(100, 300)))
	}
	// long strings as length classes around the literal threshold and beyond
	lens := []int{4095, 4096, 4097, 4096, 8192, 4097}
	for i := 0; i < 3*scale && i < 12; i++ {
		lc := &longClass{N: lens[i%len(lens)], Fill: 'a' + g.r.Intn(26), Ins: [][2]int{}}
		k := g.r.Intn(4)
		pos := map[int]bool{}
		for j := 0; j < k; j++ {
			p := 1 + g.r.Intn(lc.N)
			if pos[p] {
				continue
			}
			pos[p] = true
			lc.Ins = append(lc.Ins, [2]int{p, int(specialBytes[g.r.Intn(len(specialBytes))])})
		}
		sort.Slice(lc.Ins, func(a, b int) bool { return lc.Ins[a][0] < lc.Ins[b][0] })
		// keep the class in the normal form compress() produces
		lc = compress(lc.expand())
		add("lstr", lc)
	}
	for i := 0; i < 20*scale; i++ {
		add("mbox", g.mbox())
	}
	for i := 0; i < 15*scale; i++ {
		add("flag", ints(g.flag()))
		add("attr", ints(g.flag()))
	}
	for i := 0; i < 5*scale; i++ {
		add("num", ints([]byte(strconv.FormatUint(uint64(g.r.Uint32()), 10))))
		n := g.r.Int63()
		if g.r.Intn(4) == 0 {
			n = -n
		}
		if g.r.Intn(3) == 0 {
			n >>= uint(g.r.Intn(62))
		}
		add("num64", ints([]byte(strconv.FormatInt(n, 10))))
		add("modseq", ints([]byte(strconv.FormatUint(g.r.Uint64()>>uint(g.r.Intn(3)*20), 10))))
	}
	for i := 0; i < 8*scale; i++ {
		add("seqset", g.set())
		add("uidset", g.set())
	}
	for i := 0; i < 12*scale; i++ {
		t := g.tree(2 + g.r.Intn(5))
		if t.K != "l" {
			t = &node{K: "l", B: []int{}, It: []*node{t}}
		}
		add("list", t)
	}
	for i := 0; i < 2; i++ {
		inner := g.tree(0)
		add("nest", &nestClass{N: []int{37, 998, 500}[g.r.Intn(3)], Inner: inner})
	}
	rec.close()
	out.Summary(map[string]interface{}{"traces": 1, "records": rec.records, "steps": rec.runs, "values": counts,
		"encoder_refusals": rec.refused, "encoder_literals": rec.lits})
}

func main() {
	if len(os.Args) < 3 {
		fmt.Fprintln(os.Stderr, "usage: wire replay <tlc-output> <enc.ndjson> | random <enc.ndjson> -seed N -scale K | one <case.json> | record <case.json> <enc.ndjson>")
		os.Exit(2)
	}
	switch os.Args[1] {
	case "replay":
		if len(os.Args) < 4 {
			os.Exit(2)
		}
		cmdReplay(os.Args[2], os.Args[3])
	case "random":
		fs := flag.NewFlagSet("random", flag.ExitOnError)
		seed := fs.Int64("seed", 1, "seed")
		scale := fs.Int("scale", 1, "volume")
		fs.Parse(os.Args[3:])
		cmdRandom(os.Args[2], *seed, *scale)
	case "one":
		cmdOne(os.Args[2])
	case "record":
		if len(os.Args) < 4 {
			os.Exit(2)
		}
		cmdRecord(os.Args[2], os.Args[3])
	default:
		os.Exit(2)
	}
}
