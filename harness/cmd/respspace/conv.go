package main

// Conversion between the spec's value shapes and go-imap's data types: the
// supplied direction builds what the stub Session hands to the real writers,
// the delivered direction renders what the real client handed back.  No
// normalisation happens here.

import (
	"time"

	"github.com/emersion/go-imap/v2"
	"github.com/emersion/go-imap/v2/imapclient"
)

func strs(l []Str) []string {
	if l == nil {
		return nil
	}
	out := make([]string, len(l))
	for i, s := range l {
		out[i] = string(s)
	}
	return out
}

func toStrs(l []string) []Str {
	out := []Str{}
	for _, s := range l {
		out = append(out, Str(s))
	}
	return out
}

func toFlags(fs []F) []imap.Flag {
	out := make([]imap.Flag, len(fs)) // non-nil: the writers make no difference
	for i, f := range fs {
		out[i] = imap.Flag(f.S)
	}
	return out
}

func fromFlags(fs []imap.Flag) []F {
	out := []F{}
	for _, f := range fs {
		out = append(out, mkF(string(f)))
	}
	return out
}

func toTime(d []Date) time.Time {
	if len(d) == 0 {
		return time.Time{}
	}
	ns := int64(0)
	if d[0].F != 0 {
		ns = 123456789
	}
	return time.Unix(int64(d[0].U), ns).In(time.FixedZone("", int(d[0].Z)*60))
}

func fromTime(t time.Time) []Date {
	if t.IsZero() {
		return nil
	}
	_, off := t.Zone()
	f := Num(0)
	if t.Nanosecond() != 0 {
		f = 1
	}
	return []Date{{U: Num(t.Unix()), Z: Num(off / 60), F: f}}
}

func toAddrs(al [][]Addr) []imap.Address {
	if len(al) == 0 {
		return nil
	}
	out := make([]imap.Address, 0, len(al[0]))
	for _, a := range al[0] {
		out = append(out, imap.Address{Name: string(a.Name), Mailbox: string(a.Local), Host: string(a.Host)})
	}
	return out
}

func fromAddrs(l []imap.Address) [][]Addr {
	if l == nil {
		return nil
	}
	out := []Addr{}
	for _, a := range l {
		out = append(out, Addr{Str(a.Name), Str(a.Mailbox), Str(a.Host)})
	}
	return [][]Addr{out}
}

func toEnv(e *Env) *imap.Envelope {
	return &imap.Envelope{Date: toTime(e.Date), Subject: string(e.Subj), From: toAddrs(e.From), Sender: toAddrs(e.Sender),
		ReplyTo: toAddrs(e.ReplyTo), To: toAddrs(e.To), Cc: toAddrs(e.Cc), Bcc: toAddrs(e.Bcc), InReplyTo: strs(e.Irt),
		MessageID: string(e.Mid)}
}

func fromEnv(e *imap.Envelope) *Env {
	return &Env{Date: fromTime(e.Date), Subj: Str(e.Subject), From: fromAddrs(e.From), Sender: fromAddrs(e.Sender),
		ReplyTo: fromAddrs(e.ReplyTo), To: fromAddrs(e.To), Cc: fromAddrs(e.Cc), Bcc: fromAddrs(e.Bcc),
		Irt: toStrs(e.InReplyTo), Mid: Str(e.MessageID)}
}

func toParams(p [][]Param) map[string]string {
	if len(p) == 0 {
		return nil
	}
	m := map[string]string{}
	for _, x := range p[0] {
		m[string(x.Key.S)] = string(x.Pv)
	}
	return m
}

func fromParams(m map[string]string) [][]Param {
	if m == nil {
		return nil
	}
	out := []Param{}
	for k, v := range m {
		out = append(out, Param{mkF(k), Str(v)})
	}
	return [][]Param{out}
}

func toDisp(d []Disp) *imap.BodyStructureDisposition {
	if len(d) == 0 {
		return nil
	}
	return &imap.BodyStructureDisposition{Value: string(d[0].Val), Params: toParams(d[0].Dparams)}
}

func fromDisp(d *imap.BodyStructureDisposition) []Disp {
	if d == nil {
		return nil
	}
	return []Disp{{Val: Str(d.Value), Dparams: fromParams(d.Params)}}
}

func toLang(l [][]Str) []string {
	if len(l) == 0 {
		return nil
	}
	out := make([]string, 0, len(l[0]))
	return append(out, strs(l[0])...)
}

func fromLang(l []string) [][]Str {
	if l == nil {
		return nil
	}
	return [][]Str{toStrs(l)}
}

func toBS(b BS) imap.BodyStructure {
	if b.M != nil {
		m := &imap.BodyStructureMultiPart{Subtype: string(b.M.Sub)}
		for _, k := range b.M.Kids {
			m.Children = append(m.Children, toBS(k))
		}
		if len(b.M.Mext) > 0 {
			x := b.M.Mext[0]
			m.Extended = &imap.BodyStructureMultiPartExt{Params: toParams(x.Mparams), Disposition: toDisp(x.Disp),
				Language: toLang(x.Lang), Location: string(x.Loc)}
		}
		return m
	}
	s := b.S
	out := &imap.BodyStructureSinglePart{Type: string(s.Type), Subtype: string(s.Sub), Params: toParams(s.Params),
		ID: string(s.ID), Description: string(s.Desc), Encoding: string(s.Enc.S), Size: uint32(s.Octets)}
	if len(s.Msg) > 0 {
		mp := s.Msg[0]
		r := &imap.BodyStructureMessageRFC822{BodyStructure: toBS(mp.Mbs), NumLines: int64(mp.Lines)}
		if len(mp.Menv) > 0 {
			r.Envelope = toEnv(&mp.Menv[0])
		}
		out.MessageRFC822 = r
	}
	if len(s.Text) > 0 {
		out.Text = &imap.BodyStructureText{NumLines: int64(s.Text[0])}
	}
	if len(s.Ext) > 0 {
		x := s.Ext[0]
		out.Extended = &imap.BodyStructureSinglePartExt{Disposition: toDisp(x.Disp), Language: toLang(x.Lang),
			Location: string(x.Loc)}
	}
	return out
}

func fromBS(b imap.BodyStructure) BS {
	switch b := b.(type) {
	case *imap.BodyStructureMultiPart:
		m := &bsMulti{Mp: true, Sub: Str(b.Subtype)}
		for _, k := range b.Children {
			m.Kids = append(m.Kids, fromBS(k))
		}
		if x := b.Extended; x != nil {
			m.Mext = []ExtM{{Mparams: fromParams(x.Params), Disp: fromDisp(x.Disposition), Lang: fromLang(x.Language),
				Loc: Str(x.Location)}}
		}
		return BS{M: m}
	case *imap.BodyStructureSinglePart:
		s := &bsSingle{Type: Str(b.Type), Sub: Str(b.Subtype), Params: fromParams(b.Params), ID: Str(b.ID),
			Desc: Str(b.Description), Enc: mkF(b.Encoding), Octets: Num(b.Size)}
		if r := b.MessageRFC822; r != nil {
			mp := MsgPart{Lines: Num(r.NumLines)}
			if r.Envelope != nil {
				mp.Menv = []Env{*fromEnv(r.Envelope)}
			}
			if r.BodyStructure != nil {
				mp.Mbs = fromBS(r.BodyStructure)
			} else {
				mp.Mbs = BS{S: &bsSingle{Type: "<nil body structure>"}}
			}
			s.Msg = []MsgPart{mp}
		}
		if b.Text != nil {
			s.Text = []Num{Num(b.Text.NumLines)}
		}
		if x := b.Extended; x != nil {
			s.Ext = []Ext1{{Disp: fromDisp(x.Disposition), Lang: fromLang(x.Language), Loc: Str(x.Location)}}
		}
		return BS{S: s}
	}
	return BS{S: &bsSingle{Type: "<nil body structure>"}}
}

func toInts(l []Num) []int {
	if len(l) == 0 {
		return nil
	}
	out := make([]int, len(l))
	for i, n := range l {
		out[i] = int(n)
	}
	return out
}

func fromInts(l []int) []Num {
	out := []Num{}
	for _, n := range l {
		out = append(out, Num(n))
	}
	return out
}

func toPartial(p []Partial) *imap.SectionPartial {
	if len(p) == 0 {
		return nil
	}
	return &imap.SectionPartial{Offset: int64(p[0].Off), Size: int64(p[0].Psize)}
}

func fromPartial(p *imap.SectionPartial) []Partial {
	if p == nil {
		return nil
	}
	return []Partial{{Off: Num(p.Offset), Psize: Num(p.Size)}}
}

func toSec(s *Sec) *imap.FetchItemBodySection {
	return &imap.FetchItemBodySection{Specifier: imap.PartSpecifier(s.Spec), Part: toInts(s.Part), HeaderFields: strs(s.Hf),
		HeaderFieldsNot: strs(s.Hfn), Partial: toPartial(s.Partial), Peek: s.Peek}
}

func fromSec(s *imap.FetchItemBodySection) *Sec {
	return &Sec{Spec: Str(s.Specifier), Part: fromInts(s.Part), Hf: toStrs(s.HeaderFields), Hfn: toStrs(s.HeaderFieldsNot),
		Partial: fromPartial(s.Partial), Peek: s.Peek}
}

func optU32(l []Num) *uint32 {
	if len(l) == 0 {
		return nil
	}
	v := uint32(l[0])
	return &v
}

func optI64(l []Num) *int64 {
	if len(l) == 0 {
		return nil
	}
	v := int64(l[0])
	return &v
}

func fromU32(p *uint32) []Num {
	if p == nil {
		return nil
	}
	return []Num{Num(*p)}
}

func fromI64(p *int64) []Num {
	if p == nil {
		return nil
	}
	return []Num{Num(*p)}
}

func toStatus(s *Status) *imap.StatusData {
	return &imap.StatusData{Mailbox: string(s.Mbox.S), NumMessages: optU32(s.Msgs), UIDNext: imap.UID(s.UIDNext),
		UIDValidity: uint32(s.UIDVal), NumUnseen: optU32(s.Unseen), NumDeleted: optU32(s.Deleted), Size: optI64(s.Size),
		AppendLimit: optU32(s.AppLimit), DeletedStorage: optI64(s.DelStor)}
}

func fromStatus(s *imap.StatusData) Status {
	return Status{Mbox: mkF(s.Mailbox), Msgs: fromU32(s.NumMessages), UIDNext: Num(s.UIDNext), UIDVal: Num(s.UIDValidity),
		Unseen: fromU32(s.NumUnseen), Deleted: fromU32(s.NumDeleted), Size: fromI64(s.Size), AppLimit: fromU32(s.AppendLimit),
		DelStor: fromI64(s.DeletedStorage)}
}

func toList(ld *ListData) *imap.ListData {
	out := &imap.ListData{Delim: rune(ld.Delim), Mailbox: string(ld.Mbox.S), OldName: string(ld.Old.S)}
	for _, a := range ld.Attrs {
		out.Attrs = append(out.Attrs, imap.MailboxAttr(a.S))
	}
	if len(ld.Child) > 0 {
		out.ChildInfo = &imap.ListDataChildInfo{Subscribed: ld.Child[0]}
	}
	if len(ld.Status) > 0 {
		out.Status = toStatus(&ld.Status[0])
	}
	return out
}

func fromList(ld *imap.ListData) ListData {
	out := ListData{Delim: Num(ld.Delim), Mbox: mkF(ld.Mailbox), Old: mkF(ld.OldName), Attrs: []F{}}
	for _, a := range ld.Attrs {
		out.Attrs = append(out.Attrs, mkF(string(a)))
	}
	if ld.ChildInfo != nil {
		out.Child = []bool{ld.ChildInfo.Subscribed}
	}
	if ld.Status != nil {
		out.Status = []Status{fromStatus(ld.Status)}
	}
	return out
}

func toSeqSet(rs []Range) imap.SeqSet {
	out := imap.SeqSet{}
	for _, r := range rs {
		out = append(out, imap.SeqRange{Start: uint32(r[0]), Stop: uint32(r[1])})
	}
	return out
}

func toUIDSet(rs []Range) imap.UIDSet {
	out := imap.UIDSet{}
	for _, r := range rs {
		out = append(out, imap.UIDRange{Start: imap.UID(r[0]), Stop: imap.UID(r[1])})
	}
	return out
}

func fromNumSet(ns imap.NumSet) ([]Range, string) {
	out := []Range{}
	switch s := ns.(type) {
	case imap.SeqSet:
		for _, r := range s {
			out = append(out, Range{Num(r.Start), Num(r.Stop)})
		}
		return out, "seq"
	case imap.UIDSet:
		for _, r := range s {
			out = append(out, Range{Num(r.Start), Num(r.Stop)})
		}
		return out, "uid"
	}
	return out, ""
}

func toNs(l [][]NsDescr) []imap.NamespaceDescriptor {
	if len(l) == 0 {
		return nil
	}
	out := make([]imap.NamespaceDescriptor, 0, len(l[0]))
	for _, d := range l[0] {
		out = append(out, imap.NamespaceDescriptor{Prefix: string(d.Prefix), Delim: rune(d.Delim)})
	}
	return out
}

func fromNs(l []imap.NamespaceDescriptor) [][]NsDescr {
	if l == nil {
		return nil
	}
	out := []NsDescr{}
	for _, d := range l {
		out = append(out, NsDescr{Str(d.Prefix), Num(d.Delim)})
	}
	return [][]NsDescr{out}
}

func statusOptions(items []string) *imap.StatusOptions {
	o := &imap.StatusOptions{}
	for _, it := range items {
		switch it {
		case "MESSAGES":
			o.NumMessages = true
		case "UIDNEXT":
			o.UIDNext = true
		case "UIDVALIDITY":
			o.UIDValidity = true
		case "UNSEEN":
			o.NumUnseen = true
		case "DELETED":
			o.NumDeleted = true
		case "SIZE":
			o.Size = true
		case "APPENDLIMIT":
			o.AppendLimit = true
		case "DELETED-STORAGE":
			o.DeletedStorage = true
		}
	}
	return o
}

// fromFetchItem renders one delivered FETCH item; literals are read fully.
func fromFetchItem(item imapclient.FetchItemData, readAll func(imap.LiteralReader) ([]byte, error)) (Item, error) {
	switch x := item.(type) {
	case imapclient.FetchItemDataFlags:
		return Item{T: "flags", Flags: fromFlags(x.Flags)}, nil
	case imapclient.FetchItemDataInternalDate:
		return Item{T: "date", Date: fromTime(x.Time)}, nil
	case imapclient.FetchItemDataRFC822Size:
		return Item{T: "size", Rsize: Num(x.Size)}, nil
	case imapclient.FetchItemDataUID:
		return Item{T: "uid", UID: Num(x.UID)}, nil
	case imapclient.FetchItemDataEnvelope:
		return Item{T: "env", Env: fromEnv(x.Envelope)}, nil
	case imapclient.FetchItemDataBodyStructure:
		b := fromBS(x.BodyStructure)
		return Item{T: "bs", Bs: &b}, nil
	case imapclient.FetchItemDataBinarySectionSize:
		return Item{T: "binsz", Part: fromInts(x.Part), Binsz: Num(x.Size)}, nil
	case imapclient.FetchItemDataBodySection:
		it := Item{T: "sec", Sec: fromSec(x.Section)}
		if x.Literal == nil {
			it.nilLit = true
			return it, nil
		}
		b, err := readAll(x.Literal)
		it.payload, it.N, it.P = b, Num(len(b)), payloadID(b)
		if err == nil && x.Literal.Size() != int64(len(b)) {
			it.P = "#announced-size-differs"
		}
		return it, err
	case imapclient.FetchItemDataBinarySection:
		it := Item{T: "bin", Part: fromInts(x.Section.Part), Bpartial: fromPartial(x.Section.Partial), Peek: x.Section.Peek}
		if x.Literal == nil {
			it.nilLit = true
			return it, nil
		}
		b, err := readAll(x.Literal)
		it.payload, it.N, it.P = b, Num(len(b)), payloadID(b)
		if err == nil && x.Literal.Size() != int64(len(b)) {
			it.P = "#announced-size-differs"
		}
		return it, err
	}
	return Item{T: "unknown"}, nil
}
