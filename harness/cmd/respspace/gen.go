package main

// impl -> spec: random deep structures beyond the catalogue's bounds (deeper
// nesting, more addresses, arbitrary strings, more and larger literals),
// inside the writers' contract (InContract of the spec), pushed through the
// same pipe.  The harness records supplied and delivered values; TLC
// (RespSpaceTrace) applies Norm to both and compares.  Case i of seed S is
// reproducible on its own (classify mode).

import (
	"bufio"
	"encoding/json"
	"fmt"
	"math/rand"
	"os"
	"strings"
	"sync"
)

type rgen struct{ r *rand.Rand }

func (g *rgen) n(k int) int       { return g.r.Intn(k) }
func (g *rgen) chance(p int) bool { return g.r.Intn(100) < p }

var pts32 = []int64{0, 1, 2, 9, 1<<31 - 1, 1 << 31, 1<<32 - 2, 1<<32 - 1}
var pts64 = []int64{0, 1, 4096, 1<<31 - 1, 1 << 31, 1<<32 - 1, 1 << 32, 1<<32 + 1, 1 << 53, 1<<63 - 1}

func (g *rgen) u32() Num {
	if g.chance(50) {
		return Num(g.n(100000))
	}
	return Num(pts32[g.n(len(pts32))])
}

func (g *rgen) nz32() Num {
	for {
		if v := g.u32(); v != 0 {
			return v
		}
	}
}

func (g *rgen) i64() Num {
	if g.chance(50) {
		return Num(g.n(1000000))
	}
	return Num(pts64[g.n(len(pts64))])
}

const atomChars = "abcdefghijklmnopqrstuvwxyzABCDEFGHIJKLMNOPQRSTUVWXYZ0123456789-_.+"

func (g *rgen) atom(min, max int) string {
	n := min + g.n(max-min+1)
	b := make([]byte, n)
	for i := range b {
		b[i] = atomChars[g.n(len(atomChars))]
	}
	return string(b)
}

var runes = []rune("aZ09 \"\\(){}[]%*&-~<>@=?.,;:!/'`^|_#+é日ß✓€\u00a0\U0001F600\t")

// str is an arbitrary string an IMAP string can carry (no NUL; CR and LF allowed: literal).
func (g *rgen) str() string {
	switch g.n(12) {
	case 0:
		return ""
	case 1:
		return "NIL"
	case 2:
		return strings.Repeat(g.atom(1, 3), 1366+g.n(300)) // around / beyond the 4096 quoted-string limit
	case 3:
		return g.atom(1, 8) + "\r\n" + g.atom(0, 5)
	case 4, 5, 6:
		return g.atom(1, 12)
	}
	n := 1 + g.n(24)
	var sb strings.Builder
	for i := 0; i < n; i++ {
		sb.WriteRune(runes[g.n(len(runes))])
	}
	return sb.String()
}

func (g *rgen) mboxName() string {
	switch g.n(8) {
	case 0:
		return []string{"INBOX", "inbox", "Inbox", "iNBOx"}[g.n(4)]
	case 1:
		return g.atom(1, 10)
	}
	for {
		s := g.str()
		if s != "" && !strings.ContainsAny(s, "\r\n") && len(s) < 200 {
			return s
		}
	}
}

var sysFlags = []string{"\\Seen", "\\Answered", "\\Flagged", "\\Deleted", "\\Draft", "$Forwarded", "$MDNSent", "$Junk",
	"$NotJunk", "$Phishing", "$Important"}

func randCase(g *rgen, s string) string {
	b := []byte(s)
	for i, ch := range b {
		if g.chance(40) {
			if ch >= 'a' && ch <= 'z' {
				b[i] = ch - 32
			} else if ch >= 'A' && ch <= 'Z' {
				b[i] = ch + 32
			}
		}
	}
	return string(b)
}

func (g *rgen) flags(perm bool) []F {
	out := []F{}
	for i, n := 0, g.n(7); i < n; i++ {
		switch g.n(3) {
		case 0:
			out = append(out, mkF(randCase(g, sysFlags[g.n(len(sysFlags))])))
		case 1:
			out = append(out, mkF(g.atom(1, 10)))
		default:
			out = append(out, mkF(sysFlags[g.n(len(sysFlags))]))
		}
	}
	if perm && g.chance(50) {
		out = append(out, mkF("\\*"))
	}
	return out
}

var attrs = []string{"\\NonExistent", "\\Noinferiors", "\\Noselect", "\\HasChildren", "\\HasNoChildren", "\\Marked",
	"\\Unmarked", "\\Subscribed", "\\Remote", "\\All", "\\Archive", "\\Drafts", "\\Flagged", "\\Junk", "\\Sent", "\\Trash",
	"\\Important"}

func (g *rgen) attrs() []F {
	out := []F{}
	for i, n := 0, g.n(5); i < n; i++ {
		if g.chance(70) {
			out = append(out, mkF(randCase(g, attrs[g.n(len(attrs))])))
		} else {
			out = append(out, mkF("\\"+g.atom(1, 8)))
		}
	}
	return out
}

var delims = []rune{'/', '.', 0, '\\', '"', '|', '→', 'é'}

func (g *rgen) optU32(must bool) []Num {
	if !must && g.chance(40) {
		return nil
	}
	return []Num{g.u32()}
}

func (g *rgen) optI64(must bool) []Num {
	if !must && g.chance(40) {
		return nil
	}
	return []Num{g.i64()}
}

var allItems = []string{"MESSAGES", "UIDNEXT", "UIDVALIDITY", "UNSEEN", "DELETED", "SIZE", "APPENDLIMIT", "DELETED-STORAGE"}

func (g *rgen) items() []string {
	out := []string{}
	for _, it := range allItems {
		if g.chance(50) {
			out = append(out, it)
		}
	}
	return out
}

func (g *rgen) status(mb F, items []string) Status {
	return Status{Mbox: mb, Msgs: g.optU32(has(items, "MESSAGES")), UIDNext: g.u32(), UIDVal: g.u32(),
		Unseen: g.optU32(has(items, "UNSEEN")), Deleted: g.optU32(has(items, "DELETED")), Size: g.optI64(has(items, "SIZE")),
		AppLimit: g.optU32(false), DelStor: g.optI64(has(items, "DELETED-STORAGE"))}
}

func (g *rgen) listData(name string, st [][]string) ListData {
	ld := ListData{Attrs: g.attrs(), Delim: Num(delims[g.n(len(delims))]), Mbox: mkF(name), Old: mkF("")}
	if g.chance(40) {
		ld.Child = []bool{g.chance(50)}
	}
	if g.chance(30) {
		ld.Old = mkF(g.mboxName())
	}
	if g.chance(60) {
		items := allItems
		if len(st) > 0 {
			items = st[0]
		}
		ld.Status = []Status{g.status(ld.Mbox, items)}
	}
	return ld
}

func (g *rgen) date(zeroOK bool) []Date {
	if zeroOK && g.chance(15) {
		return nil
	}
	z := []int{0, 60, -60, 330, -480, 765, -570, 840, -720}[g.n(9)]
	f := 0
	if g.chance(30) {
		f = 1
	}
	return []Date{{U: Num(g.r.Int63n(2000000000)), Z: Num(z), F: Num(f)}}
}

func (g *rgen) addrList() [][]Addr {
	switch g.n(6) {
	case 0:
		return nil
	case 1:
		return [][]Addr{{}}
	}
	l := []Addr{}
	for i, n := 0, 1+g.n(5); i < n; i++ {
		switch g.n(6) {
		case 0: // a group
			l = append(l, Addr{"", Str(g.atom(1, 8)), ""})
			for j, m := 0, g.n(3); j < m; j++ {
				l = append(l, Addr{Str(g.str()), Str(g.atom(1, 8)), Str(g.atom(1, 8))})
			}
			l = append(l, Addr{})
		default:
			l = append(l, Addr{Str(g.str()), Str(g.localPart()), Str(g.atom(1, 12))})
		}
	}
	return [][]Addr{l}
}

func (g *rgen) localPart() string {
	if g.chance(70) {
		return g.atom(1, 10)
	}
	for {
		if s := g.str(); s != "" {
			return s
		}
	}
}

const atext = "abcdefghijklmnopqrstuvwxyzABCDEFGHIJKLMNOPQRSTUVWXYZ0123456789!#$%&'*+-/=?^_`{|}~"

func (g *rgen) dotAtom() string {
	var sb strings.Builder
	for i, n := 0, 1+g.n(3); i < n; i++ {
		if i > 0 {
			sb.WriteByte('.')
		}
		for j, m := 0, 1+g.n(6); j < m; j++ {
			sb.WriteByte(atext[g.n(len(atext))])
		}
	}
	return sb.String()
}

// msgID: RFC 5322 msg-id without the angle brackets (imap.Envelope doc comment).
func (g *rgen) msgID() string {
	if g.chance(10) {
		return g.dotAtom() + "@[" + g.atom(1, 8) + "]"
	}
	return g.dotAtom() + "@" + g.dotAtom()
}

func (g *rgen) env() Env {
	e := Env{Date: g.date(true), Subj: Str(g.str()), From: g.addrList(), Sender: g.addrList(), ReplyTo: g.addrList(),
		To: g.addrList(), Cc: g.addrList(), Bcc: g.addrList(), Irt: []Str{}}
	for i, n := 0, g.n(5); i < n; i++ {
		e.Irt = append(e.Irt, Str(g.msgID()))
	}
	if g.chance(80) {
		e.Mid = Str(g.msgID())
	}
	return e
}

func (g *rgen) params() [][]Param {
	switch g.n(5) {
	case 0:
		return nil
	case 1:
		return [][]Param{{}}
	}
	seen := map[string]bool{}
	l := []Param{}
	for i, n := 0, 1+g.n(4); i < n; i++ {
		k := g.atom(1, 10)
		if seen[lowerASCII(k)] {
			continue
		}
		seen[lowerASCII(k)] = true
		l = append(l, Param{mkF(k), Str(g.str())})
	}
	return [][]Param{l}
}

func (g *rgen) disp() []Disp {
	if g.chance(40) {
		return nil
	}
	return []Disp{{Val: Str([]string{"attachment", "inline", "INLINE", "", g.str()}[g.n(5)]), Dparams: g.params()}}
}

func (g *rgen) lang() [][]Str {
	switch g.n(4) {
	case 0:
		return nil
	case 1:
		return [][]Str{{}}
	}
	l := []Str{}
	for i, n := 0, 1+g.n(3); i < n; i++ {
		l = append(l, Str(g.atom(0, 6)))
	}
	return [][]Str{l}
}

var encodings = []string{"", "7bit", "7BIT", "8bit", "binary", "Base64", "BASE64", "quoted-printable", "Quoted-Printable", "x-uue"}

func (g *rgen) bs(depth int, ext int) BS { // ext: 0 never, 1 always, 2 at random
	withExt := ext == 1 || (ext == 2 && g.chance(50))
	if depth > 0 && g.chance(45) {
		m := &bsMulti{Mp: true, Sub: Str([]string{"mixed", "alternative", "RELATED", "", g.str()}[g.n(5)])}
		for i, n := 0, 1+g.n(4); i < n; i++ {
			m.Kids = append(m.Kids, g.bs(depth-1, ext))
		}
		if withExt {
			m.Mext = []ExtM{{Mparams: g.params(), Disp: g.disp(), Lang: g.lang(), Loc: Str(g.str())}}
		}
		return BS{M: m}
	}
	s := &bsSingle{Params: g.params(), ID: Str(g.str()), Desc: Str(g.str()), Enc: mkF(encodings[g.n(len(encodings))]), Octets: g.u32()}
	switch k := g.n(6); {
	case k == 0 && depth > 0:
		s.Type, s.Sub = Str([]string{"message", "MESSAGE"}[g.n(2)]), Str([]string{"rfc822", "RFC822", "global"}[g.n(3)])
		mp := MsgPart{Mbs: g.bs(depth-1, ext), Lines: g.i64()}
		if g.chance(80) {
			mp.Menv = []Env{g.env()}
		}
		s.Msg = []MsgPart{mp}
	case k <= 2:
		s.Type, s.Sub = Str([]string{"text", "TEXT", "Text"}[g.n(3)]), Str([]string{"plain", "html", "", g.str()}[g.n(4)])
		s.Text = []Num{g.i64()}
	default:
		s.Type = Str([]string{"application", "image", "audio", "", "x-" + g.atom(1, 5), g.str()}[g.n(6)])
		if t := lowerASCII(string(s.Type)); t == "text" || t == "message" {
			s.Type = "application"
		}
		s.Sub = Str([]string{"octet-stream", "png", "", g.str()}[g.n(4)])
	}
	if withExt {
		s.Ext = []Ext1{{Disp: g.disp(), Lang: g.lang(), Loc: Str(g.str())}}
	}
	return BS{S: s}
}

func (g *rgen) part() []Num {
	l := []Num{}
	for i, n := 0, g.n(4); i < n; i++ {
		l = append(l, Num(1+g.n(20)))
	}
	return l
}

func (g *rgen) partial() []Partial {
	if g.chance(60) {
		return nil
	}
	sz := g.i64()
	if sz == 0 {
		sz = 1
	}
	return []Partial{{Off: g.u32(), Psize: sz}}
}

func (g *rgen) payload() []byte {
	var n int
	switch g.n(5) {
	case 0:
		n = g.n(3)
	case 1:
		n = 4090 + g.n(12)
	case 2:
		n = g.n(20000)
	default:
		n = g.n(200)
	}
	b := make([]byte, n)
	switch g.n(3) {
	case 0:
		g.r.Read(b)
	case 1:
		for i := range b {
			b[i] = "\r\n\x00){} a"[g.n(8)]
		}
	default:
		for i := range b {
			b[i] = byte(32 + g.n(95))
		}
	}
	return b
}

func (g *rgen) secItem() Item {
	s := &Sec{Part: g.part(), Hf: []Str{}, Hfn: []Str{}, Partial: g.partial(), Peek: g.chance(30)}
	switch g.n(6) {
	case 0:
		s.Spec = "HEADER"
	case 1:
		s.Spec = "TEXT"
	case 2:
		if len(s.Part) > 0 {
			s.Spec = "MIME"
		}
	case 3:
		s.Spec = "HEADER"
		for i, n := 0, 1+g.n(3); i < n; i++ {
			s.Hf = append(s.Hf, Str(g.atom(1, 12)))
		}
	case 4:
		s.Spec = "HEADER"
		for i, n := 0, 1+g.n(3); i < n; i++ {
			s.Hfn = append(s.Hfn, Str(g.atom(1, 12)))
		}
	}
	b := g.payload()
	return Item{T: "sec", Sec: s, N: Num(len(b)), P: payloadID(b), payload: b}
}

func (g *rgen) binItem() Item {
	b := g.payload()
	return Item{T: "bin", Part: g.part(), Bpartial: g.partial(), Peek: g.chance(30), N: Num(len(b)), P: payloadID(b), payload: b}
}

func (g *rgen) fetchCase(c *Case) {
	c.Req.UID = g.chance(25)
	if g.chance(50) {
		c.Req.Bs = []string{"BODY", "BODYSTRUCTURE"}[g.n(2)]
	}
	c.Req.Rev = g.chance(30)
	nm := 1
	if g.chance(25) {
		nm = 2 + g.n(3)
	}
	// every message of one response carries the same kinds of items (one request)
	kinds := []string{}
	for _, k := range []string{"flags", "date", "size", "env"} {
		if g.chance(40) {
			kinds = append(kinds, k)
		}
	}
	if c.Req.Bs != "" {
		kinds = append(kinds, "bs")
	}
	if !c.Req.UID && g.chance(40) {
		kinds = append(kinds, "uid")
	}
	nsec, nbin, nbsz := 0, 0, 0
	if g.chance(60) {
		nsec = 1 + g.n(4)
	}
	if g.chance(25) {
		nbin = 1 + g.n(2)
	}
	if g.chance(15) {
		nbsz = 1 + g.n(2)
	}
	secs, bins, bszs := []Item{}, []Item{}, []Item{}
	for i := 0; i < nsec; i++ {
		secs = append(secs, g.secItem())
	}
	for i := 0; i < nbin; i++ {
		bins = append(bins, g.binItem())
	}
	for i := 0; i < nbsz; i++ {
		bszs = append(bszs, Item{T: "binsz", Part: g.part(), Binsz: g.u32()})
	}
	seen := map[Num]bool{}
	uids := map[Num]bool{}
	c.data.Fetch = []Msg{}
	for mi := 0; mi < nm; mi++ {
		seq := g.nz32()
		for seen[seq] {
			seq = g.nz32()
		}
		seen[seq] = true
		items := []Item{}
		for _, k := range kinds {
			switch k {
			case "flags":
				items = append(items, Item{T: "flags", Flags: g.flags(false)})
			case "date":
				items = append(items, Item{T: "date", Date: g.date(false)})
			case "size":
				items = append(items, Item{T: "size", Rsize: g.i64()})
			case "env":
				e := g.env()
				items = append(items, Item{T: "env", Env: &e})
			case "uid":
				items = append(items, Item{T: "uid", UID: g.nz32()})
			case "bs":
				ext := 1
				if c.Req.Bs == "BODY" {
					ext = g.n(3)
				}
				b := g.bs(2+g.n(4), ext)
				items = append(items, Item{T: "bs", Bs: &b})
			}
		}
		for _, it := range secs {
			if mi > 0 { // same section specification, another payload
				b := g.payload()
				it.payload, it.N, it.P = b, Num(len(b)), payloadID(b)
			}
			items = append(items, it)
		}
		for _, it := range bins {
			if mi > 0 {
				b := g.payload()
				it.payload, it.N, it.P = b, Num(len(b)), payloadID(b)
			}
			items = append(items, it)
		}
		for _, it := range bszs {
			it.Binsz = g.u32()
			items = append(items, it)
		}
		g.r.Shuffle(len(items), func(i, j int) { items[i], items[j] = items[j], items[i] })
		if c.Req.UID {
			uid := g.nz32()
			for uids[uid] {
				uid = g.nz32()
			}
			uids[uid] = true
			items = append([]Item{{T: "uid", UID: uid}}, items...)
		}
		c.data.Fetch = append(c.data.Fetch, Msg{Seq: seq, Items: items})
	}
}

func (g *rgen) numSet(small bool) []Range {
	out := []Range{}
	bigUsed := false // Norm keeps a range touching a symbolic point as one element: at most one per set
	for i, n := 0, g.n(6); i < n; i++ {
		if !small && !bigUsed && g.chance(15) {
			bigUsed = true
			out = append(out, [][2]Num{{1<<32 - 2, 1<<32 - 1}, {1 << 31, 1 << 31}, {1<<32 - 1, 1<<32 - 1}}[g.n(3)])
			continue
		}
		a := Num(1 + g.n(5000))
		out = append(out, Range{a, a + Num(g.n(12))})
	}
	return out
}

func (g *rgen) uidSetNonEmpty() []Range {
	for {
		if s := g.numSet(false); len(s) > 0 {
			return s
		}
	}
}

var extCaps = []string{"NAMESPACE", "UIDPLUS", "ESEARCH", "SEARCHRES", "LIST-EXTENDED", "LIST-STATUS", "MOVE",
	"STATUS=SIZE", "BINARY", "CREATE-SPECIAL-USE", "LITERAL+", "UNAUTHENTICATE"}

// caseAt builds case number i of the random run with the given seed.
func caseAt(seed int64, i int) *Case {
	g := &rgen{rand.New(rand.NewSource(seed*1000003 + int64(i)*7919 + 17))}
	c := &Case{Rev2: g.chance(50), data: &Data{}}
	switch k := g.n(100); {
	case k < 50:
		c.K = "fetch"
		g.fetchCase(c)
	case k < 60:
		c.K = "list"
		if g.chance(50) {
			c.Req.St = [][]string{g.items()}
		}
		c.Req.Lp = g.n(len(lpTable))
		c.data.List = []ListData{}
		names := map[string]bool{}
		for j, n := 0, g.n(6); j < n; j++ {
			name := g.mboxName()
			if names[lowerASCII(name)] {
				continue
			}
			names[lowerASCII(name)] = true
			c.data.List = append(c.data.List, g.listData(name, c.Req.St))
		}
	case k < 66:
		c.K = "status"
		mb := mkF(g.mboxName())
		c.Req.Mbox = &mb
		c.Req.Sitems = g.items()
		s := g.status(mb, c.Req.Sitems)
		c.data.Status = &s
	case k < 72:
		c.K = "select"
		mb := mkF(g.mboxName())
		c.Req.Mbox = &mb
		c.data.Select = &SelectData{Flags: g.flags(false), PFlags: g.flags(true), Num: g.u32(), UIDNext: g.u32(), UIDVal: g.u32()}
		if g.chance(40) {
			ld := g.listData(string(mb.S), nil)
			ld.Status = nil
			c.data.Select.List = []ListData{ld}
		}
	case k < 82:
		c.K = "search"
		c.Req.UID = g.chance(50)
		c.Req.Ret = []string{}
		for _, r := range []string{"MIN", "MAX", "ALL", "COUNT"} {
			if g.chance(35) {
				c.Req.Ret = append(c.Req.Ret, r)
			}
		}
		es := c.Rev2 || len(c.Req.Ret) > 0
		d := &SearchData{All: g.numSet(!es), AllK: "seq", IsUID: c.Req.UID, Min: g.u32(), Max: g.u32(), Count: g.u32()}
		if c.Req.UID {
			d.AllK = "uid"
		}
		c.data.Search = d
	case k < 87:
		c.K = "copy"
		c.Req.UID, c.Req.Move = g.chance(50), g.chance(50)
		cd := &CopyData{Xp: []Num{}}
		if g.chance(80) {
			cd.Cd = []CopyUID{{UIDVal: g.u32(), Src: g.uidSetNonEmpty(), Dst: g.uidSetNonEmpty()}}
		}
		if c.Req.Move {
			for j, n := 0, g.n(200); j < n; j++ {
				cd.Xp = append(cd.Xp, g.nz32())
			}
		}
		c.data.Copy = cd
	case k < 89:
		c.K = "append"
		c.Req.N = Num(g.n(6000))
		if g.chance(70) {
			c.data.Append = []AppendData{{UID: g.nz32(), UIDVal: g.u32()}} // a UID is never zero
		}
	case k < 92:
		c.K = "expunge"
		c.Req.UID = g.chance(50)
		c.data.Expunge = []Num{}
		for j, n := 0, g.n(400); j < n; j++ {
			c.data.Expunge = append(c.data.Expunge, g.nz32())
		}
	case k < 97:
		c.K = "ns"
		nl := func() [][]NsDescr {
			switch g.n(4) {
			case 0:
				return nil
			case 1:
				return [][]NsDescr{{}}
			}
			l := []NsDescr{}
			for j, n := 0, 1+g.n(4); j < n; j++ {
				l = append(l, NsDescr{Str(g.str()), Num(delims[g.n(len(delims))])})
			}
			return [][]NsDescr{l}
		}
		c.data.Ns = &NsData{Personal: nl(), Other: nl(), Shared: nl()}
	default:
		c.K = "caps"
		c.Rev2 = false
		c.data.Caps = [][]string{{"IMAP4rev1"}, {"IMAP4rev2"}, {"IMAP4rev1", "IMAP4rev2"}}[g.n(3)]
		for _, e := range extCaps {
			if g.chance(40) {
				c.data.Caps = append(c.data.Caps, e)
			}
		}
	}
	return c
}

type recT struct {
	I    int         `json:"i"`
	K    string      `json:"k"`
	Rev2 bool        `json:"rev2"`
	Req  interface{} `json:"req"`
	Data interface{} `json:"data"`
	Fail string      `json:"fail"`
	Got  interface{} `json:"got,omitempty"`
}

func record(i int, c *Case, o *outcome) (*recT, error) {
	d, err := generic(c.data.value(c.K))
	if err != nil {
		return nil, fmt.Errorf("supplied data of case %d: %v", i, err)
	}
	rq, _ := generic(reqJSON(c.K, &c.Req))
	r := &recT{I: i, K: c.K, Rev2: c.Rev2, Req: rq, Data: d, Fail: errClass(o.Fail)}
	if o.Fail == "" {
		g, err := generic(o.Got.value(c.K))
		if err != nil {
			r.Fail = "delivered data cannot be rendered: " + errClass(err.Error())
		} else {
			r.Got = g
		}
	}
	return r, nil
}

func cmdRandom(path string, seed int64, n, workers int) {
	recs := make([]*recT, n)
	var (
		mu      sync.Mutex
		infra   string
		perKind = map[string]int{}
		nontriv int
		lits    int
		octets  int64
		wg      sync.WaitGroup
		ch      = make(chan int)
	)
	for w := 0; w < workers; w++ {
		wg.Add(1)
		go func() {
			defer wg.Done()
			pl := &pool{peers: map[bool]*peer{}}
			defer pl.closeAll()
			for i := range ch {
				c := caseAt(seed, i)
				o, err := pl.runCase(c)
				if err == nil && o.Hang {
					o, err = pl.runCase(c)
				}
				var r *recT
				if err == nil {
					r, err = record(i, c, o)
				}
				mu.Lock()
				if err != nil {
					if infra == "" {
						infra = err.Error()
					}
				} else {
					recs[i] = r
					perKind[c.K]++
					if nonTrivial(c) {
						nontriv++
					}
					for _, m := range c.data.Fetch {
						for _, it := range m.Items {
							if it.T == "sec" || it.T == "bin" {
								lits++
								octets += int64(it.N)
							}
						}
					}
				}
				mu.Unlock()
			}
		}()
	}
	for i := 0; i < n; i++ {
		ch <- i
	}
	close(ch)
	wg.Wait()
	if infra != "" {
		out.Summary(map[string]interface{}{"infra_error": infra})
		return
	}
	fh, err := os.Create(path)
	if err != nil {
		out.Summary(map[string]interface{}{"infra_error": err.Error()})
		return
	}
	w := bufio.NewWriterSize(fh, 1<<20)
	failed := 0
	for _, r := range recs {
		b, _ := json.Marshal(r)
		w.Write(b)
		w.WriteByte('\n')
		if r.Fail != "" {
			failed++
		}
	}
	w.Flush()
	fh.Close()
	out.Summary(map[string]interface{}{"records": n, "traces": n, "per_kind": perKind, "nontrivial": nontriv,
		"exchange_failed": failed, "literals": lits, "literal_octets": octets})
}

// cmdClassify re-runs the recorded cases TLC rejected (path: JSON list of case numbers) and names
// what differs; the verdict itself was TLC's.
func cmdClassify(path string, seed int64, n int) {
	b, err := os.ReadFile(path)
	if err != nil {
		out.Summary(map[string]interface{}{"infra_error": err.Error()})
		return
	}
	var idx []int
	if err := json.Unmarshal(b, &idx); err != nil {
		out.Summary(map[string]interface{}{"infra_error": err.Error()})
		return
	}
	// the cases are re-run side by side: a change that makes many of them hang (each waits for its
	// time limit) must not turn the classification into hours
	var (
		mu         sync.Mutex
		wg         sync.WaitGroup
		reproduced int
		infra      string
		ch         = make(chan int)
	)
	for w := 0; w < 16; w++ {
		wg.Add(1)
		go func() {
			defer wg.Done()
			pl := &pool{peers: map[bool]*peer{}}
			defer pl.closeAll()
			for i := range ch {
				c := caseAt(seed, i)
				own, err := canonical(c.K, c.Rev2, &c.Req, c.data)
				if err != nil {
					mu.Lock()
					infra = err.Error()
					mu.Unlock()
					continue
				}
				c.Exp, _ = json.Marshal(own)
				v, _ := judge(pl, c)
				if v == nil {
					continue
				}
				mu.Lock()
				if v.infra != "" {
					infra = v.infra
				} else {
					reproduced++
					rp := caseJSON(c)
					delete(rp, "exp")
					out.Mismatch(v.sig, fmt.Sprintf("random case %d of seed %d: %s", i, seed, v.detail),
						map[string]interface{}{"kind": "random", "seed": seed, "index": i, "case": rp})
				}
				mu.Unlock()
			}
		}()
	}
	for _, i := range idx {
		ch <- i
	}
	close(ch)
	wg.Wait()
	if infra != "" {
		out.Summary(map[string]interface{}{"infra_error": infra})
		return
	}
	out.Summary(map[string]interface{}{"behaviours": len(idx), "steps": len(idx), "mismatches": reproduced})
}
