package main

// Port of Norm (spec/RespSpace.tla, clauses N1..N17) to the Go value shapes.
//
// It is applied to what the client delivered before the comparison with the
// exp printed by TLC.  It is NOT the oracle: in replay mode the harness also
// applies it to the supplied data and demands equality with TLC's exp for
// every catalogue case (a divergence is an infrastructure error), and in the
// recorded direction TLC applies its own Norm to both sides.

import "sort"

func fl(f F) F { return F{f.L, f.L} }

func normFlags(fs []F) []F {
	seen := map[Str]bool{}
	out := []F{}
	for _, f := range fs {
		if !seen[f.L] {
			seen[f.L] = true
			out = append(out, fl(f))
		}
	}
	sort.Slice(out, func(i, j int) bool { return out[i].L < out[j].L })
	return out
}

func normMbox(f F) F {
	if f.L == "inbox" {
		return F{"INBOX", "inbox"}
	}
	return f
}

func has(items []string, x string) bool {
	for _, i := range items {
		if i == x {
			return true
		}
	}
	return false
}

func normStatus(sd Status, items []string) Status {
	out := Status{Mbox: normMbox(sd.Mbox)}
	if has(items, "MESSAGES") {
		out.Msgs = sd.Msgs
	}
	if has(items, "UIDNEXT") {
		out.UIDNext = sd.UIDNext
	}
	if has(items, "UIDVALIDITY") {
		out.UIDVal = sd.UIDVal
	}
	if has(items, "UNSEEN") {
		out.Unseen = sd.Unseen
	}
	if has(items, "DELETED") {
		out.Deleted = sd.Deleted
	}
	if has(items, "SIZE") {
		out.Size = sd.Size
	}
	if has(items, "APPENDLIMIT") {
		out.AppLimit = sd.AppLimit
	}
	if has(items, "DELETED-STORAGE") {
		out.DelStor = sd.DelStor
	}
	return out
}

func normList(ld ListData, st [][]string) ListData {
	out := ListData{Attrs: normFlags(ld.Attrs), Delim: ld.Delim, Mbox: normMbox(ld.Mbox), Child: ld.Child,
		Old: normMbox(ld.Old)}
	if len(st) > 0 && len(ld.Status) > 0 {
		out.Status = []Status{normStatus(ld.Status[0], st[0])}
	}
	return out
}

func normDate(d []Date) []Date {
	if len(d) == 0 {
		return nil
	}
	return []Date{{U: d[0].U, Z: d[0].Z, F: 0}}
}

func normAL(al [][]Addr) [][]Addr {
	if len(al) == 0 || len(al[0]) == 0 {
		return nil
	}
	return al
}

func normEnv(e Env) Env {
	from := normAL(e.From)
	out := Env{Date: normDate(e.Date), Subj: e.Subj, From: from, To: normAL(e.To), Cc: normAL(e.Cc),
		Bcc: normAL(e.Bcc), Irt: e.Irt, Mid: e.Mid}
	out.Sender, out.ReplyTo = e.Sender, e.ReplyTo
	if normAL(e.Sender) == nil {
		out.Sender = from
	}
	if normAL(e.ReplyTo) == nil {
		out.ReplyTo = from
	}
	return out
}

func normP(p [][]Param) [][]Param {
	if len(p) == 0 || len(p[0]) == 0 {
		return nil
	}
	seen := map[string]bool{}
	out := []Param{}
	for _, x := range p[0] {
		y := Param{fl(x.Key), x.Pv}
		k := string(y.Key.L) + "\x00" + string(y.Pv)
		if !seen[k] {
			seen[k] = true
			out = append(out, y)
		}
	}
	return [][]Param{out}
}

func normDisp(d []Disp) []Disp {
	if len(d) == 0 {
		return nil
	}
	return []Disp{{Val: d[0].Val, Dparams: normP(d[0].Dparams)}}
}

func normLang(l [][]Str) [][]Str {
	if len(l) == 0 || len(l[0]) == 0 {
		return nil
	}
	return l
}

func normEnc(f F) F {
	if f.L == "" {
		return F{"7bit", "7bit"}
	}
	return fl(f)
}

func normBS(b BS, ext bool) BS {
	if b.M != nil {
		m := &bsMulti{Mp: true, Sub: b.M.Sub}
		for _, k := range b.M.Kids {
			m.Kids = append(m.Kids, normBS(k, ext))
		}
		if ext && len(b.M.Mext) > 0 {
			x := b.M.Mext[0]
			m.Mext = []ExtM{{Mparams: normP(x.Mparams), Disp: normDisp(x.Disp), Lang: normLang(x.Lang), Loc: x.Loc}}
		}
		return BS{M: m}
	}
	s := *b.S
	s.Params = normP(s.Params)
	s.Enc = normEnc(s.Enc)
	if len(b.S.Msg) > 0 {
		mp := b.S.Msg[0]
		env := Env{}
		if len(mp.Menv) > 0 {
			env = mp.Menv[0]
		}
		s.Msg = []MsgPart{{Menv: []Env{normEnv(env)}, Mbs: normBS(mp.Mbs, ext), Lines: mp.Lines}}
	} else {
		s.Msg = nil
	}
	if ext && len(b.S.Ext) > 0 {
		x := b.S.Ext[0]
		s.Ext = []Ext1{{Disp: normDisp(x.Disp), Lang: normLang(x.Lang), Loc: x.Loc}}
	} else {
		s.Ext = nil
	}
	return BS{S: &s}
}

func normSec(s Sec) Sec {
	out := Sec{Spec: s.Spec, Part: s.Part, Hf: s.Hf, Hfn: s.Hfn}
	if len(s.Partial) > 0 {
		out.Partial = []Partial{{Off: s.Partial[0].Off}}
	}
	return out
}

func normItem(it Item, req *Req) Item {
	out := it
	switch it.T {
	case "flags":
		out.Flags = normFlags(it.Flags)
	case "date":
		out.Date = normDate(it.Date)
	case "env":
		e := normEnv(*it.Env)
		out.Env = &e
	case "bs":
		b := normBS(*it.Bs, req.Bs == "BODYSTRUCTURE")
		out.Bs = &b
	case "sec":
		s := normSec(*it.Sec)
		out.Sec = &s
		if it.N == 0 {
			out.P = ""
		}
	case "bin":
		out.Bpartial = nil
		out.Peek = false
		if it.N == 0 {
			out.P = ""
		}
	}
	return out
}

func normItems(items []Item, req *Req) []Item {
	out := []Item{}
	for _, t := range []string{"flags", "date", "size", "uid", "env", "bs", "binsz"} {
		for _, it := range items {
			if it.T == t {
				out = append(out, normItem(it, req))
			}
		}
	}
	for _, it := range items {
		if it.T == "sec" || it.T == "bin" {
			out = append(out, normItem(it, req))
		}
	}
	return out
}

const big = 1<<31 - 1

func normNS(rs []Range) []Range {
	seen := map[Range]bool{}
	out := []Range{}
	add := func(r Range) {
		if !seen[r] {
			seen[r] = true
			out = append(out, r)
		}
	}
	for _, r := range rs {
		if r[0] <= big && r[1] <= big {
			lo, hi := r[0], r[1]
			if lo > hi {
				lo, hi = hi, lo
			}
			for n := lo; n <= hi; n++ {
				add(Range{n, n})
			}
		} else {
			add(r)
		}
	}
	sort.Slice(out, func(i, j int) bool {
		if out[i][0] != out[j][0] {
			return out[i][0] < out[j][0]
		}
		return out[i][1] < out[j][1]
	})
	return out
}

func normSearch(d SearchData, req *Req, rev2 bool) SearchData {
	es := rev2 || len(req.Ret) > 0
	ret := req.Ret
	if len(ret) == 0 {
		ret = []string{"ALL"}
	}
	out := SearchData{}
	if !(es && !has(ret, "ALL")) {
		out.All = normNS(d.All)
	}
	if len(out.All) > 0 {
		out.AllK = d.AllK
	}
	out.IsUID = es && d.IsUID
	if es && has(ret, "MIN") {
		out.Min = d.Min
	}
	if es && has(ret, "MAX") {
		out.Max = d.Max
	}
	if es && has(ret, "COUNT") {
		out.Count = d.Count
	}
	return out
}

func normAppend(d []AppendData) []AppendData {
	if len(d) == 0 || (d[0].UID == 0 && d[0].UIDVal == 0) {
		return nil
	}
	return d
}

func normCD(d []CopyUID) []CopyUID {
	if len(d) == 0 || (d[0].UIDVal == 0 && len(d[0].Src) == 0 && len(d[0].Dst) == 0) {
		return nil
	}
	return []CopyUID{{UIDVal: d[0].UIDVal, Src: normNS(d[0].Src), Dst: normNS(d[0].Dst)}}
}

func normNSp(l [][]NsDescr) [][]NsDescr {
	if len(l) == 0 || len(l[0]) == 0 {
		return nil
	}
	return l
}

var rev2Implied = map[string]bool{"NAMESPACE": true, "UNSELECT": true, "UIDPLUS": true, "ESEARCH": true,
	"SEARCHRES": true, "ENABLE": true, "IDLE": true, "SASL-IR": true, "LIST-EXTENDED": true, "LIST-STATUS": true,
	"MOVE": true, "LITERAL-": true, "STATUS=SIZE": true}
var backendCaps = []string{"IMAP4rev1", "IMAP4rev2", "NAMESPACE", "UIDPLUS", "ESEARCH", "SEARCHRES",
	"LIST-EXTENDED", "LIST-STATUS", "MOVE", "STATUS=SIZE", "BINARY", "CREATE-SPECIAL-USE", "LITERAL+",
	"UNAUTHENTICATE"}

func normCaps(cs []string) []string {
	set := map[string]bool{}
	for _, c := range cs {
		set[c] = true
	}
	out := []string{}
	for _, k := range backendCaps {
		if set[k] || (set["IMAP4rev2"] && rev2Implied[k]) {
			out = append(out, k)
		}
	}
	return out
}

// normData is NormData of the spec.
func normData(k string, rev2 bool, req *Req, d *Data) *Data {
	out := &Data{}
	switch k {
	case "list":
		out.List = []ListData{}
		for _, ld := range d.List {
			out.List = append(out.List, normList(ld, req.St))
		}
	case "status":
		s := normStatus(*d.Status, req.Sitems)
		out.Status = &s
	case "select":
		s := SelectData{Flags: normFlags(d.Select.Flags), PFlags: normFlags(d.Select.PFlags), Num: d.Select.Num,
			UIDNext: d.Select.UIDNext, UIDVal: d.Select.UIDVal}
		if len(d.Select.List) > 0 {
			s.List = []ListData{normList(d.Select.List[0], nil)}
		}
		out.Select = &s
	case "fetch":
		out.Fetch = []Msg{}
		for _, m := range d.Fetch {
			out.Fetch = append(out.Fetch, Msg{Seq: m.Seq, Items: normItems(m.Items, req)})
		}
	case "search":
		s := normSearch(*d.Search, req, rev2)
		out.Search = &s
	case "append":
		out.Append = normAppend(d.Append)
	case "copy":
		out.Copy = &CopyData{Cd: normCD(d.Copy.Cd), Xp: d.Copy.Xp}
	case "ns":
		out.Ns = &NsData{Personal: normNSp(d.Ns.Personal), Other: normNSp(d.Ns.Other), Shared: normNSp(d.Ns.Shared)}
	case "caps":
		out.Caps = normCaps(d.Caps)
	case "expunge":
		out.Expunge = d.Expunge
	}
	return out
}

// canonical renders NormData as a generic value with the set-like arrays sorted
// and duplicates of set elements removed (TLC sets have no duplicates).
func canonical(k string, rev2 bool, req *Req, d *Data) (interface{}, error) {
	g, err := generic(normData(k, rev2, req, d).value(k))
	if err != nil {
		return nil, err
	}
	g = sortSets(k, g, true)
	if a, ok := g.([]interface{}); ok && (k == "list" || k == "fetch") {
		g = dedup(a)
	}
	return g, nil
}

func dedup(a []interface{}) []interface{} {
	out := []interface{}{}
	for i, v := range a {
		if i > 0 && jstr(v) == jstr(a[i-1]) {
			continue
		}
		out = append(out, v)
	}
	return out
}
