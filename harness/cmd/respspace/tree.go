package main

// Value shapes shared with spec/RespSpace.tla (see the header comment there).
// The same Go types are used for what the backend supplies (parsed from a T
// line or generated at random) and for what the client delivered.

import (
	"bytes"
	"crypto/sha256"
	"encoding/hex"
	"encoding/json"
	"fmt"
	"sort"
	"strconv"
	"strings"
)

// ---- numbers: negative JSON integers are symbolic points above 2^31-1 ----

type Num int64

var symToBig = map[int64]int64{
	-1: 1<<32 - 1, -2: 1<<32 - 2, -3: 1<<63 - 1, -4: 1 << 32, -5: 1 << 31, -6: 1<<32 + 1, -7: 1 << 53,
}
var bigToSym = func() map[int64]int64 {
	m := map[int64]int64{}
	for k, v := range symToBig {
		m[v] = k
	}
	return m
}()

func (n *Num) UnmarshalJSON(b []byte) error {
	v, err := strconv.ParseInt(string(b), 10, 64)
	if err != nil {
		return err
	}
	if v < 0 {
		big, ok := symToBig[v]
		if !ok {
			return fmt.Errorf("unknown symbolic number %d", v)
		}
		v = big
	}
	*n = Num(v)
	return nil
}

func (n Num) MarshalJSON() ([]byte, error) {
	v := int64(n)
	if v < 0 {
		return nil, fmt.Errorf("negative number %d", v)
	}
	if v > 1<<31-1 {
		s, ok := bigToSym[v]
		if !ok {
			return nil, fmt.Errorf("number %d above 2^31-1 is not a symbolic point", v)
		}
		v = s
	}
	return []byte(strconv.FormatInt(v, 10)), nil
}

// ---- strings: opaque identities ----

type Str string

var specials = map[string]string{
	"~sp":      "two words",
	"~q":       `q"uo\te`,
	"~u8":      "héllo wörld ✓",
	"~crlf":    "line1\r\nline2",
	"~ew":      "=?utf-8?q?abc?=",
	"~long":    strings.Repeat("x", 5000),
	"~u8long":  strings.Repeat("é", 3000),
	"~lt":      "<a(b)c>{3}%*",
	"~u8mb":    "Entwürfe/日本語",
	"~u8mbl":   "entwürfe/日本語",
	"~amp":     "a&b",
	"~amp2":    "&",
	"~u7look":  "&AOk-",
	"~u7lookl": "&aok-",
	"~qmb":     `q"m\b`,
	"~spmb":    "with space",
	"~midlit":  "x@[1.2.3.4]",
	"~cid":     "<id@h>",
}
var specialsRev = func() map[string]string {
	m := map[string]string{}
	for k, v := range specials {
		m[v] = k
	}
	return m
}()

func isSafe(s string) bool {
	if len(s) > 40 {
		return false
	}
	for i := 0; i < len(s); i++ {
		ch := s[i]
		switch {
		case ch >= 'a' && ch <= 'z', ch >= 'A' && ch <= 'Z', ch >= '0' && ch <= '9':
		case ch == '_', ch == '.', ch == ':', ch == '+', ch == '/', ch == '@', ch == '=', ch == '-':
		default:
			return false
		}
	}
	return true
}

func fp(b []byte) string {
	h := sha256.Sum256(b)
	return hex.EncodeToString(h[:8])
}

// idOf is the identity of a string as TLC sees it; computed by the same
// function for supplied and delivered values.
func idOf(s string) string {
	if k, ok := specialsRev[s]; ok {
		return k
	}
	if isSafe(s) {
		return s
	}
	if len(s) > 1 && (s[0] == '\\' || s[0] == '$') && (isSafe(s[1:]) || s[1:] == "*") {
		if s[0] == '\\' {
			return "~b:" + s[1:]
		}
		return "~d:" + s[1:]
	}
	return fmt.Sprintf("#%d:%s", len(s), fp([]byte(s)))
}

func resolve(id string) (string, error) {
	switch {
	case strings.HasPrefix(id, "~b:"):
		return "\\" + id[3:], nil
	case strings.HasPrefix(id, "~d:"):
		return "$" + id[3:], nil
	case strings.HasPrefix(id, "~"):
		v, ok := specials[id]
		if !ok {
			return "", fmt.Errorf("unknown special string %q", id)
		}
		return v, nil
	case strings.HasPrefix(id, "#"):
		return "", fmt.Errorf("fingerprint id %q cannot be resolved", id)
	}
	return id, nil
}

func (s *Str) UnmarshalJSON(b []byte) error {
	var id string
	if err := json.Unmarshal(b, &id); err != nil {
		return err
	}
	v, err := resolve(id)
	if err != nil {
		return err
	}
	*s = Str(v)
	return nil
}

func (s Str) MarshalJSON() ([]byte, error) { return json.Marshal(idOf(string(s))) }

func lowerASCII(s string) string {
	b := []byte(s)
	for i, ch := range b {
		if ch >= 'A' && ch <= 'Z' {
			b[i] = ch + 32
		}
	}
	return string(b)
}

// F is a string in a case-insensitive position.
type F struct {
	S Str `json:"s"`
	L Str `json:"l"`
}

func mkF(s string) F { return F{Str(s), Str(lowerASCII(s))} }

var badF []string // catalogue values whose l is not the lower-cased s

func (f *F) UnmarshalJSON(b []byte) error {
	var x struct {
		S Str `json:"s"`
		L Str `json:"l"`
	}
	if err := json.Unmarshal(b, &x); err != nil {
		return err
	}
	if lowerASCII(string(x.S)) != string(x.L) {
		badF = append(badF, fmt.Sprintf("%q/%q", x.S, x.L))
	}
	f.S, f.L = x.S, x.L
	return nil
}

// ---- structures ----

type Date struct {
	U Num `json:"u"`
	Z Num `json:"z"`
	F Num `json:"f"`
}

func (d Date) MarshalJSON() ([]byte, error) {
	// z may be negative (zone west of Greenwich): a plain integer, not a symbolic point
	return []byte(fmt.Sprintf(`{"u":%d,"z":%d,"f":%d}`, int64(d.U), int64(d.Z), int64(d.F))), nil
}
func (d *Date) UnmarshalJSON(b []byte) error {
	var x struct{ U, Z, F int64 }
	if err := json.Unmarshal(b, &x); err != nil {
		return err
	}
	d.U, d.Z, d.F = Num(x.U), Num(x.Z), Num(x.F)
	return nil
}

type Addr struct {
	Name  Str `json:"name"`
	Local Str `json:"local"`
	Host  Str `json:"host"`
}

type Env struct {
	Date    []Date   `json:"date"`
	Subj    Str      `json:"subj"`
	From    [][]Addr `json:"from"`
	Sender  [][]Addr `json:"sender"`
	ReplyTo [][]Addr `json:"replyto"`
	To      [][]Addr `json:"to"`
	Cc      [][]Addr `json:"cc"`
	Bcc     [][]Addr `json:"bcc"`
	Irt     []Str    `json:"irt"`
	Mid     Str      `json:"mid"`
}

type Param struct {
	Key F   `json:"key"`
	Pv  Str `json:"pv"`
}

type Disp struct {
	Val     Str       `json:"val"`
	Dparams [][]Param `json:"dparams"`
}

type Ext1 struct {
	Disp []Disp  `json:"disp"`
	Lang [][]Str `json:"lang"`
	Loc  Str     `json:"loc"`
}

type ExtM struct {
	Mparams [][]Param `json:"mparams"`
	Disp    []Disp    `json:"disp"`
	Lang    [][]Str   `json:"lang"`
	Loc     Str       `json:"loc"`
}

type MsgPart struct {
	Menv  []Env `json:"menv"`
	Mbs   BS    `json:"mbs"`
	Lines Num   `json:"lines"`
}

type bsSingle struct {
	Mp     bool      `json:"mp"`
	Type   Str       `json:"type"`
	Sub    Str       `json:"sub"`
	Params [][]Param `json:"params"`
	ID     Str       `json:"id"`
	Desc   Str       `json:"desc"`
	Enc    F         `json:"enc"`
	Octets Num       `json:"octets"`
	Msg    []MsgPart `json:"msg"`
	Text   []Num     `json:"text"`
	Ext    []Ext1    `json:"ext"`
}

type bsMulti struct {
	Mp   bool   `json:"mp"`
	Kids []BS   `json:"kids"`
	Sub  Str    `json:"sub"`
	Mext []ExtM `json:"mext"`
}

// BS is a body structure: exactly one of S, M is set.
type BS struct {
	S *bsSingle
	M *bsMulti
}

func (b BS) MarshalJSON() ([]byte, error) {
	if b.M != nil {
		b.M.Mp = true
		return json.Marshal(b.M)
	}
	if b.S == nil {
		return nil, fmt.Errorf("empty body structure")
	}
	b.S.Mp = false
	return json.Marshal(b.S)
}

func (b *BS) UnmarshalJSON(data []byte) error {
	var probe struct {
		Mp bool `json:"mp"`
	}
	if err := json.Unmarshal(data, &probe); err != nil {
		return err
	}
	if probe.Mp {
		b.M = new(bsMulti)
		return json.Unmarshal(data, b.M)
	}
	b.S = new(bsSingle)
	return json.Unmarshal(data, b.S)
}

type Partial struct {
	Off   Num `json:"off"`
	Psize Num `json:"psize"`
}

type Sec struct {
	Spec    Str       `json:"spec"`
	Part    []Num     `json:"part"`
	Hf      []Str     `json:"hf"`
	Hfn     []Str     `json:"hfn"`
	Partial []Partial `json:"partial"`
	Peek    bool      `json:"peek"`
}

// Item is one FETCH data item; T selects the fields in use.
type Item struct {
	T        string
	Flags    []F
	Date     []Date
	Rsize    Num
	UID      Num
	Env      *Env
	Bs       *BS
	Sec      *Sec
	Part     []Num
	Bpartial []Partial
	Peek     bool
	N        Num
	P        string // payload identity: class name, "" for an empty payload, or "#fp"
	Binsz    Num

	payload []byte
	nilLit  bool // delivered: the client handed out no literal reader
}

func (it Item) MarshalJSON() ([]byte, error) {
	m := map[string]interface{}{"t": it.T}
	switch it.T {
	case "flags":
		m["flags"] = it.Flags
	case "date":
		m["date"] = it.Date
	case "size":
		m["rsize"] = it.Rsize
	case "uid":
		m["uid"] = it.UID
	case "env":
		m["env"] = it.Env
	case "bs":
		m["bs"] = it.Bs
	case "sec":
		m["sec"] = it.Sec
		m["n"] = it.N
		m["p"] = it.P
	case "bin":
		m["part"] = it.Part
		m["bpartial"] = it.Bpartial
		m["peek"] = it.Peek
		m["n"] = it.N
		m["p"] = it.P
	case "binsz":
		m["part"] = it.Part
		m["binsz"] = it.Binsz
	default:
		return nil, fmt.Errorf("unknown item type %q", it.T)
	}
	return json.Marshal(m)
}

func (it *Item) UnmarshalJSON(b []byte) error {
	var x struct {
		T        string    `json:"t"`
		Flags    []F       `json:"flags"`
		Date     []Date    `json:"date"`
		Rsize    Num       `json:"rsize"`
		UID      Num       `json:"uid"`
		Env      *Env      `json:"env"`
		Bs       *BS       `json:"bs"`
		Sec      *Sec      `json:"sec"`
		Part     []Num     `json:"part"`
		Bpartial []Partial `json:"bpartial"`
		Peek     bool      `json:"peek"`
		N        Num       `json:"n"`
		P        string    `json:"p"`
		Binsz    Num       `json:"binsz"`
	}
	if err := json.Unmarshal(b, &x); err != nil {
		return err
	}
	*it = Item{T: x.T, Flags: x.Flags, Date: x.Date, Rsize: x.Rsize, UID: x.UID, Env: x.Env, Bs: x.Bs, Sec: x.Sec,
		Part: x.Part, Bpartial: x.Bpartial, Peek: x.Peek, N: x.N, P: x.P, Binsz: x.Binsz}
	if it.T == "sec" || it.T == "bin" {
		if strings.HasPrefix(it.P, "#") {
			return fmt.Errorf("payload %q cannot be regenerated", it.P)
		}
		it.payload = genPayload(it.P, int(it.N))
	}
	return nil
}

type Msg struct {
	Seq   Num    `json:"seq"`
	Items []Item `json:"items"`
}

type Status struct {
	Mbox     F     `json:"mbox"`
	Msgs     []Num `json:"msgs"`
	UIDNext  Num   `json:"uidnext"`
	UIDVal   Num   `json:"uidval"`
	Unseen   []Num `json:"unseen"`
	Deleted  []Num `json:"deleted"`
	Size     []Num `json:"size"`
	AppLimit []Num `json:"applimit"`
	DelStor  []Num `json:"delstor"`
}

type ListData struct {
	Attrs  []F      `json:"attrs"`
	Delim  Num      `json:"delim"`
	Mbox   F        `json:"mbox"`
	Child  []bool   `json:"child"`
	Old    F        `json:"old"`
	Status []Status `json:"status"`
}

type SelectData struct {
	Flags   []F        `json:"flags"`
	PFlags  []F        `json:"pflags"`
	Num     Num        `json:"num"`
	UIDNext Num        `json:"uidnext"`
	UIDVal  Num        `json:"uidval"`
	List    []ListData `json:"list"`
}

type Range [2]Num

type SearchData struct {
	All   []Range `json:"all"`
	AllK  string  `json:"allk"`
	IsUID bool    `json:"isuid"`
	Min   Num     `json:"min"`
	Max   Num     `json:"max"`
	Count Num     `json:"count"`
}

type AppendData struct {
	UID    Num `json:"uid"`
	UIDVal Num `json:"uidval"`
}

type CopyUID struct {
	UIDVal Num     `json:"uidval"`
	Src    []Range `json:"src"`
	Dst    []Range `json:"dst"`
}

type CopyData struct {
	Cd []CopyUID `json:"cd"`
	Xp []Num     `json:"xp"`
}

type NsDescr struct {
	Prefix Str `json:"prefix"`
	Delim  Num `json:"delim"`
}

type NsData struct {
	Personal [][]NsDescr `json:"personal"`
	Other    [][]NsDescr `json:"other"`
	Shared   [][]NsDescr `json:"shared"`
}

// Req is the union of the request parameters of all kinds.
type Req struct {
	St     [][]string `json:"st,omitempty"`     // list: RETURN (STATUS (...))
	Lp     int        `json:"lp"`               // list: which (reference, pattern) is asked with (lpTable)
	Mbox   *F         `json:"mbox,omitempty"`   // status, select
	Sitems []string   `json:"sitems,omitempty"` // status
	UID    bool       `json:"uid"`              // fetch, search, copy, expunge
	Bs     string     `json:"bs"`               // fetch: "", BODY, BODYSTRUCTURE
	Rev    bool       `json:"rev"`              // fetch: request the sections in reverse order
	Ret    []string   `json:"ret,omitempty"`    // search
	Move   bool       `json:"move"`             // copy
	N      Num        `json:"n"`                // append: size of the appended message
	X      int        `json:"x"`
}

// reqJSON renders the request with exactly the fields of the spec's shape for the kind.
func reqJSON(k string, r *Req) interface{} {
	strs := func(l []string) []string {
		if l == nil {
			return []string{}
		}
		return l
	}
	switch k {
	case "list":
		st := [][]string{}
		for _, x := range r.St {
			st = append(st, strs(x))
		}
		return map[string]interface{}{"st": st, "lp": r.Lp}
	case "status":
		return map[string]interface{}{"mbox": r.Mbox, "sitems": strs(r.Sitems)}
	case "select":
		return map[string]interface{}{"mbox": r.Mbox}
	case "fetch":
		return map[string]interface{}{"uid": r.UID, "bs": r.Bs, "rev": r.Rev}
	case "search":
		return map[string]interface{}{"uid": r.UID, "ret": strs(r.Ret)}
	case "append":
		return map[string]interface{}{"n": r.N}
	case "copy":
		return map[string]interface{}{"uid": r.UID, "move": r.Move}
	case "expunge":
		return map[string]interface{}{"uid": r.UID}
	}
	return map[string]interface{}{"x": 0}
}

// Data is the union of the data of all kinds; K selects the member.
type Data struct {
	List    []ListData
	Status  *Status
	Select  *SelectData
	Fetch   []Msg
	Search  *SearchData
	Append  []AppendData
	Copy    *CopyData
	Ns      *NsData
	Caps    []string
	Expunge []Num
}

func (d *Data) value(k string) interface{} {
	switch k {
	case "list":
		return d.List
	case "status":
		return d.Status
	case "select":
		return d.Select
	case "fetch":
		return d.Fetch
	case "search":
		return d.Search
	case "append":
		return d.Append
	case "copy":
		return d.Copy
	case "ns":
		return d.Ns
	case "caps":
		return d.Caps
	case "expunge":
		return d.Expunge
	}
	return nil
}

func parseData(k string, raw json.RawMessage) (*Data, error) {
	d := &Data{}
	var err error
	switch k {
	case "list":
		err = json.Unmarshal(raw, &d.List)
	case "status":
		err = json.Unmarshal(raw, &d.Status)
	case "select":
		err = json.Unmarshal(raw, &d.Select)
	case "fetch":
		err = json.Unmarshal(raw, &d.Fetch)
	case "search":
		err = json.Unmarshal(raw, &d.Search)
	case "append":
		err = json.Unmarshal(raw, &d.Append)
	case "copy":
		err = json.Unmarshal(raw, &d.Copy)
	case "ns":
		err = json.Unmarshal(raw, &d.Ns)
	case "caps":
		err = json.Unmarshal(raw, &d.Caps)
	case "expunge":
		err = json.Unmarshal(raw, &d.Expunge)
	default:
		err = fmt.Errorf("unknown kind %q", k)
	}
	return d, err
}

// Case is one (configuration, request, data) instance.
type Case struct {
	K    string          `json:"k"`
	Rev2 bool            `json:"rev2"`
	Req  Req             `json:"req"`
	Data json.RawMessage `json:"data"`
	Exp  json.RawMessage `json:"exp,omitempty"`

	data *Data
}

func parseCase(b []byte) (*Case, error) {
	c := &Case{}
	if err := json.Unmarshal(b, c); err != nil {
		return nil, err
	}
	d, err := parseData(c.K, c.Data)
	if err != nil {
		return nil, fmt.Errorf("data of %s case: %v", c.K, err)
	}
	c.data = d
	return c, nil
}

// generic renders v in the JSON shape of the spec: nil slices are [], numbers
// symbolic, strings identities.
func generic(v interface{}) (interface{}, error) {
	b, err := json.Marshal(v)
	if err != nil {
		return nil, err
	}
	dec := json.NewDecoder(bytes.NewReader(b))
	dec.UseNumber()
	var g interface{}
	if err := dec.Decode(&g); err != nil {
		return nil, err
	}
	return fixNil(g), nil
}

func fixNil(g interface{}) interface{} {
	switch x := g.(type) {
	case nil:
		return []interface{}{}
	case map[string]interface{}:
		for k, v := range x {
			x[k] = fixNil(v)
		}
	case []interface{}:
		for i, v := range x {
			x[i] = fixNil(v)
		}
	}
	return g
}

// ---- payload classes ----

var payloadClasses = []string{"a", "crlf", "nul", "hi", "mix"}

func genPayload(class string, n int) []byte {
	b := make([]byte, n)
	for i := range b {
		switch class {
		case "a", "":
			b[i] = 'a' + byte(i%26)
		case "crlf":
			b[i] = "\r\n\r\nx\n\r"[i%7]
		case "nul":
			b[i] = []byte{0, 'n', 0, 0, '}'}[i%5]
		case "hi":
			b[i] = []byte{0xff, 0xc3, 0x28, 0x80, 0xfe}[i%5]
		case "mix":
			b[i] = []byte("M{5}\r\n\x00\xe9\") * OK\r\n")[i%17]
		default:
			panic("unknown payload class " + class)
		}
	}
	return b
}

// payloadID names a byte string the way the catalogue does when it is one of
// the catalogue's payloads, otherwise by fingerprint.
func payloadID(b []byte) string {
	if len(b) == 0 {
		return ""
	}
	for _, c := range payloadClasses {
		if bytes.Equal(b, genPayload(c, len(b))) {
			return c
		}
	}
	return "#" + fp(b)
}

// ---- comparison of two generic values ----

var setKeys = map[string]bool{"flags": true, "pflags": true, "attrs": true, "all": true, "src": true, "dst": true}
var optSetKeys = map[string]bool{"params": true, "dparams": true, "mparams": true}

func jstr(v interface{}) string { b, _ := json.Marshal(v); return string(b) }

func sortArr(a []interface{}) {
	sort.SliceStable(a, func(i, j int) bool { return jstr(a[i]) < jstr(a[j]) })
}

// sortSets orders the arrays that stand for sets (the spec enumerates them in
// TLC's order, the harness in its own).
func sortSets(k string, g interface{}, top bool) interface{} {
	switch x := g.(type) {
	case map[string]interface{}:
		for key, v := range x {
			v = sortSets(k, v, false)
			if a, ok := v.([]interface{}); ok {
				if setKeys[key] {
					sortArr(a)
				} else if optSetKeys[key] && len(a) == 1 {
					if in, ok := a[0].([]interface{}); ok {
						sortArr(in)
					}
				}
			}
			x[key] = v
		}
	case []interface{}:
		for i, v := range x {
			x[i] = sortSets(k, v, false)
		}
		if top && (k == "list" || k == "fetch" || k == "caps") {
			sortArr(x)
			// align the elements of both sides by their key (mailbox name / sequence number)
			key := func(v interface{}) string {
				m, ok := v.(map[string]interface{})
				if !ok {
					return ""
				}
				if k == "fetch" {
					return fmt.Sprintf("%020s", jstr(m["seq"]))
				}
				if mb, ok := m["mbox"].(map[string]interface{}); ok {
					return jstr(mb["l"]) + jstr(mb["s"])
				}
				return ""
			}
			sort.SliceStable(x, func(i, j int) bool { return key(x[i]) < key(x[j]) })
		}
	}
	return g
}

// diffPath returns the path of the first difference between two generic
// values ("" if equal) and the two leaves.
func diffPath(a, b interface{}, path string) (string, string, string) {
	switch x := a.(type) {
	case map[string]interface{}:
		y, ok := b.(map[string]interface{})
		if !ok {
			return path, short(a), short(b)
		}
		keys := []string{}
		for k := range x {
			keys = append(keys, k)
		}
		for k := range y {
			if _, ok := x[k]; !ok {
				keys = append(keys, k)
			}
		}
		sort.Strings(keys)
		for _, k := range keys {
			xv, ok1 := x[k]
			yv, ok2 := y[k]
			if !ok1 || !ok2 {
				return path + "/" + k, short(xv), short(yv)
			}
			if p, l, r := diffPath(xv, yv, path+"/"+k); p != "" {
				return p, l, r
			}
		}
		return "", "", ""
	case []interface{}:
		y, ok := b.([]interface{})
		if !ok {
			return path, short(a), short(b)
		}
		if len(x) != len(y) {
			// name the first element one side has and the other lacks
			in := func(v interface{}, l []interface{}) bool {
				for _, w := range l {
					if jstr(v) == jstr(w) {
						return true
					}
				}
				return false
			}
			for _, v := range x {
				if !in(v, y) {
					return path + "[missing]", short(v), "-"
				}
			}
			for _, v := range y {
				if !in(v, x) {
					return path + "[extra]", "-", short(v)
				}
			}
			return path + "#len", fmt.Sprint(len(x)), fmt.Sprint(len(y))
		}
		for i := range x {
			if p, l, r := diffPath(x[i], y[i], path+"[]"); p != "" {
				return p, l, r
			}
		}
		return "", "", ""
	}
	if jstr(a) != jstr(b) {
		return path, short(a), short(b)
	}
	return "", "", ""
}

func short(v interface{}) string {
	s := jstr(v)
	if len(s) > 60 {
		s = s[:57] + "..."
	}
	return s
}
