package main

// One case = one request of a real imapclient.Client against a real
// imapserver.Server (in-memory connection) whose stub Session writes the
// case's data through the real writer API.

import (
	"fmt"
	"io"
	"sort"
	"strings"
	"sync"
	"sync/atomic"
	"time"

	"github.com/emersion/go-imap/v2"
	"github.com/emersion/go-imap/v2/imapclient"
	"github.com/emersion/go-imap/v2/imapserver"

	"verif/harness/vh"
)

// ---- stub session ----

type stub struct {
	vh.NopSession
	cur atomic.Pointer[Case]
	err atomic.Pointer[string] // a writer returned an error / panicked
}

func (s *stub) fail(format string, a ...interface{}) {
	m := fmt.Sprintf(format, a...)
	s.err.CompareAndSwap(nil, &m)
}

func (s *stub) cs(kind string) *Case {
	c := s.cur.Load()
	if c == nil || c.K != kind {
		return nil
	}
	return c
}

func (s *stub) Select(mailbox string, options *imap.SelectOptions) (*imap.SelectData, error) {
	c := s.cs("select")
	if c == nil {
		return &imap.SelectData{NumMessages: 1, UIDNext: 2, UIDValidity: 1}, nil
	}
	d := c.data.Select
	out := &imap.SelectData{Flags: toFlags(d.Flags), PermanentFlags: toFlags(d.PFlags), NumMessages: uint32(d.Num),
		UIDNext: imap.UID(d.UIDNext), UIDValidity: uint32(d.UIDVal)}
	if len(d.List) > 0 {
		out.List = toList(&d.List[0])
	}
	return out, nil
}

func (s *stub) List(w *imapserver.ListWriter, ref string, patterns []string, options *imap.ListOptions) error {
	c := s.cs("list")
	if c == nil {
		return nil
	}
	for i := range c.data.List {
		if err := w.WriteList(toList(&c.data.List[i])); err != nil {
			s.fail("WriteList: %v", err)
			return err
		}
	}
	return nil
}

func (s *stub) Status(mailbox string, options *imap.StatusOptions) (*imap.StatusData, error) {
	c := s.cs("status")
	if c == nil {
		return &imap.StatusData{Mailbox: mailbox}, nil
	}
	return toStatus(c.data.Status), nil
}

func (s *stub) Fetch(w *imapserver.FetchWriter, numSet imap.NumSet, options *imap.FetchOptions) error {
	c := s.cs("fetch")
	if c == nil {
		return nil
	}
	for _, m := range c.data.Fetch {
		mw := w.CreateMessage(uint32(m.Seq))
		for i := range m.Items {
			it := &m.Items[i]
			switch it.T {
			case "flags":
				mw.WriteFlags(toFlags(it.Flags))
			case "date":
				mw.WriteInternalDate(toTime(it.Date))
			case "size":
				mw.WriteRFC822Size(int64(it.Rsize))
			case "uid":
				mw.WriteUID(imap.UID(it.UID))
			case "env":
				mw.WriteEnvelope(toEnv(it.Env))
			case "bs":
				mw.WriteBodyStructure(toBS(*it.Bs))
			case "sec":
				wc := mw.WriteBodySection(toSec(it.Sec), int64(len(it.payload)))
				if _, err := wc.Write(it.payload); err != nil {
					s.fail("literal write: %v", err)
				}
				if err := wc.Close(); err != nil {
					s.fail("literal close: %v", err)
				}
			case "bin":
				sec := &imap.FetchItemBinarySection{Part: toInts(it.Part), Partial: toPartial(it.Bpartial), Peek: it.Peek}
				wc := mw.WriteBinarySection(sec, int64(len(it.payload)))
				if _, err := wc.Write(it.payload); err != nil {
					s.fail("literal8 write: %v", err)
				}
				if err := wc.Close(); err != nil {
					s.fail("literal8 close: %v", err)
				}
			case "binsz":
				mw.WriteBinarySectionSize(&imap.FetchItemBinarySection{Part: toInts(it.Part)}, uint32(it.Binsz))
			}
		}
		if err := mw.Close(); err != nil {
			s.fail("FetchResponseWriter.Close: %v", err)
			return err
		}
	}
	return nil
}

func (s *stub) Search(kind imapserver.NumKind, criteria *imap.SearchCriteria, options *imap.SearchOptions) (*imap.SearchData, error) {
	c := s.cs("search")
	if c == nil {
		return &imap.SearchData{All: imap.SeqSet{}}, nil
	}
	d := c.data.Search
	out := &imap.SearchData{UID: d.IsUID, Min: uint32(d.Min), Max: uint32(d.Max), Count: uint32(d.Count)}
	if d.AllK == "uid" {
		out.All = toUIDSet(d.All)
	} else {
		out.All = toSeqSet(d.All)
	}
	return out, nil
}

func (s *stub) Append(mailbox string, r imap.LiteralReader, options *imap.AppendOptions) (*imap.AppendData, error) {
	io.Copy(io.Discard, r)
	c := s.cs("append")
	if c == nil || len(c.data.Append) == 0 {
		return nil, nil
	}
	return &imap.AppendData{UID: imap.UID(c.data.Append[0].UID), UIDValidity: uint32(c.data.Append[0].UIDVal)}, nil
}

func copyData(c *Case) *imap.CopyData {
	if len(c.data.Copy.Cd) == 0 {
		return nil
	}
	d := c.data.Copy.Cd[0]
	return &imap.CopyData{UIDValidity: uint32(d.UIDVal), SourceUIDs: toUIDSet(d.Src), DestUIDs: toUIDSet(d.Dst)}
}

func (s *stub) Copy(numSet imap.NumSet, dest string) (*imap.CopyData, error) {
	c := s.cs("copy")
	if c == nil {
		return nil, nil
	}
	return copyData(c), nil
}

func (s *stub) Move(w *imapserver.MoveWriter, numSet imap.NumSet, dest string) error {
	c := s.cs("copy")
	if c == nil {
		return nil
	}
	if err := w.WriteCopyData(copyData(c)); err != nil {
		s.fail("WriteCopyData: %v", err)
		return err
	}
	for _, n := range c.data.Copy.Xp {
		if err := w.WriteExpunge(uint32(n)); err != nil {
			s.fail("WriteExpunge: %v", err)
			return err
		}
	}
	return nil
}

func (s *stub) Expunge(w *imapserver.ExpungeWriter, uids *imap.UIDSet) error {
	c := s.cs("expunge")
	if c == nil {
		return nil
	}
	for _, n := range c.data.Expunge {
		if err := w.WriteExpunge(uint32(n)); err != nil {
			s.fail("WriteExpunge: %v", err)
			return err
		}
	}
	return nil
}

// Unauthenticate makes the stub a SessionUnauthenticate (the server insists when the cap is listed).
func (s *stub) Unauthenticate() error { return nil }

func (s *stub) Namespace() (*imap.NamespaceData, error) {
	c := s.cs("ns")
	if c == nil {
		return &imap.NamespaceData{}, nil
	}
	d := c.data.Ns
	return &imap.NamespaceData{Personal: toNs(d.Personal), Other: toNs(d.Other), Shared: toNs(d.Shared)}, nil
}

// ---- servers and connections ----

type srvT struct {
	srv *imapserver.Server
	ln  *vh.Listener
	reg *vh.Registry
	log *vh.LogBuf
}

var allCaps = []imap.Cap{imap.CapIMAP4rev1, imap.CapIMAP4rev2, imap.CapNamespace, imap.CapUIDPlus, imap.CapESearch,
	imap.CapSearchRes, imap.CapListExtended, imap.CapListStatus, imap.CapMove, imap.CapStatusSize, imap.CapBinary,
	imap.CapCreateSpecialUse, imap.CapLiteralPlus, imap.CapUnauthenticate}

func newServer(caps []string) *srvT {
	s := &srvT{reg: &vh.Registry{}, ln: vh.NewListener(), log: vh.NewLogBuf()}
	set := imap.CapSet{}
	for _, c := range caps {
		set[imap.Cap(c)] = struct{}{}
	}
	s.srv = imapserver.New(&imapserver.Options{
		Caps:         set,
		InsecureAuth: true,
		Logger:       s.log,
		NewSession: func(c *imapserver.Conn) (imapserver.Session, *imapserver.GreetingData, error) {
			return s.reg.Get(c).(*stub), &imapserver.GreetingData{}, nil
		},
	})
	go s.srv.Serve(s.ln)
	return s
}

var (
	mainOnce sync.Once
	mainSrv  *srvT
)

func mainServer() *srvT {
	mainOnce.Do(func() {
		l := []string{}
		for _, c := range allCaps {
			l = append(l, string(c))
		}
		mainSrv = newServer(l)
	})
	return mainSrv
}

type peer struct {
	srv    *srvT
	conn   *vh.Conn
	sc     *vh.Conn
	cl     *imapclient.Client
	stub   *stub
	mu     sync.Mutex
	unilat []uint32 // EXPUNGE delivered through the unilateral data handler
}

func dial(s *srvT, rev2, sel bool) (*peer, error) {
	p := &peer{srv: s, stub: &stub{}}
	c, sc, err := s.ln.Dial2(func(server *vh.Conn) { s.reg.Put(server, p.stub) })
	if err != nil {
		return nil, err
	}
	p.conn, p.sc = c, sc
	p.cl = imapclient.New(c, &imapclient.Options{UnilateralDataHandler: &imapclient.UnilateralDataHandler{
		Expunge: func(seqNum uint32) {
			p.mu.Lock()
			p.unilat = append(p.unilat, seqNum)
			p.mu.Unlock()
		},
	}})
	if err := p.cl.WaitGreeting(); err != nil {
		return nil, fmt.Errorf("greeting: %v", err)
	}
	if err := p.cl.Login("u", "p").Wait(); err != nil {
		return nil, fmt.Errorf("login: %v", err)
	}
	if rev2 {
		if _, err := p.cl.Enable(imap.CapIMAP4rev2).Wait(); err != nil {
			return nil, fmt.Errorf("enable: %v", err)
		}
	}
	if sel {
		if _, err := p.cl.Select("INBOX", nil).Wait(); err != nil {
			return nil, fmt.Errorf("select: %v", err)
		}
	}
	// let the client's own CAPABILITY refresh finish before the first case
	p.cl.Caps()
	return p, nil
}

func (p *peer) close() {
	p.cl.Close()
	p.conn.Close()
	p.srv.reg.Drop(p.sc)
}

// outcome of one case
type outcome struct {
	Fail string // the exchange failed (error of Wait/Collect/Close, writer error, hang)
	Got  *Data
	Hang bool
}

type pool struct{ peers map[bool]*peer }

func (pl *pool) get(rev2 bool) (*peer, error) {
	if p := pl.peers[rev2]; p != nil {
		return p, nil
	}
	p, err := dial(mainServer(), rev2, true)
	if err != nil {
		return nil, err
	}
	pl.peers[rev2] = p
	return p, nil
}

func (pl *pool) drop(rev2 bool) {
	if p := pl.peers[rev2]; p != nil {
		p.close()
		delete(pl.peers, rev2)
	}
}

func (pl *pool) closeAll() {
	for k := range pl.peers {
		pl.drop(k)
	}
}

const caseTimeout = 20 * time.Second

// runCase executes one case; an infrastructure problem is returned as error.
func (pl *pool) runCase(c *Case) (*outcome, error) {
	if c.K == "caps" {
		return runCaps(c)
	}
	p, err := pl.get(c.Rev2)
	if err != nil {
		return nil, fmt.Errorf("cannot set up a connection: %v", err)
	}
	p.stub.err.Store(nil)
	p.stub.cur.Store(c)
	p.mu.Lock()
	p.unilat = nil
	p.mu.Unlock()
	ch := make(chan *outcome, 1)
	go func() {
		defer func() {
			if v := recover(); v != nil {
				ch <- &outcome{Fail: fmt.Sprintf("client API panicked: %v", v)}
			}
		}()
		ch <- p.exchange(c)
	}()
	var o *outcome
	select {
	case o = <-ch:
	case <-time.After(caseTimeout):
		o = &outcome{Fail: "no completion within the time limit", Hang: true}
	}
	p.stub.cur.Store(nil)
	if e := p.stub.err.Load(); e != nil && o.Fail == "" {
		o.Fail = "server writer: " + *e
	}
	if o.Fail != "" {
		// the connection may be dead or out of step: never reuse it
		if lines := p.srv.log.Snapshot(); len(lines) > 0 && !o.Hang {
			last := lines[len(lines)-1]
			if strings.Contains(last, "panic") {
				o.Fail += " | server log: " + firstLine(last)
			}
		}
		pl.drop(c.Rev2)
	}
	return o, nil
}

func firstLine(s string) string {
	if i := strings.IndexByte(s, '\n'); i >= 0 {
		s = s[:i]
	}
	if len(s) > 200 {
		s = s[:200]
	}
	return s
}

func seqSetOf(ms []Msg) imap.SeqSet {
	var s imap.SeqSet
	for _, m := range ms {
		s.AddNum(uint32(m.Seq))
	}
	return s
}

func uidOf(m *Msg) imap.UID {
	for _, it := range m.Items {
		if it.T == "uid" {
			return imap.UID(it.UID)
		}
	}
	return 0
}

func fetchOptions(c *Case) *imap.FetchOptions {
	o := &imap.FetchOptions{}
	switch c.Req.Bs {
	case "BODY":
		o.BodyStructure = &imap.FetchItemBodyStructure{}
	case "BODYSTRUCTURE":
		o.BodyStructure = &imap.FetchItemBodyStructure{Extended: true}
	}
	if len(c.data.Fetch) == 0 {
		o.Flags = true
		return o
	}
	// the request asks for what the backend has for the first message
	for i := range c.data.Fetch[0].Items {
		it := &c.data.Fetch[0].Items[i]
		switch it.T {
		case "flags":
			o.Flags = true
		case "date":
			o.InternalDate = true
		case "size":
			o.RFC822Size = true
		case "uid":
			o.UID = true
		case "env":
			o.Envelope = true
		case "sec":
			o.BodySection = append(o.BodySection, toSec(it.Sec))
		case "bin":
			o.BinarySection = append(o.BinarySection, &imap.FetchItemBinarySection{Part: toInts(it.Part),
				Partial: toPartial(it.Bpartial), Peek: it.Peek})
		case "binsz":
			o.BinarySectionSize = append(o.BinarySectionSize, &imap.FetchItemBinarySectionSize{Part: toInts(it.Part)})
		}
	}
	if c.Req.Rev {
		for i, j := 0, len(o.BodySection)-1; i < j; i, j = i+1, j-1 {
			o.BodySection[i], o.BodySection[j] = o.BodySection[j], o.BodySection[i]
		}
		for i, j := 0, len(o.BinarySection)-1; i < j; i, j = i+1, j-1 {
			o.BinarySection[i], o.BinarySection[j] = o.BinarySection[j], o.BinarySection[i]
		}
	}
	if !o.Flags && !o.InternalDate && !o.RFC822Size && !o.UID && !o.Envelope && o.BodyStructure == nil &&
		len(o.BodySection)+len(o.BinarySection)+len(o.BinarySectionSize) == 0 {
		o.Flags = true // "FETCH 1 ()" is not a command
	}
	return o
}

// (reference, pattern) pairs a caller may ask with; the stub backend answers with the case's data whatever was asked
var lpTable = [][2]string{{"", "*"}, {"", "%"}, {"Work", "%"}, {"Work/2024", "Q1"}, {"", "INBOX"}}

func (p *peer) exchange(c *Case) *outcome {
	cl := p.cl
	got := &Data{}
	fail := func(err error) *outcome { return &outcome{Fail: err.Error(), Got: got} }
	switch c.K {
	case "list":
		var opts *imap.ListOptions
		if len(c.Req.St) > 0 {
			opts = &imap.ListOptions{ReturnStatus: statusOptions(c.Req.St[0])}
		}
		rp := lpTable[c.Req.Lp%len(lpTable)]
		l, err := cl.List(rp[0], rp[1], opts).Collect()
		got.List = []ListData{}
		for _, ld := range l {
			got.List = append(got.List, fromList(ld))
		}
		if err != nil {
			return fail(err)
		}
	case "status":
		sd, err := cl.Status(string(c.Req.Mbox.S), statusOptions(c.Req.Sitems)).Wait()
		if err != nil {
			return fail(err)
		}
		s := fromStatus(sd)
		got.Status = &s
	case "select":
		sd, err := cl.Select(string(c.Req.Mbox.S), nil).Wait()
		if err != nil {
			return fail(err)
		}
		s := &SelectData{Flags: fromFlags(sd.Flags), PFlags: fromFlags(sd.PermanentFlags), Num: Num(sd.NumMessages),
			UIDNext: Num(sd.UIDNext), UIDVal: Num(sd.UIDValidity)}
		if sd.List != nil {
			s.List = []ListData{fromList(sd.List)}
		}
		got.Select = s
	case "fetch":
		var numSet imap.NumSet
		if c.Req.UID {
			var us imap.UIDSet
			for i := range c.data.Fetch {
				us.AddNum(uidOf(&c.data.Fetch[i]))
			}
			numSet = us
		} else if len(c.data.Fetch) == 0 {
			numSet = imap.SeqSetNum(1)
		} else {
			numSet = seqSetOf(c.data.Fetch)
		}
		cmd := cl.Fetch(numSet, fetchOptions(c))
		got.Fetch = []Msg{}
		var rdErr error
		for {
			m := cmd.Next()
			if m == nil {
				break
			}
			msg := Msg{Seq: Num(m.SeqNum), Items: []Item{}}
			for {
				item := m.Next()
				if item == nil {
					break
				}
				it, err := fromFetchItem(item, func(r imap.LiteralReader) ([]byte, error) { return io.ReadAll(r) })
				if err != nil && rdErr == nil {
					rdErr = fmt.Errorf("reading a literal: %v", err)
				}
				if it.nilLit && rdErr == nil {
					rdErr = fmt.Errorf("%s item delivered without a literal reader", it.T)
				}
				msg.Items = append(msg.Items, it)
			}
			got.Fetch = append(got.Fetch, msg)
		}
		if err := cmd.Close(); err != nil {
			return fail(err)
		}
		if rdErr != nil {
			return fail(rdErr)
		}
	case "search":
		opts := &imap.SearchOptions{}
		for _, r := range c.Req.Ret {
			switch r {
			case "MIN":
				opts.ReturnMin = true
			case "MAX":
				opts.ReturnMax = true
			case "ALL":
				opts.ReturnAll = true
			case "COUNT":
				opts.ReturnCount = true
			}
		}
		var cmd *imapclient.SearchCommand
		if c.Req.UID {
			cmd = cl.UIDSearch(&imap.SearchCriteria{}, opts)
		} else {
			cmd = cl.Search(&imap.SearchCriteria{}, opts)
		}
		sd, err := cmd.Wait()
		if err != nil {
			return fail(err)
		}
		all, k := fromNumSet(sd.All)
		got.Search = &SearchData{All: all, AllK: k, IsUID: sd.UID, Min: Num(sd.Min), Max: Num(sd.Max), Count: Num(sd.Count)}
	case "append":
		n := int(c.Req.N)
		cmd := cl.Append("INBOX", int64(n), nil)
		if _, err := cmd.Write(genPayload("mix", n)); err != nil {
			return fail(fmt.Errorf("append write: %v", err))
		}
		if err := cmd.Close(); err != nil {
			return fail(fmt.Errorf("append close: %v", err))
		}
		ad, err := cmd.Wait()
		if err != nil {
			return fail(err)
		}
		got.Append = []AppendData{{UID: Num(ad.UID), UIDVal: Num(ad.UIDValidity)}}
	case "copy":
		var numSet imap.NumSet = imap.SeqSetNum(1, 2, 3)
		if c.Req.UID {
			numSet = imap.UIDSetNum(1, 2, 3)
		}
		cd := &CopyData{Xp: []Num{}}
		if c.Req.Move {
			md, err := cl.Move(numSet, "dest").Wait()
			if err != nil {
				return fail(err)
			}
			src, _ := fromNumSet(md.SourceUIDs)
			dst, _ := fromNumSet(md.DestUIDs)
			cd.Cd = []CopyUID{{UIDVal: Num(md.UIDValidity), Src: src, Dst: dst}}
			p.mu.Lock()
			for _, n := range p.unilat {
				cd.Xp = append(cd.Xp, Num(n))
			}
			p.mu.Unlock()
		} else {
			d, err := cl.Copy(numSet, "dest").Wait()
			if err != nil {
				return fail(err)
			}
			src, _ := fromNumSet(d.SourceUIDs)
			dst, _ := fromNumSet(d.DestUIDs)
			cd.Cd = []CopyUID{{UIDVal: Num(d.UIDValidity), Src: src, Dst: dst}}
		}
		got.Copy = cd
	case "expunge":
		var cmd *imapclient.ExpungeCommand
		if c.Req.UID {
			cmd = cl.UIDExpunge(imap.UIDSetNum(1, 2, 3))
		} else {
			cmd = cl.Expunge()
		}
		l, err := cmd.Collect()
		got.Expunge = []Num{}
		for _, n := range l {
			got.Expunge = append(got.Expunge, Num(n))
		}
		if err != nil {
			return fail(err)
		}
	case "ns":
		nd, err := cl.Namespace().Wait()
		if err != nil {
			return fail(err)
		}
		got.Ns = &NsData{Personal: fromNs(nd.Personal), Other: fromNs(nd.Other), Shared: fromNs(nd.Shared)}
	default:
		return &outcome{Fail: "unknown kind " + c.K}
	}
	return &outcome{Got: got}
}

// runCaps: the capability set is a server option, so the case gets its own server.
func runCaps(c *Case) (*outcome, error) {
	s := newServer(c.data.Caps)
	defer s.srv.Close()
	ch := make(chan *outcome, 1)
	var infra error
	go func() {
		p, err := dial(s, false, false)
		if err != nil {
			ch <- &outcome{Fail: err.Error()}
			return
		}
		defer p.close()
		caps, err := p.cl.Capability().Wait()
		if err != nil {
			ch <- &outcome{Fail: err.Error()}
			return
		}
		l := []string{}
		for k := range caps {
			l = append(l, string(k))
		}
		sort.Strings(l)
		ch <- &outcome{Got: &Data{Caps: l}}
	}()
	select {
	case o := <-ch:
		return o, infra
	case <-time.After(caseTimeout):
		return &outcome{Fail: "no completion within the time limit", Hang: true}, nil
	}
}
