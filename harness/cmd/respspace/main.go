// Command respspace is the conformance harness of property C03 (backend data
// reach the client caller intact; spec/RespSpace.tla).
//
//	respspace replay <tlc.out> [-workers N]      spec -> impl: run every T line, compare with exp
//	respspace one <case.json>                    re-run one case (replay of a violation)
//	respspace random <trace.ndjson> -seed S -n N impl -> spec: random deep structures, record supplied/delivered
//	respspace classify <bad.json> -seed S -n N   re-run the recorded cases TLC rejected, name what differs
package main

import (
	"encoding/json"
	"flag"
	"fmt"
	"os"
	"regexp"
	"sort"
	"strings"
	"sync"

	"verif/harness/vh"
)

var out = vh.NewOut()

// verdict of one case in the spec -> impl direction
type verdict struct {
	sig    string
	detail string
	infra  string
}

var reDigits = regexp.MustCompile(`[0-9]+`)

func errClass(s string) string {
	s = firstLine(s)
	s = reDigits.ReplaceAllString(s, "N")
	s = strings.ReplaceAll(s, " ", "_")
	if len(s) > 110 {
		s = s[:110]
	}
	return s
}

var (
	reKids  = regexp.MustCompile(`(/kids\[\])+`)
	reAddr  = regexp.MustCompile(`/(from|sender|replyto|to|cc|bcc)\[\]\[\]`)
	reParam = regexp.MustCompile(`/(params|mparams|dparams)\[\]\[\]`)
	reDrop  = regexp.MustCompile(`/(kids\*|mext\[\]|ext\[\]|disp\[\]|msg\[\]|mbs)`)
)

// pathClass turns the path of a difference into a stable class: positions in lists and the
// nesting of body structures do not matter, the field does.
func pathClass(p string) string {
	p = strings.TrimPrefix(p, "[]/items[]")
	p = strings.TrimPrefix(p, "[]")
	p = reKids.ReplaceAllString(p, "/kids*")
	p = reAddr.ReplaceAllString(p, "/ADDR")
	p = reParam.ReplaceAllString(p, "/PARAM")
	p = reDrop.ReplaceAllString(p, "")
	p = strings.ReplaceAll(p, "/menv[]", "/env")
	return p
}

// leafPart adds the two leaves to a signature when they are scalars of the catalogue.
func leafPart(l, r string) string {
	comp := func(s string) bool {
		return strings.HasPrefix(s, "{") || strings.HasPrefix(s, "[") || strings.Contains(s, "#")
	}
	if comp(l) || comp(r) || l == "-" && r == "-" {
		return ""
	}
	return strings.ReplaceAll("|exp="+l+"|got="+r, " ", "_")
}

// shape names what a case exercises (part of the signature).
func shape(c *Case) string {
	switch c.K {
	case "fetch":
		set := map[string]bool{}
		for _, m := range c.data.Fetch {
			for _, it := range m.Items {
				switch it.T {
				case "env", "bs", "sec", "bin", "binsz":
					set[it.T] = true
				}
			}
		}
		l := []string{}
		for k := range set {
			l = append(l, k)
		}
		sort.Strings(l)
		s := "fetch[" + strings.Join(l, ",") + "]"
		if c.Req.UID {
			s = "uid-" + s
		}
		if c.Req.Bs != "" {
			s += "/" + c.Req.Bs
		}
		return s
	case "search":
		s := "search"
		if c.Req.UID {
			s = "uid-search"
		}
		if c.Rev2 || len(c.Req.Ret) > 0 {
			return s + "/esearch"
		}
		return s + "/search"
	case "copy":
		s := "copy"
		if c.Req.Move {
			s = "move"
		}
		if c.Req.UID {
			s = "uid-" + s
		}
		return s
	case "list":
		if len(c.Req.St) > 0 {
			return "list-status"
		}
	}
	return c.K
}

func caseJSON(c *Case) map[string]interface{} {
	d, _ := generic(c.data.value(c.K))
	m := map[string]interface{}{"k": c.K, "rev2": c.Rev2, "req": reqJSON(c.K, &c.Req), "data": d}
	if len(c.Exp) > 0 {
		var e interface{}
		json.Unmarshal(c.Exp, &e)
		m["exp"] = e
	}
	return m
}

// judge runs a catalogue case and compares the delivered data with exp.
func judge(pl *pool, c *Case) (*verdict, bool) {
	var expG interface{}
	if err := json.Unmarshal(c.Exp, &expG); err != nil {
		return &verdict{infra: "bad exp: " + err.Error()}, false
	}
	expG = sortSets(c.K, fixNil(reparse(expG)), true)
	// self-check of the Norm port on the supplied side
	own, err := canonical(c.K, c.Rev2, &c.Req, c.data)
	if err != nil {
		return &verdict{infra: "cannot render the supplied data: " + err.Error()}, false
	}
	if p, l, r := diffPath(expG, own, ""); p != "" {
		return &verdict{infra: fmt.Sprintf("harness Norm port differs from TLC's exp at %s: %s vs %s (case %s)", p, l, r, jstr(caseJSON(c)))}, false
	}
	o, err := pl.runCase(c)
	if err != nil {
		return &verdict{infra: err.Error()}, false
	}
	if o.Hang {
		// once more on a fresh connection before calling it a hang
		o2, err := pl.runCase(c)
		if err != nil {
			return &verdict{infra: err.Error()}, false
		}
		if !o2.Hang {
			o = o2
		}
	}
	nontrivial := nonTrivial(c)
	if o.Fail != "" {
		return &verdict{sig: culprit(pl, c, o.Fail) + ":fail:" + errClass(o.Fail),
			detail: fmt.Sprintf("the exchange failed for data inside the writers' contract: %s; supplied %s", o.Fail, short200(jstr(caseJSON(c)["data"])))}, nontrivial
	}
	gotG, err := canonical(c.K, c.Rev2, &c.Req, o.Got)
	if err != nil {
		return &verdict{sig: shape(c) + ":unrenderable", detail: "delivered data cannot be rendered: " + err.Error()}, nontrivial
	}
	if p, l, r := diffPath(expG, gotG, ""); p != "" {
		raw, _ := generic(o.Got.value(c.K))
		if strings.HasSuffix(p, "#len") {
			l, r = "-", "-" // the lengths themselves are not part of the class
		}
		sig := c.K + ":" + pathClass(p) + leafPart(l, r)
		if c.K == "list" && strings.Contains(p, "/status[]/") {
			sig = "status:" + pathClass(p[strings.Index(p, "/status[]/")+9:]) + leafPart(l, r)
		}
		switch {
		case c.K == "status" && o.Got.Status != nil && o.Got.Status.Mbox.S == "" && c.data.Status.Mbox.S != "":
			sig = "status:nothing-delivered/request-name=" + idOf(string(c.Req.Mbox.S))
			if c.Req.Mbox.L == "inbox" {
				sig = "status:nothing-delivered/request-name=inbox-not-in-upper-case"
			}
		case c.K == "select" && strings.HasPrefix(p, "/list") && len(o.Got.Select.List) == 0 && len(c.data.Select.List) > 0:
			rel := "list-name-equals-request-name"
			if c.data.Select.List[0].Mbox.S != c.Req.Mbox.S {
				rel = "list-name-differs-from-request-name"
			}
			sig = "select:list-not-delivered:" + rel
		}
		return &verdict{sig: sig,
			detail: fmt.Sprintf("delivered data differ from Norm(supplied) at %s: expected %s, delivered %s; request %s rev2=%v; supplied %s; delivered (raw) %s",
				p, l, r, jstr(reqJSON(c.K, &c.Req)), c.Rev2, short200(jstr(caseJSON(c)["data"])), short200(jstr(raw)))}, nontrivial
	}
	return nil, nontrivial
}

// culprit narrows a failing FETCH exchange to one item: each item of the first message is
// supplied on its own; the first one that fails the same way names the signature.
func culprit(pl *pool, c *Case, failure string) string {
	if c.K != "fetch" || len(c.data.Fetch) == 0 || len(c.data.Fetch[0].Items) < 2 {
		return shape(c)
	}
	for _, uid := range []bool{false, true} {
		if uid && !c.Req.UID {
			break
		}
		for _, it := range c.data.Fetch[0].Items {
			if it.T == "uid" && uid {
				continue
			}
			items := []Item{it}
			if uid {
				items = []Item{{T: "uid", UID: 7}, it}
			}
			one := &Case{K: "fetch", Rev2: c.Rev2, Req: c.Req, data: &Data{Fetch: []Msg{{Seq: 1, Items: items}}}}
			one.Req.UID = uid
			if it.T != "bs" {
				one.Req.Bs = ""
			}
			o, err := pl.runCase(one)
			if err == nil && o.Fail != "" && errClass(o.Fail) == errClass(failure) {
				return shape(one)
			}
		}
	}
	return shape(c)
}

func short200(s string) string {
	if len(s) > 900 {
		return s[:900] + "..."
	}
	return s
}

// reparse converts json.Unmarshal's float64 numbers to json.Number-like ints
func reparse(g interface{}) interface{} {
	switch x := g.(type) {
	case map[string]interface{}:
		for k, v := range x {
			x[k] = reparse(v)
		}
	case []interface{}:
		for i, v := range x {
			x[i] = reparse(v)
		}
	case float64:
		return json.Number(fmt.Sprintf("%d", int64(x)))
	}
	return g
}

// nonTrivial: Norm changes the supplied data, or a literal / nested structure is involved.
func nonTrivial(c *Case) bool {
	raw, err1 := generic(c.data.value(c.K))
	own, err2 := canonical(c.K, c.Rev2, &c.Req, c.data)
	if err1 != nil || err2 != nil {
		return true
	}
	if p, _, _ := diffPath(sortSets(c.K, raw, true), own, ""); p != "" {
		return true
	}
	if c.K == "fetch" {
		for _, m := range c.data.Fetch {
			for _, it := range m.Items {
				if it.T == "sec" || it.T == "bin" || it.T == "bs" || it.T == "env" {
					return true
				}
			}
		}
	}
	return false
}

func cmdReplay(path string, workers int) {
	var cases []*Case
	err := vh.ReadTLines(path, func(b []byte) error {
		c, err := parseCase(b)
		if err != nil {
			return fmt.Errorf("%v in %.300s", err, b)
		}
		cases = append(cases, c)
		return nil
	})
	if err != nil {
		out.Summary(map[string]interface{}{"infra_error": err.Error()})
		return
	}
	if len(badF) > 0 {
		out.Summary(map[string]interface{}{"infra_error": "catalogue F values whose l is not lower(s): " + strings.Join(badF[:1], " ")})
		return
	}
	var (
		mu        sync.Mutex
		nontriv   int
		perKind   = map[string]int{}
		mism      int
		infra     string
		samples   []interface{}
		sigCount  = map[string]int{}
		wg        sync.WaitGroup
		ch        = make(chan *Case)
		literals  int
		litOctets int64
	)
	for w := 0; w < workers; w++ {
		wg.Add(1)
		go func() {
			defer wg.Done()
			pl := &pool{peers: map[bool]*peer{}}
			defer pl.closeAll()
			for c := range ch {
				v, nt := judge(pl, c)
				mu.Lock()
				perKind[c.K]++
				if nt {
					nontriv++
				}
				if c.K == "fetch" {
					for _, m := range c.data.Fetch {
						for _, it := range m.Items {
							if it.T == "sec" || it.T == "bin" {
								literals++
								litOctets += int64(it.N)
							}
						}
					}
				}
				if v != nil {
					if v.infra != "" {
						if infra == "" {
							infra = v.infra
						}
					} else {
						mism++
						sigCount[v.sig]++
						if sigCount[v.sig] <= 2 {
							out.Mismatch(v.sig, v.detail, caseJSON(c))
						}
					}
				} else if nt && len(samples) < 3 && (c.K == "fetch" || c.K == "list") && len(c.Data) < 700 {
					samples = append(samples, caseJSON(c))
				}
				mu.Unlock()
			}
		}()
	}
	for _, c := range cases {
		ch <- c
	}
	close(ch)
	wg.Wait()
	s := map[string]interface{}{"behaviours": len(cases), "steps": len(cases), "nontrivial": nontriv, "per_kind": perKind,
		"mismatches": mism, "distinct_sigs": len(sigCount), "samples": samples, "literals": literals, "literal_octets": litOctets}
	if infra != "" {
		s["infra_error"] = infra
	}
	out.Summary(s)
}

func cmdOne(path string) {
	b, err := os.ReadFile(path)
	if err != nil {
		out.Summary(map[string]interface{}{"infra_error": err.Error()})
		return
	}
	c, err := parseCase(b)
	if err != nil {
		out.Summary(map[string]interface{}{"infra_error": err.Error()})
		return
	}
	pl := &pool{peers: map[bool]*peer{}}
	defer pl.closeAll()
	if len(c.Exp) == 0 {
		// a case without TLC's exp (hand-written probe): the Norm port stands in, for display only
		g, err := canonical(c.K, c.Rev2, &c.Req, c.data)
		if err != nil {
			out.Summary(map[string]interface{}{"infra_error": err.Error()})
			return
		}
		c.Exp, _ = json.Marshal(g)
	}
	o, _ := pl.runCase(c)
	if o != nil {
		var raw interface{}
		if o.Got != nil {
			raw, _ = generic(o.Got.value(c.K))
		}
		out.Emit(map[string]interface{}{"kind": "observed", "fail": o.Fail, "delivered": raw})
	}
	v, _ := judge(pl, c)
	s := map[string]interface{}{"behaviours": 1, "steps": 1, "mismatches": 0}
	if v != nil {
		if v.infra != "" {
			s["infra_error"] = v.infra
		} else {
			out.Mismatch(v.sig, v.detail, caseJSON(c))
			s["mismatches"] = 1
		}
	}
	out.Summary(s)
}

func main() {
	defer out.Flush()
	if len(os.Args) < 3 {
		fmt.Fprintln(os.Stderr, "usage: respspace replay|one|random|classify <path> [flags]")
		os.Exit(2)
	}
	mode, path := os.Args[1], os.Args[2]
	fs := flag.NewFlagSet(mode, flag.ExitOnError)
	workers := fs.Int("workers", 8, "parallel connections")
	seed := fs.Int64("seed", 1, "seed")
	n := fs.Int("n", 1000, "number of random cases")
	fs.Parse(os.Args[3:])
	switch mode {
	case "replay":
		cmdReplay(path, *workers)
	case "one":
		cmdOne(path)
	case "random":
		cmdRandom(path, *seed, *n, *workers)
	case "classify":
		cmdClassify(path, *seed, *n)
	default:
		fmt.Fprintln(os.Stderr, "unknown mode", mode)
		os.Exit(2)
	}
}
