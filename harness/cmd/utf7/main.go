//go:build c16shim

// Command utf7 binds spec/Utf7.tla to go-imap's internal/utf7 (property C16).
// internal/utf7 is reached through package verifutf7, which the check adds to
// the go-imap module with `go build -overlay` (see testdata/verifutf7/shim.go;
// the build tag keeps this command out of builds that have no overlay).
//
//	utf7 replay <tlc-output>    every TLC-generated vector: one-shot and under every buffer schedule
//	utf7 one <vector.json>      one vector (replay files)
//	utf7 random <out.ndjson>    random inputs beyond TLC's bounds; REAL results recorded for Utf7Trace
package main

import (
	"bytes"
	"encoding/json"
	"flag"
	"fmt"
	"math/rand"
	"os"
	"strings"
	"sync"
	"sync/atomic"
	"time"
	"unicode/utf8"

	"github.com/emersion/go-imap/v2/verifutf7"

	"verif/harness/vh"
)

// vec is one line printed by Utf7Gen.
type vec struct {
	K   string `json:"k"`             // "enc" | "dec"
	S   []int  `json:"s,omitempty"`   // enc: code points
	B   []int  `json:"b,omitempty"`   // dec: bytes
	V   string `json:"v,omitempty"`   // dec: accept | reject | unspec
	Why string `json:"why,omitempty"` // dec: malformed form
	Out []int  `json:"out"`           // enc: predicted bytes; dec accept: predicted code points
}

type sched struct {
	D    int  `json:"d"`    // initial dst size
	C    int  `json:"c"`    // source bytes added per feed, 0 = everything
	Late bool `json:"late"` // EOF signalled by a separate call after the last bytes
}

func (s sched) String() string { return fmt.Sprintf("dst=%d chunk=%d lateEOF=%v", s.D, s.C, s.Late) }

var schedules []sched

func init() {
	for _, d := range []int{1, 2, 3, 4, 8} {
		for _, c := range []int{1, 2, 3, 0} {
			for _, l := range []bool{false, true} {
				schedules = append(schedules, sched{d, c, l})
			}
		}
	}
}

func cpsToString(cps []int) string {
	var sb strings.Builder
	for _, c := range cps {
		sb.WriteRune(rune(c))
	}
	return sb.String()
}

func intsToBytes(v []int) []byte {
	b := make([]byte, len(v))
	for i, x := range v {
		b[i] = byte(x)
	}
	return b
}

func bytesToInts(b []byte) []int {
	v := make([]int, len(b))
	for i, x := range b {
		v[i] = int(x)
	}
	return v
}

func stringToCps(s string) []int {
	v := make([]int, 0, len(s))
	for _, r := range s {
		v = append(v, int(r))
	}
	return v
}

// ---- watchdog: a Transform call that does not return is an observation ----

type slot struct {
	seq   int64
	since int64
	what  atomic.Value
}

var slots [64]slot
var calls int64

func enter(w int, what func() string) {
	atomic.AddInt64(&slots[w].seq, 1)
	slots[w].what.Store(what)
	atomic.StoreInt64(&slots[w].since, time.Now().UnixNano())
}
func leave(w int) { atomic.StoreInt64(&slots[w].since, 0) }

func watchdog(out *vh.Out, limit time.Duration) {
	for {
		time.Sleep(500 * time.Millisecond)
		now := time.Now().UnixNano()
		for i := range slots {
			s := atomic.LoadInt64(&slots[i].since)
			if s != 0 && time.Duration(now-s) > limit {
				f, _ := slots[i].what.Load().(func() string)
				d := "?"
				if f != nil {
					d = f()
				}
				out.Mismatch("nonterminating/call", "a call into internal/utf7 did not return within "+limit.String()+": "+d, nil)
				out.Summary(map[string]interface{}{"behaviours": 0, "steps": 0, "nontrivial": 0, "hung": true})
				out.Flush()
				os.Exit(0)
			}
		}
	}
}

// ---- driving the real transformer ----

type result struct {
	St    string // ok | invalid | nonterminating | contract:<what> | panic:<msg>
	Out   []byte
	Calls int
	Other string // error text when the error was not one of the known classes
}

// drive runs one schedule against a fresh transformer.  dst is exactly the
// scheduled size (capacity too, so a write beyond it panics and is observed);
// it is doubled after a ShortDst that made no progress, as x/text does.
func drive(newT func() *verifutf7.T, input []byte, sc sched) (res result) {
	defer func() {
		if v := recover(); v != nil {
			res.St = fmt.Sprintf("panic:%v", v)
		}
	}()
	t := newT()
	rest := input
	var pending []byte
	atEOF := false
	capn := sc.D
	limit := 8*len(input) + 64
	feed := func() bool {
		if len(rest) > 0 {
			n := sc.C
			if n == 0 || n > len(rest) {
				n = len(rest)
			}
			pending = append(append([]byte(nil), pending...), rest[:n]...)
			rest = rest[n:]
			atEOF = len(rest) == 0 && !sc.Late
			return true
		}
		if !atEOF {
			atEOF = true
			return true
		}
		return false
	}
	feed()
	for {
		if res.Calls >= limit {
			res.St = "nonterminating"
			return
		}
		res.Calls++
		buf := make([]byte, capn)
		src := append([]byte(nil), pending...)
		nDst, nSrc, cls := t.Transform(buf[:capn:capn], src, atEOF)
		atomic.AddInt64(&calls, 1)
		if nDst < 0 || nDst > capn || nSrc < 0 || nSrc > len(src) {
			res.St = fmt.Sprintf("contract:counts-out-of-range nDst=%d/%d nSrc=%d/%d", nDst, capn, nSrc, len(src))
			return
		}
		if !bytes.Equal(src, pending) {
			res.St = "contract:src-modified"
			return
		}
		res.Out = append(res.Out, buf[:nDst]...)
		pending = pending[nSrc:]
		switch cls {
		case "nil":
			if len(pending) != 0 {
				res.St = "contract:nil-with-unconsumed-source"
				return
			}
			if atEOF {
				res.St = "ok"
				return
			}
			feed()
		case "shortsrc":
			if atEOF {
				res.St = "contract:shortsrc-at-eof"
				return
			}
			feed()
		case "shortdst":
			if nDst == 0 && nSrc == 0 {
				capn *= 2
				if capn > 16*len(input)+1024 {
					res.St = "nonterminating"
					return
				}
			}
		case "invalid":
			res.St = "invalid"
			return
		default:
			res.St = "invalid"
			res.Other = cls
			return
		}
	}
}

type oneshot struct {
	Out   string
	Err   error
	Panic string
}

func callOnce(f func(string) (string, error), in string) (r oneshot) {
	defer func() {
		if v := recover(); v != nil {
			r.Panic = fmt.Sprint(v)
		}
	}()
	r.Out, r.Err = f(in)
	atomic.AddInt64(&calls, 1)
	return
}

func stClass(st string) string {
	if i := strings.IndexByte(st, ':'); i >= 0 {
		if strings.HasPrefix(st, "contract:") {
			return strings.SplitN(st, " ", 2)[0]
		}
		return st[:i]
	}
	return st
}

type mism struct {
	sig, detail string
	sc          *sched
}

// check runs one vector against the real code and returns the disagreements
// (at most one per signature).
func check(w int, v *vec) []mism {
	var ms []mism
	seen := map[string]bool{}
	add := func(sig, detail string, sc *sched) {
		if !seen[sig] {
			seen[sig] = true
			ms = append(ms, mism{sig, detail, sc})
		}
	}
	switch v.K {
	case "enc":
		src := cpsToString(v.S)
		exp := intsToBytes(v.Out)
		enter(w, func() string { return fmt.Sprintf("EncodeString(%q)", src) })
		r := callOnce(verifutf7.EncodeString, src)
		leave(w)
		switch {
		case r.Panic != "":
			add("enc/oneshot/panic", fmt.Sprintf("Encode %q (code points %v) panicked: %s", src, v.S, r.Panic), nil)
		case r.Err != nil:
			add("enc/oneshot/error", fmt.Sprintf("Encode %q (code points %v) failed: %v", src, v.S, r.Err), nil)
		case r.Out != string(exp):
			add("enc/oneshot/differs", fmt.Sprintf("Encode %q (code points %v) = %q, spec predicts %q", src, v.S, r.Out, exp), nil)
		}
		if r.Panic == "" && r.Err == nil {
			enter(w, func() string { return fmt.Sprintf("DecodeString(%q)", r.Out) })
			b := callOnce(verifutf7.DecodeString, r.Out)
			leave(w)
			if b.Panic != "" || b.Err != nil || b.Out != src {
				add("roundtrip/oneshot", fmt.Sprintf("Decode(Encode(%q)) = Decode(%q) = %q err=%v panic=%q, want the original", src, r.Out, b.Out, b.Err, b.Panic), nil)
			}
		}
		// the same name through the real call sites: imapwire.Encoder.Mailbox writes it, the peer's string reader
		// sees the modified UTF-7 text, the peer's ExpectMailbox hands back the name (INBOX in any case is INBOX)
		if !strings.EqualFold(src, "INBOX") {
			t := callOnce(verifutf7.WireText, src)
			if t.Panic != "" || t.Err != nil || t.Out != string(exp) {
				add("wire/text", fmt.Sprintf("Encoder.Mailbox(%q) carries %q err=%v panic=%q, spec predicts the text %q", src, t.Out, t.Err, t.Panic, exp), nil)
			}
			b := callOnce(verifutf7.WireRoundTrip, src)
			if b.Panic != "" || b.Err != nil || b.Out != src {
				add("wire/roundtrip", fmt.Sprintf("ExpectMailbox(Encoder.Mailbox(%q)) = %q err=%v panic=%q, want the original", src, b.Out, b.Err, b.Panic), nil)
			}
		}
		for i := range schedules {
			sc := schedules[i]
			enter(w, func() string { return fmt.Sprintf("encoder.Transform on %q, %v", src, sc) })
			res := drive(verifutf7.NewEncoder, []byte(src), sc)
			leave(w)
			if res.St != "ok" {
				add("enc/stream/"+stClass(res.St), fmt.Sprintf("encoding %q (code points %v) with %v ended %s %s after %d calls (output so far %q), spec predicts %q", src, v.S, sc, res.St, res.Other, res.Calls, res.Out, exp), &sc)
			} else if !bytes.Equal(res.Out, exp) {
				add("enc/stream/differs", fmt.Sprintf("encoding %q (code points %v) with %v produced %q, spec predicts %q", src, v.S, sc, res.Out, exp), &sc)
			}
		}
	case "dec":
		in := intsToBytes(v.B)
		exp := cpsToString(v.Out)
		judge := func(how string, st string, other string, out []byte, sc *sched) {
			where := ""
			if sc != nil {
				where = " with " + sc.String()
			}
			if st != "ok" && st != "invalid" {
				add("dec/"+how+"/"+stClass(st), fmt.Sprintf("decoding %q%s ended %s (output so far %q); spec class %s/%s", in, where, st, out, v.V, v.Why), sc)
				return
			}
			if !utf8.Valid(out) {
				add("dec/"+how+"/invalid-utf8", fmt.Sprintf("decoding %q%s (%s) output %q, which is not valid UTF-8; spec class %s/%s", in, where, st, out, v.V, v.Why), sc)
			}
			switch v.V {
			case "accept":
				if st != "ok" {
					add("dec/"+how+"/accept-rejected", fmt.Sprintf("decoding %q%s was rejected %s; it is the canonical encoding of %q (code points %v)", in, where, other, exp, v.Out), sc)
				} else if string(out) != exp {
					add("dec/"+how+"/accept-wrong-output", fmt.Sprintf("decoding %q%s = %q, spec predicts %q (code points %v)", in, where, out, exp, v.Out), sc)
				}
			case "reject":
				if st == "ok" {
					add("dec/"+how+"/reject-accepted/"+v.Why, fmt.Sprintf("decoding %q%s was accepted as %q; malformed form %q must be rejected", in, where, out, v.Why), sc)
				}
			}
		}
		enter(w, func() string { return fmt.Sprintf("DecodeString(%q)", in) })
		r := callOnce(verifutf7.DecodeString, string(in))
		leave(w)
		if r.Panic != "" {
			add("dec/oneshot/panic", fmt.Sprintf("Decode %q panicked: %s", in, r.Panic), nil)
		} else {
			st, other := "ok", ""
			if r.Err != nil {
				st, other = "invalid", r.Err.Error()
			}
			judge("oneshot", st, other, []byte(r.Out), nil)
		}
		for i := range schedules {
			sc := schedules[i]
			enter(w, func() string { return fmt.Sprintf("decoder.Transform on %q, %v", in, sc) })
			res := drive(verifutf7.NewDecoder, in, sc)
			leave(w)
			judge("stream", res.St, res.Other, res.Out, &sc)
		}
	}
	return ms
}

func nontrivial(v *vec) bool {
	if v.K == "enc" {
		for _, c := range v.S {
			if c == '&' || c < 0x20 || c > 0x7e {
				return true
			}
		}
		return false
	}
	for _, c := range v.B {
		if c == '&' {
			return true
		}
	}
	return false
}

func replayOf(v *vec, sc *sched) interface{} {
	return map[string]interface{}{"vector": v, "schedule": sc}
}

func cmdReplay(path string, workers int) {
	out := vh.NewOut()
	defer out.Flush()
	go watchdog(out, 20*time.Second)
	jobs := make(chan *vec, 4096)
	var wg sync.WaitGroup
	var nVec, nNontriv, nMis, nEnc, nAcc, nRej, nUns int64
	var smu sync.Mutex
	samples := map[string]interface{}{}
	for i := 0; i < workers; i++ {
		wg.Add(1)
		go func(w int) {
			defer wg.Done()
			for v := range jobs {
				ms := check(w, v)
				atomic.AddInt64(&nVec, 1)
				nt := nontrivial(v)
				if nt {
					atomic.AddInt64(&nNontriv, 1)
				}
				key := v.K + "/" + v.V
				switch key {
				case "enc/":
					atomic.AddInt64(&nEnc, 1)
				case "dec/accept":
					atomic.AddInt64(&nAcc, 1)
				case "dec/reject":
					atomic.AddInt64(&nRej, 1)
					key += "/" + v.Why
				default:
					atomic.AddInt64(&nUns, 1)
				}
				for _, m := range ms {
					if atomic.AddInt64(&nMis, 1) <= 300 {
						out.Mismatch(m.sig, m.detail, replayOf(v, m.sc))
					}
				}
				if len(ms) == 0 && nt && len(v.S)+len(v.B) >= 3 {
					smu.Lock()
					if _, ok := samples[key]; !ok {
						samples[key] = sampleOf(v)
					}
					smu.Unlock()
				}
			}
		}(i)
	}
	err := vh.ReadTLines(path, func(p []byte) error {
		v := new(vec)
		if err := json.Unmarshal(p, v); err != nil {
			return err
		}
		jobs <- v
		return nil
	})
	close(jobs)
	wg.Wait()
	var sl []interface{}
	for _, k := range []string{"enc/", "dec/accept", "dec/reject/backtoback", "dec/reject/hidden", "dec/reject/surrogate", "dec/unspec"} {
		if s, ok := samples[k]; ok && len(sl) < 5 {
			sl = append(sl, s)
		}
	}
	sum := map[string]interface{}{"behaviours": nVec, "steps": atomic.LoadInt64(&calls), "nontrivial": nNontriv,
		"mismatches": nMis, "samples": sl, "enc": nEnc, "dec_accept": nAcc, "dec_reject": nRej, "dec_unspec": nUns,
		"schedules_per_vector": len(schedules)}
	if err != nil {
		sum["infra_error"] = err.Error()
	}
	out.Summary(sum)
}

func sampleOf(v *vec) interface{} {
	if v.K == "enc" {
		return map[string]interface{}{"encode": cpsToString(v.S), "real_and_predicted": string(intsToBytes(v.Out)), "schedules": len(schedules)}
	}
	m := map[string]interface{}{"decode": string(intsToBytes(v.B)), "spec": v.V + "/" + v.Why, "schedules": len(schedules)}
	if v.V == "accept" {
		m["real_and_predicted"] = cpsToString(v.Out)
	}
	return m
}

func cmdOne(path string) {
	out := vh.NewOut()
	defer out.Flush()
	go watchdog(out, 20*time.Second)
	b, err := os.ReadFile(path)
	if err != nil {
		fmt.Fprintln(os.Stderr, err)
		os.Exit(2)
	}
	var rp struct {
		Vector *vec `json:"vector"`
	}
	if err := json.Unmarshal(b, &rp); err != nil || rp.Vector == nil {
		fmt.Fprintln(os.Stderr, "bad replay file", err)
		os.Exit(2)
	}
	for _, m := range check(0, rp.Vector) {
		out.Mismatch(m.sig, m.detail, replayOf(rp.Vector, m.sc))
	}
	out.Summary(map[string]interface{}{"behaviours": 1, "steps": atomic.LoadInt64(&calls)})
}

// ---- random mode: inputs beyond TLC's bounds, real results recorded ----

type rec struct {
	K      string `json:"k"`
	S      []int  `json:"s"`      // enc: input code points
	B      []int  `json:"b"`      // dec: input bytes
	Ok     bool   `json:"ok"`     // one-shot call returned no error
	Panic  bool   `json:"panic"`  // some call panicked
	Out    []int  `json:"out"`    // enc: bytes produced; dec: code points produced (if valid UTF-8)
	Valid  bool   `json:"valid"`  // dec: every output (one-shot and streamed) is valid UTF-8
	BackOk bool   `json:"backok"` // enc: real Decode of the real encoding succeeded
	Back   []int  `json:"back"`   // enc: its code points
	Sched  sched  `json:"sched"`  // the random schedule of the streamed run
	SSt    string `json:"sst"`    // streamed run: ok | invalid | nonterminating | contract | panic
	SOut   []int  `json:"sout"`   // streamed output (bytes for enc, code points for dec)
}

var cpPools = [][]int{
	{0x00, 0x01, 0x09, 0x0a, 0x0d, 0x1f, 0x7f},
	{0x80, 0xa0, 0xe9, 0xff, 0x100, 0x3b1, 0x7ff},
	{0x800, 0x20ac, 0x3042, 0x65e5, 0xd7ff, 0xe000, 0xfffd, 0xffff, 0x0020 + 0x2000, 0x0041 + 0x4100},
	{0x10000, 0x1f600, 0x1f4a9, 0x2f800, 0x10ffff, 0x10fffe, 0x10020, 0xf0000},
}

func randCps(rng *rand.Rand, n int) []int {
	out := make([]int, 0, n)
	for len(out) < n {
		switch r := rng.Intn(100); {
		case r < 35:
			out = append(out, 0x20+rng.Intn(0x5f))
		case r < 43:
			out = append(out, '&')
		case r < 48:
			out = append(out, '-')
		case r < 55:
			p := cpPools[0]
			out = append(out, p[rng.Intn(len(p))])
		case r < 70:
			if rng.Intn(2) == 0 {
				out = append(out, 0x80+rng.Intn(0x800-0x80))
			} else {
				p := cpPools[1]
				out = append(out, p[rng.Intn(len(p))])
			}
		case r < 86:
			if rng.Intn(2) == 0 {
				c := 0x800 + rng.Intn(0x10000-0x800)
				if c >= 0xd800 && c <= 0xdfff {
					c = 0xfffd
				}
				out = append(out, c)
			} else {
				p := cpPools[2]
				out = append(out, p[rng.Intn(len(p))])
			}
		default:
			if rng.Intn(2) == 0 {
				out = append(out, 0x10000+rng.Intn(0x100000))
			} else {
				p := cpPools[3]
				out = append(out, p[rng.Intn(len(p))])
			}
		}
	}
	return out
}

const b64 = "ABCDEFGHIJKLMNOPQRSTUVWXYZabcdefghijklmnopqrstuvwxyz0123456789+,"

func randBytes(rng *rand.Rand, maxLen int) []byte {
	realEnc := func(n int) []byte {
		s, err := verifutf7.EncodeString(cpsToString(randCps(rng, n)))
		if err != nil {
			return []byte("a")
		}
		return []byte(s)
	}
	var b []byte
	switch rng.Intn(4) {
	case 0: // soup over a weighted alphabet
		n := rng.Intn(maxLen + 1)
		for i := 0; i < n; i++ {
			switch r := rng.Intn(100); {
			case r < 14:
				b = append(b, '&')
			case r < 28:
				b = append(b, '-')
			case r < 80:
				b = append(b, b64[rng.Intn(64)])
			case r < 84:
				b = append(b, '=')
			case r < 90:
				b = append(b, byte(0x20+rng.Intn(0x5f)))
			case r < 94:
				b = append(b, byte(rng.Intn(0x20)))
			default:
				b = append(b, byte(0x7f+rng.Intn(0x81)))
			}
		}
	case 1: // hand-made shift sequences: random UTF-16 units (surrogates, printable ASCII likely)
		n := 1 + rng.Intn(3)
		for i := 0; i < n && len(b) < maxLen-12; i++ {
			if rng.Intn(3) == 0 {
				b = append(b, byte(0x20+rng.Intn(0x5f)))
			}
			nb := 1 + rng.Intn(8)
			raw := make([]byte, nb)
			for j := range raw {
				switch rng.Intn(4) {
				case 0:
					raw[j] = 0
				case 1:
					raw[j] = byte(0xd8 + rng.Intn(8))
				case 2:
					raw[j] = byte(0x20 + rng.Intn(0x5f))
				default:
					raw[j] = byte(rng.Intn(256))
				}
			}
			b = append(b, '&')
			bits, nbits := 0, 0
			for _, x := range raw {
				bits = bits<<8 | int(x)
				nbits += 8
				for nbits >= 6 {
					b = append(b, b64[(bits>>(nbits-6))&63])
					nbits -= 6
				}
			}
			if nbits > 0 {
				pad := 0
				if rng.Intn(4) == 0 {
					pad = rng.Intn(1 << (6 - nbits))
				}
				b = append(b, b64[((bits<<(6-nbits))&63)|pad])
			}
			if rng.Intn(8) != 0 {
				b = append(b, '-')
			}
		}
	case 2: // a real encoding with one or two byte-level mutations
		b = realEnc(1 + rng.Intn(8))
		for m := 1 + rng.Intn(2); m > 0 && len(b) > 0; m-- {
			i := rng.Intn(len(b))
			switch rng.Intn(4) {
			case 0:
				b = append(b[:i], b[i+1:]...)
			case 1:
				b[i] = b64[rng.Intn(64)]
			case 2:
				b = append(b[:i], append([]byte{"&-=Aa/"[rng.Intn(6)]}, b[i:]...)...)
			default:
				b = b[:i]
			}
		}
	default: // two real encodings glued together (back-to-back shifts when both sides shift)
		b = append(realEnc(1+rng.Intn(4)), realEnc(1+rng.Intn(4))...)
	}
	if len(b) > maxLen {
		b = b[:maxLen]
	}
	return b
}

func randSched(rng *rand.Rand) sched {
	sc := sched{D: 1 + rng.Intn(16), C: rng.Intn(9), Late: rng.Intn(2) == 0}
	return sc
}

func cpsIfValid(b []byte) ([]int, bool) {
	if !utf8.Valid(b) {
		return []int{}, false
	}
	return stringToCps(string(b)), true
}

func stWord(st string) string { return stClass(st) }

func cmdRandom(path string, seed int64, n, maxLen, long, longLen int) {
	out := vh.NewOut()
	defer out.Flush()
	go watchdog(out, 20*time.Second)
	f, err := os.Create(path)
	if err != nil {
		fmt.Fprintln(os.Stderr, err)
		os.Exit(2)
	}
	defer f.Close()
	enc := json.NewEncoder(f)
	rng := rand.New(rand.NewSource(seed))
	nEnc, nDec := 0, 0
	for i := 0; i < n; i++ {
		sc := randSched(rng)
		if i%2 == 0 {
			cps := randCps(rng, rng.Intn(maxLen+1))
			src := cpsToString(cps)
			r := rec{K: "enc", S: cps, B: []int{}, Out: []int{}, Back: []int{}, SOut: []int{}, Sched: sc, Valid: true}
			enter(0, func() string { return fmt.Sprintf("random enc %q", src) })
			o := callOnce(verifutf7.EncodeString, src)
			r.Panic = o.Panic != ""
			r.Ok = o.Panic == "" && o.Err == nil
			if r.Ok {
				r.Out = bytesToInts([]byte(o.Out))
				b := callOnce(verifutf7.DecodeString, o.Out)
				r.Panic = r.Panic || b.Panic != ""
				r.BackOk = b.Panic == "" && b.Err == nil && utf8.ValidString(b.Out)
				if r.BackOk {
					r.Back = stringToCps(b.Out)
				}
			}
			res := drive(verifutf7.NewEncoder, []byte(src), sc)
			leave(0)
			r.SSt, r.SOut = stWord(res.St), bytesToInts(res.Out)
			r.Panic = r.Panic || r.SSt == "panic"
			enc.Encode(r)
			nEnc++
		} else {
			in := randBytes(rng, maxLen)
			r := rec{K: "dec", S: []int{}, B: bytesToInts(in), Out: []int{}, Back: []int{}, SOut: []int{}, Sched: sc}
			enter(0, func() string { return fmt.Sprintf("random dec %q", in) })
			o := callOnce(verifutf7.DecodeString, string(in))
			res := drive(verifutf7.NewDecoder, in, sc)
			leave(0)
			r.Panic = o.Panic != ""
			r.Ok = o.Panic == "" && o.Err == nil
			var v1, v2 bool
			r.Out, v1 = cpsIfValid([]byte(o.Out))
			r.SSt = stWord(res.St)
			r.SOut, v2 = cpsIfValid(res.Out)
			r.Valid = v1 && v2
			r.Panic = r.Panic || r.SSt == "panic"
			enc.Encode(r)
			nDec++
		}
	}
	// Exploration beyond what TLC re-evaluates: long strings, real round trip only.
	nLong, longCalls := 0, atomic.LoadInt64(&calls)
	for i := 0; i < long; i++ {
		cps := randCps(rng, 1+rng.Intn(longLen))
		if i%3 == 0 {
			// runs: long stretches of one class of character (whatever depends on the ratio between the length of
			// the text and the length of its encoding shows with those, not with mixtures)
			cps = cps[:0]
			for r, nr := 0, 1+rng.Intn(4); r < nr; r++ {
				k, cls := 1+rng.Intn(60), rng.Intn(4)
				for j := 0; j < k; j++ {
					switch cls {
					case 0:
						cps = append(cps, 0x21+rng.Intn(0x5d))
					case 1:
						cps = append(cps, 0x80+rng.Intn(0x800-0x80))
					case 2:
						cps = append(cps, 0x4e00+rng.Intn(0x5000))
					default:
						cps = append(cps, 0x1f300+rng.Intn(0x300))
					}
				}
			}
		}
		src := cpsToString(cps)
		enter(0, func() string { return fmt.Sprintf("long round trip %q", src) })
		o := callOnce(verifutf7.EncodeString, src)
		bad := ""
		if o.Panic != "" || o.Err != nil {
			bad = fmt.Sprintf("Encode failed: err=%v panic=%q", o.Err, o.Panic)
		} else {
			for _, c := range []byte(o.Out) {
				if c < 0x20 || c > 0x7e {
					bad = fmt.Sprintf("Encode output %q is not printable ASCII", o.Out)
				}
			}
			b := callOnce(verifutf7.DecodeString, o.Out)
			if bad == "" && (b.Panic != "" || b.Err != nil || b.Out != src) {
				bad = fmt.Sprintf("Decode(Encode(s)) = %q err=%v panic=%q", b.Out, b.Err, b.Panic)
			}
			// ... and through the real call sites (imapwire.Encoder.Mailbox -> wire text -> Decoder.ExpectMailbox)
			if bad == "" && !strings.EqualFold(src, "INBOX") {
				t := callOnce(verifutf7.WireText, src)
				w := callOnce(verifutf7.WireRoundTrip, src)
				switch {
				case t.Panic != "" || t.Err != nil || t.Out != o.Out:
					bad = fmt.Sprintf("Encoder.Mailbox carries %q err=%v panic=%q, EncodeString gives %q", t.Out, t.Err, t.Panic, o.Out)
				case w.Panic != "" || w.Err != nil || w.Out != src:
					bad = fmt.Sprintf("ExpectMailbox(Encoder.Mailbox(s)) = %q err=%v panic=%q", w.Out, w.Err, w.Panic)
				}
			}
			for _, sc := range schedules {
				if bad != "" {
					break
				}
				e := drive(verifutf7.NewEncoder, []byte(src), sc)
				if e.St != "ok" {
					bad = fmt.Sprintf("streamed encode with %v ended %s", sc, e.St)
					break
				}
				d := drive(verifutf7.NewDecoder, e.Out, sc)
				if d.St != "ok" || string(d.Out) != src {
					bad = fmt.Sprintf("streamed Decode(Encode(s)) with %v = %q (%s), streamed encoding %q", sc, d.Out, d.St, e.Out)
				}
			}
		}
		leave(0)
		if bad != "" {
			out.Mismatch("explore/long-roundtrip", fmt.Sprintf("s=%q (code points %v): %s", src, cps, bad),
				map[string]interface{}{"vector": vec{K: "enc", S: cps, Out: []int{}}, "note": "long random string, round trip only"})
		}
		nLong++
	}
	longCalls = atomic.LoadInt64(&calls) - longCalls
	out.Summary(map[string]interface{}{"records": nEnc + nDec, "enc": nEnc, "dec": nDec, "steps": atomic.LoadInt64(&calls),
		"long_roundtrips": nLong, "long_calls": longCalls})
}

func main() {
	if len(os.Args) < 3 {
		fmt.Fprintln(os.Stderr, "usage: utf7 replay|one|random <file> [flags]")
		os.Exit(2)
	}
	mode, path := os.Args[1], os.Args[2]
	fs := flag.NewFlagSet(mode, flag.ExitOnError)
	seed := fs.Int64("seed", 1, "")
	n := fs.Int("n", 400, "records for Utf7Trace")
	maxLen := fs.Int("maxlen", 40, "max code points / bytes per recorded input")
	long := fs.Int("long", 300, "long round-trip-only strings (exploration)")
	longLen := fs.Int("longlen", 200, "")
	workers := fs.Int("workers", 16, "")
	fs.Parse(os.Args[3:])
	switch mode {
	case "replay":
		cmdReplay(path, *workers)
	case "one":
		cmdOne(path)
	case "random":
		cmdRandom(path, *seed, *n, *maxLen, *long, *longLen)
	default:
		os.Exit(2)
	}
}
