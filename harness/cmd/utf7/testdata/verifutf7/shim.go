// Package verifutf7 is NOT part of go-imap.  The C16 check adds this file to
// the go-imap module at build time with `go build -overlay` (as
// <repo>/verifutf7/shim.go; nothing is written into the repository) so that
// the harness, which lives in another module, can reach internal/utf7.
// It adds no behaviour: it hands out the real transformers and the same
// one-shot calls internal/imapwire and imapserver make.
package verifutf7

import (
	"golang.org/x/text/transform"

	"github.com/emersion/go-imap/v2/internal/utf7"
)

// T is utf7.Encoding's encoder or decoder transformer.
type T struct{ t transform.Transformer }

func NewEncoder() *T { return &T{utf7.Encoding.NewEncoder().Transformer} }
func NewDecoder() *T { return &T{utf7.Encoding.NewDecoder().Transformer} }

// Transform is one call of the real Transform; the error is reduced to its
// class: "nil", "shortsrc", "shortdst", "invalid" (utf7.ErrInvalidUTF7) or
// "other:<text>".
func (t *T) Transform(dst, src []byte, atEOF bool) (nDst, nSrc int, class string) {
	nDst, nSrc, err := t.t.Transform(dst, src, atEOF)
	switch err {
	case nil:
		class = "nil"
	case transform.ErrShortSrc:
		class = "shortsrc"
	case transform.ErrShortDst:
		class = "shortdst"
	case utf7.ErrInvalidUTF7:
		class = "invalid"
	default:
		class = "other:" + err.Error()
	}
	return
}

func (t *T) Reset() { t.t.Reset() }

// EncodeString is the call of imapwire.Encoder.Mailbox.
func EncodeString(s string) (string, error) { return utf7.Encoding.NewEncoder().String(s) }

// DecodeString is the call of imapwire.Decoder.ExpectMailbox and imapserver's readListMailbox.
func DecodeString(s string) (string, error) { return utf7.Encoding.NewDecoder().String(s) }
