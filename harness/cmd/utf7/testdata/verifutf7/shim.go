// Package verifutf7 is NOT part of go-imap.  The C16 check adds this file to
// the go-imap module at build time with `go build -overlay` (as
// <repo>/verifutf7/shim.go; nothing is written into the repository) so that
// the harness, which lives in another module, can reach internal/utf7.
// It adds no behaviour: it hands out the real transformers and the same
// one-shot calls internal/imapwire and imapserver make.
package verifutf7

import (
	"bufio"
	"bytes"
	"errors"

	"golang.org/x/text/transform"

	"github.com/emersion/go-imap/v2/internal/imapwire"

	"github.com/emersion/go-imap/v2/internal/utf7"
)

// T is utf7.Encoding's encoder or decoder transformer.
type T struct{ t transform.Transformer }

func NewEncoder() *T { return &T{utf7.Encoding.NewEncoder().Transformer} }
func NewDecoder() *T { return &T{utf7.Encoding.NewDecoder().Transformer} }

// Transform is one call of the real Transform; the error is reduced to its
// class: "nil", "shortsrc", "shortdst", "invalid" (utf7.ErrInvalidUTF7) or
// "other:<text>".
func (t *T) Transform(dst, src []byte, atEOF bool) (nDst, nSrc int, class string) {
	nDst, nSrc, err := t.t.Transform(dst, src, atEOF)
	switch err {
	case nil:
		class = "nil"
	case transform.ErrShortSrc:
		class = "shortsrc"
	case transform.ErrShortDst:
		class = "shortdst"
	case utf7.ErrInvalidUTF7:
		class = "invalid"
	default:
		class = "other:" + err.Error()
	}
	return
}

func (t *T) Reset() { t.t.Reset() }

// EncodeString is the call of imapwire.Encoder.Mailbox.
func EncodeString(s string) (string, error) { return utf7.Encoding.NewEncoder().String(s) }

// DecodeString is the call of imapwire.Decoder.ExpectMailbox and imapserver's readListMailbox.
func DecodeString(s string) (string, error) { return utf7.Encoding.NewDecoder().String(s) }

// WireText is what the real imapwire.Encoder.Mailbox puts on the wire for a name (client side, no extensions
// negotiated: the modified UTF-7 text as atom, quoted string or literal), unwrapped to the text it carries.
func WireText(name string) (string, error) {
	var conn bytes.Buffer
	bw := bufio.NewWriter(&conn)
	enc := imapwire.NewEncoder(bw, imapwire.ConnSideServer)
	enc.Mailbox(name)
	if err := enc.CRLF(); err != nil {
		return "", err
	}
	// the text is read back with the string reader of the peer, which knows nothing of mailbox names
	dec := imapwire.NewDecoder(bufio.NewReader(&conn), imapwire.ConnSideClient)
	var text string
	if !dec.ExpectAString(&text) || !dec.ExpectCRLF() {
		return "", errors.New("not an astring: " + dec.Err().Error())
	}
	return text, nil
}

// WireRoundTrip sends a name through the real Encoder.Mailbox and reads it back with the peer's
// Decoder.ExpectMailbox.
func WireRoundTrip(name string) (string, error) {
	var conn bytes.Buffer
	bw := bufio.NewWriter(&conn)
	enc := imapwire.NewEncoder(bw, imapwire.ConnSideServer)
	enc.Mailbox(name)
	if err := enc.CRLF(); err != nil {
		return "", err
	}
	dec := imapwire.NewDecoder(bufio.NewReader(&conn), imapwire.ConnSideClient)
	var got string
	if !dec.ExpectMailbox(&got) || !dec.ExpectCRLF() {
		return "", dec.Err()
	}
	return got, nil
}
