// Command clientlit binds spec/ClientLit.tla to imapclient (property C18): for
// every case (capabilities advertised x command x argument class x server
// reaction) a real client is driven against a scripted server that records,
// token by token, how the client represented its arguments and the order of
// events around a synchronising literal: octets seen before the continuation
// request (it is held back for a grace period), octets seen after a tagged
// refusal, the completion status, and whether the connection is still usable.
//
//	clientlit run <tlc-output> <out.ndjson>     clientlit one <case.json> <out.ndjson>
package main

import (
	"bufio"
	"encoding/json"
	"errors"
	"fmt"
	"io"
	"math/rand"
	"os"
	"strconv"
	"strings"
	"sync"
	"time"

	"github.com/emersion/go-imap/v2"
	"github.com/emersion/go-imap/v2/imapclient"
	"github.com/emersion/go-sasl"

	"verif/harness/vh"
)

type cfgT struct {
	LitMinus bool `json:"litminus"`
	LitPlus  bool `json:"litplus"`
	Rev2     bool `json:"rev2"`
	UTF8Adv  bool `json:"utf8adv"`
	UTF8     bool `json:"utf8"`
	SaslIR   bool `json:"saslir"`
	AppLimit bool `json:"applimit"`
}

type caseT struct {
	Cfg  cfgT `json:"cfg"`
	Case struct {
		Cmd   string `json:"cmd"`
		Class string `json:"class"`
		React string `json:"react"`
		Stale bool   `json:"stale"` // the greeting's capabilities were invalidated by a LOGIN, the new list has not arrived
		// Unauth: after the ENABLE the client sends UNAUTHENTICATE (answered OK with the same capability list)
		Unauth bool `json:"unauth"`
	} `json:"case"`
}

type token struct {
	Rep  string `json:"rep"`
	N    int    `json:"n"`
	Bit8 bool   `json:"bit8"`
	Ctl  bool   `json:"ctl"`
}

const grace = 25 * time.Millisecond

func argOf(class string) string {
	switch class {
	case "plain":
		return "abc"
	case "space":
		return "a b"
	case "quote":
		return `a"b\c`
	case "ctl":
		return "a\r\nb\x00c"
	case "bit8":
		return "héllo"
	case "empty":
		return ""
	case "long":
		return strings.Repeat("a", 4097)
	case "longctl":
		return strings.Repeat("a", 4090) + "\r\nzz"
	case "long8":
		return strings.Repeat("é", 2100)
	}
	if strings.HasPrefix(class, "rnd-") {
		var n int
		var seed int64
		fmt.Sscanf(class, "rnd-%d-%d", &n, &seed)
		r := rand.New(rand.NewSource(seed))
		alpha := []byte("ab \"\\\r\n\x00\xc3\xa9{}()%*")
		b := make([]byte, n)
		for i := range b {
			if r.Intn(4) == 0 {
				b[i] = alpha[r.Intn(len(alpha))]
			} else {
				b[i] = 'a' + byte(r.Intn(26))
			}
		}
		return string(b)
	}
	panic(class)
}

func classify(rep string, content string) token {
	t := token{Rep: rep, N: len(content)}
	for i := 0; i < len(content); i++ {
		ch := content[i]
		if ch >= 0x80 {
			t.Bit8 = true
		}
		if ch == 0 || ch == '\r' || ch == '\n' {
			t.Ctl = true
		}
	}
	return t
}

type server struct {
	c   *vh.Conn
	br  *bufio.Reader
	evs []map[string]interface{}
}

func (s *server) ev(m map[string]interface{}) { s.evs = append(s.evs, m) }

func (s *server) readLine() (string, error) {
	s.c.SetReadDeadline(time.Now().Add(3 * time.Second))
	line, err := s.br.ReadString('\n')
	return line, err
}

// quiet checks that no octet arrives during the grace period; it returns how many did.
func (s *server) quiet() int {
	s.c.SetReadDeadline(time.Now().Add(grace))
	n := 0
	for {
		_, err := s.br.ReadByte()
		if err != nil {
			break
		}
		n++
	}
	return n
}

// parseLine splits one physical line into tokens; it returns the announced literal, if any.
func parseLine(line string, skip int) (toks []token, lit int, sync bool, hasLit bool, err error) {
	body := strings.TrimRight(line, "\r\n")
	if !strings.HasSuffix(line, "\r\n") {
		return nil, 0, false, false, fmt.Errorf("line not terminated by CRLF: %q", line)
	}
	i := 0
	idx := 0
	for i < len(body) {
		ch := body[i]
		switch {
		case ch == ' ' || ch == '(' || ch == ')':
			i++
		case ch == '"':
			j := i + 1
			var sb strings.Builder
			closed := false
			for j < len(body) {
				if body[j] == '\\' && j+1 < len(body) {
					sb.WriteByte(body[j+1])
					j += 2
					continue
				}
				if body[j] == '"' {
					closed = true
					break
				}
				sb.WriteByte(body[j])
				j++
			}
			if !closed {
				return nil, 0, false, false, fmt.Errorf("unterminated quoted string in %q", line)
			}
			toks = append(toks, classify("quoted", sb.String()))
			i = j + 1
			idx++
		case ch == '{':
			j := strings.IndexByte(body[i:], '}')
			if j < 0 || i+j+1 != len(body) {
				return nil, 0, false, false, fmt.Errorf("malformed literal header in %q", line)
			}
			num := body[i+1 : i+j]
			sync = true
			if strings.HasSuffix(num, "+") {
				sync = false
				num = strings.TrimSuffix(num, "+")
			}
			n, perr := strconv.Atoi(num)
			if perr != nil {
				return nil, 0, false, false, fmt.Errorf("malformed literal size in %q", line)
			}
			return toks, n, sync, true, nil
		default:
			j := i
			for j < len(body) && body[j] != ' ' && body[j] != '(' && body[j] != ')' {
				j++
			}
			if idx >= skip {
				toks = append(toks, classify("atom", body[i:j]))
			}
			i = j
			idx++
		}
	}
	return toks, 0, false, false, nil
}

// serveCommand reads one complete command from the client, playing the server side of the
// literal protocol; react applies to the first synchronising literal.
// It returns the tag and whether the command was refused.
func (s *server) serveCommand(react string, record bool) (tag string, refused bool, err error) {
	first := true
	skip := 2
	var pending []token
	usedSync := false
	for {
		line, rerr := s.readLine()
		if rerr != nil {
			return tag, false, fmt.Errorf("reading command: %v", rerr)
		}
		if first {
			tag = strings.SplitN(line, " ", 2)[0]
			if strings.Contains(line, " UID ") {
				skip = 3
			}
		}
		toks, n, sync, hasLit, perr := parseLine(line, skip)
		skip = 0
		first = false
		if perr != nil {
			return tag, false, perr
		}
		pending = append(pending, toks...)
		if pending == nil {
			pending = []token{}
		}
		if !hasLit {
			if record {
				name := "Send"
				if usedSync {
					name = "Rest"
				}
				s.ev(map[string]interface{}{"ev": name, "tokens": pending, "sync": false})
			}
			return tag, false, nil
		}
		if !sync {
			buf := make([]byte, n)
			s.c.SetReadDeadline(time.Now().Add(3 * time.Second))
			if _, err := io.ReadFull(s.br, buf); err != nil {
				return tag, false, fmt.Errorf("reading non-synchronising literal: %v", err)
			}
			pending = append(pending, classify("nonsync", string(buf)))
			continue
		}
		// synchronising literal: the client must now wait
		usedSync = true
		if record {
			pending = append(pending, token{Rep: "sync", N: n})
			s.ev(map[string]interface{}{"ev": "Send", "tokens": pending, "sync": true})
			pending = nil
			if early := s.quiet(); early > 0 {
				s.ev(map[string]interface{}{"ev": "Early", "n": early})
			}
		}
		if react == "refuse" {
			react = "grant"
			if record {
				s.ev(map[string]interface{}{"ev": "Refuse"})
			}
			s.c.Write([]byte(tag + " NO literal refused\r\n"))
			if late := s.quiet(); late > 0 && record {
				s.ev(map[string]interface{}{"ev": "Late", "n": late})
			}
			return tag, true, nil
		}
		if record {
			s.ev(map[string]interface{}{"ev": "Grant"})
		}
		s.c.Write([]byte("+ go ahead\r\n"))
		buf := make([]byte, n)
		s.c.SetReadDeadline(time.Now().Add(3 * time.Second))
		if _, err := io.ReadFull(s.br, buf); err != nil {
			return tag, false, fmt.Errorf("reading synchronising literal: %v", err)
		}
		if record {
			s.ev(map[string]interface{}{"ev": "Payload", "n": n})
		}
	}
}

// runAuthenticate: AUTHENTICATE PLAIN.  Recorded: whether the initial response came on the command line (token
// "ir") or only after the empty challenge.
func (s *server) runAuthenticate(cl *imapclient.Client, sc *vh.Conn, caps string) ([]map[string]interface{}, error) {
	done := make(chan string, 1)
	go func() { done <- statusOf(cl.Authenticate(sasl.NewPlainClient("", "u", "p"))) }()
	line, err := s.readLine()
	if err != nil {
		s.ev(map[string]interface{}{"ev": "Broken", "err": "reading command: " + err.Error()})
		return s.evs, nil
	}
	f := strings.Fields(strings.TrimRight(line, "\r\n"))
	if len(f) < 3 || f[1] != "AUTHENTICATE" || f[2] != "PLAIN" || len(f) > 4 {
		s.ev(map[string]interface{}{"ev": "Broken", "err": fmt.Sprintf("malformed AUTHENTICATE: %q", line)})
		return s.evs, nil
	}
	toks := []token{}
	if len(f) == 4 {
		toks = append(toks, token{Rep: "ir", N: len(f[3])})
	}
	s.ev(map[string]interface{}{"ev": "Send", "tokens": toks, "sync": false})
	if len(f) == 3 {
		sc.Write([]byte("+ \r\n"))
		if _, err := s.readLine(); err != nil {
			s.ev(map[string]interface{}{"ev": "Broken", "err": "reading the SASL response: " + err.Error()})
			return s.evs, nil
		}
	}
	sc.Write([]byte(f[0] + " OK [CAPABILITY " + caps + "] authenticated\r\n"))
	select {
	case st := <-done:
		s.ev(map[string]interface{}{"ev": "Complete", "status": st})
	case <-time.After(3 * time.Second):
		s.ev(map[string]interface{}{"ev": "Complete", "status": "HANG"})
		return s.evs, nil
	}
	usable := false
	nd := make(chan error, 1)
	go func() { nd <- cl.Noop().Wait() }()
	if tag2, _, err := s.serveCommand("grant", false); err == nil {
		sc.Write([]byte(tag2 + " OK noop\r\n"))
		select {
		case err := <-nd:
			usable = err == nil
		case <-time.After(3 * time.Second):
		}
	}
	s.ev(map[string]interface{}{"ev": "Usable", "ok": usable})
	return s.evs, nil
}

func statusOf(err error) string {
	if err == nil {
		return "OK"
	}
	var ie *imap.Error
	if errors.As(err, &ie) {
		return string(ie.Type)
	}
	return "ERR:" + err.Error()
}

func runCase(cs *caseT) ([]map[string]interface{}, error) {
	cc, sc := vh.NewConnPair()
	s := &server{c: sc, br: bufio.NewReaderSize(sc, 1<<16)}
	defer sc.Close()
	caps := "IMAP4rev1"
	if cs.Cfg.Rev2 {
		caps += " IMAP4rev2"
	}
	if cs.Cfg.LitPlus {
		caps += " LITERAL+"
	} else if cs.Cfg.LitMinus && !cs.Cfg.Rev2 {
		caps += " LITERAL-"
	}
	if cs.Cfg.UTF8Adv {
		caps += " UTF8=ACCEPT ENABLE"
	}
	if cs.Cfg.SaslIR {
		caps += " SASL-IR"
	}
	if cs.Cfg.AppLimit {
		caps += " APPENDLIMIT=10000000"
	}
	sc.Write([]byte("* OK [CAPABILITY " + caps + "] ready\r\n"))
	cl := imapclient.New(cc, nil)
	defer vh.Within(2*time.Second, func() { cl.Close() })
	if err := cl.WaitGreeting(); err != nil {
		return nil, err
	}
	s.ev(map[string]interface{}{"ev": "Case", "cfg": cs.Cfg, "case": cs.Case})
	if cs.Cfg.UTF8 {
		en := cl.Enable(imap.CapUTF8Accept)
		tag, _, err := s.serveCommand("grant", false)
		if err != nil {
			return nil, fmt.Errorf("ENABLE: %v", err)
		}
		sc.Write([]byte("* ENABLED UTF8=ACCEPT\r\n" + tag + " OK enabled\r\n"))
		if _, err := en.Wait(); err != nil {
			return nil, fmt.Errorf("ENABLE failed: %v", err)
		}
	}
	if cs.Case.Unauth {
		un := cl.Unauthenticate()
		tag, _, err := s.serveCommand("grant", false)
		if err != nil {
			return nil, fmt.Errorf("UNAUTHENTICATE: %v", err)
		}
		sc.Write([]byte(tag + " OK [CAPABILITY " + caps + "] unauthenticated\r\n"))
		if err := un.Wait(); err != nil {
			return nil, fmt.Errorf("UNAUTHENTICATE failed: %v", err)
		}
	}
	capTag := ""
	if cs.Case.Stale {
		// LOGIN answered without CAPABILITY code: what the greeting advertised no longer holds.  The client asks
		// again on its own; the answer is withheld until the command under test has been written.
		lg := cl.Login("u", "p")
		tag, _, err := s.serveCommand("grant", false)
		if err != nil {
			return nil, fmt.Errorf("LOGIN: %v", err)
		}
		sc.Write([]byte(tag + " OK logged in\r\n"))
		if err := lg.Wait(); err != nil {
			return nil, fmt.Errorf("LOGIN failed: %v", err)
		}
		capTag, _, err = s.serveCommand("grant", false)
		if err != nil {
			return nil, fmt.Errorf("the client did not ask for the capabilities after LOGIN: %v", err)
		}
	}
	if cs.Case.Cmd == "AUTHENTICATE" {
		return s.runAuthenticate(cl, sc, caps)
	}
	// the API call runs in its own goroutine: it blocks while the command is being sent
	done := make(chan string, 1)
	arg := ""
	if cs.Case.Cmd != "APPEND" {
		arg = argOf(cs.Case.Class)
	}
	go func() {
		switch cs.Case.Cmd {
		case "LOGIN":
			done <- statusOf(cl.Login(arg, "p").Wait())
		case "SEARCHBODY":
			_, err := cl.Search(&imap.SearchCriteria{Body: []string{arg}}, nil).Wait()
			done <- statusOf(err)
		case "CREATE":
			done <- statusOf(cl.Create(arg, nil).Wait())
		case "RENAME":
			done <- statusOf(cl.Rename("old", arg).Wait())
		case "LIST":
			_, err := cl.List("", arg, nil).Collect()
			done <- statusOf(err)
		case "STATUS":
			_, err := cl.Status(arg, &imap.StatusOptions{NumMessages: true}).Wait()
			done <- statusOf(err)
		case "SELECT":
			_, err := cl.Select(arg, nil).Wait()
			done <- statusOf(err)
		case "DELETE":
			done <- statusOf(cl.Delete(arg).Wait())
		case "SUBSCRIBE":
			done <- statusOf(cl.Subscribe(arg).Wait())
		case "COPY":
			var set imap.SeqSet
			set.AddNum(1)
			_, err := cl.Copy(set, arg).Wait()
			done <- statusOf(err)
		case "SEARCHHEADER":
			_, err := cl.Search(&imap.SearchCriteria{Header: []imap.SearchCriteriaHeaderField{{Key: "Subject", Value: arg}}}, nil).Wait()
			done <- statusOf(err)
		case "SORTTEXT":
			_, err := cl.Sort(&imapclient.SortOptions{SearchCriteria: &imap.SearchCriteria{Text: []string{arg}},
				SortCriteria: []imapclient.SortCriterion{{Key: imapclient.SortKeyDate}}}).Wait()
			done <- statusOf(err)
		case "SETMETADATA":
			v := []byte(arg)
			done <- statusOf(cl.SetMetadata("mb", map[string]*[]byte{"/private/comment": &v}).Wait())
		case "SETQUOTA":
			done <- statusOf(cl.SetQuota(arg, map[imap.QuotaResourceType]int64{imap.QuotaResourceStorage: 10}).Wait())
		case "GETQUOTAROOT":
			_, err := cl.GetQuotaRoot(arg).Wait()
			done <- statusOf(err)
		case "APPEND":
			chunks := map[string][]int{"small": {10}, "at": {4096}, "over": {4097}, "split": {3, 7}, "bigsplit": {16, 6000}, "longname": {10}}[cs.Case.Class]
			size := 0
			for _, n := range chunks {
				size += n
			}
			name := "mb"
			if cs.Case.Class == "longname" {
				name = argOf("long") // a literal of its own: if the server refuses THAT one, nothing of the message may follow
			}
			cmd := cl.Append(name, int64(size), nil)
			for _, n := range chunks {
				cmd.Write([]byte(strings.Repeat("x", n))) // errors are looked at when the literal is closed
			}
			cmd.Close()
			_, err := cmd.Wait()
			done <- statusOf(err)
		}
	}()
	if capTag != "" {
		// a command that needs to know the capabilities (Caps() waits for the pending answer) is not written yet:
		// then the answer comes first - the new list advertises nothing either
		s.c.SetReadDeadline(time.Now().Add(150 * time.Millisecond))
		if _, err := s.br.Peek(1); err != nil {
			sc.Write([]byte("* CAPABILITY IMAP4rev1\r\n" + capTag + " OK capabilities\r\n"))
			capTag = ""
		}
	}
	tag, refused, err := s.serveCommand(cs.Case.React, true)
	if err != nil {
		s.ev(map[string]interface{}{"ev": "Broken", "err": err.Error()})
		return s.evs, nil
	}
	if capTag != "" {
		sc.Write([]byte("* CAPABILITY IMAP4rev1\r\n" + capTag + " OK capabilities\r\n"))
	}
	if !refused {
		// LOGIN: carry the capabilities so that the client does not issue a CAPABILITY command of its own
		sc.Write([]byte(tag + " OK [CAPABILITY " + caps + "] done\r\n"))
	}
	select {
	case st := <-done:
		s.ev(map[string]interface{}{"ev": "Complete", "status": st})
	case <-time.After(3 * time.Second):
		s.ev(map[string]interface{}{"ev": "Complete", "status": "HANG"})
		return s.evs, nil
	}
	// is the connection still usable?
	usable := false
	nd := make(chan error, 1)
	go func() { nd <- cl.Noop().Wait() }()
	if tag2, _, err := s.serveCommand("grant", false); err == nil {
		sc.Write([]byte(tag2 + " OK noop\r\n"))
		select {
		case err := <-nd:
			usable = err == nil
		case <-time.After(3 * time.Second):
		}
	}
	s.ev(map[string]interface{}{"ev": "Usable", "ok": usable})
	return s.evs, nil
}

func main() {
	if len(os.Args) < 4 {
		fmt.Fprintln(os.Stderr, "usage: clientlit run|one <in> <out.ndjson>")
		os.Exit(2)
	}
	out := vh.NewOut()
	defer out.Flush()
	f, err := os.Create(os.Args[3])
	if err != nil {
		fmt.Fprintln(os.Stderr, err)
		os.Exit(2)
	}
	defer f.Close()
	enc := json.NewEncoder(f)
	var emu sync.Mutex
	jobs := make(chan *caseT, 64)
	var wg sync.WaitGroup
	var mu sync.Mutex
	n, nSync, records := 0, 0, 0
	var infra string
	var samples []interface{}
	for i := 0; i < 16; i++ {
		wg.Add(1)
		go func() {
			defer wg.Done()
			for cs := range jobs {
				evs, err := runCase(cs)
				mu.Lock()
				n++
				if err != nil {
					infra = err.Error()
				}
				syncUsed := false
				for _, e := range evs {
					switch e["ev"] {
					case "Grant", "Refuse":
						syncUsed = true
					case "Early":
						out.Mismatch("payload-before-continuation/"+cs.Case.Cmd, fmt.Sprintf("%v octets written before the server's continuation request (%+v)", e["n"], *cs), cs)
					case "Late":
						out.Mismatch("payload-after-refusal/"+cs.Case.Cmd, fmt.Sprintf("%v octets written after the tagged refusal (%+v)", e["n"], *cs), cs)
					case "Usable":
						if e["ok"] == false {
							out.Mismatch("connection-unusable-after/"+cs.Case.React, fmt.Sprintf("the connection is not usable after the command (%+v)", *cs), cs)
						}
					case "Broken":
						out.Mismatch("malformed-command/"+cs.Case.Cmd, fmt.Sprintf("%v (%+v)", e["err"], *cs), cs)
					}
				}
				if syncUsed {
					nSync++
					if len(samples) < 3 {
						samples = append(samples, evs)
					}
				}
				records += len(evs)
				mu.Unlock()
				emu.Lock()
				for _, e := range evs {
					enc.Encode(e)
				}
				emu.Unlock()
			}
		}()
	}
	if os.Args[1] == "random" {
		// random <n:seed> <out>: random configurations, commands, argument bytes and lengths
		var n int
		var seed int64
		fmt.Sscanf(os.Args[2], "%d:%d", &n, &seed)
		r := rand.New(rand.NewSource(seed))
		cmds := []string{"LOGIN", "SEARCHBODY", "CREATE", "RENAME", "LIST", "STATUS"}
		for i := 0; i < n; i++ {
			cs := &caseT{}
			cs.Cfg = cfgT{LitPlus: r.Intn(3) == 0, Rev2: r.Intn(3) == 0, UTF8: r.Intn(3) == 0, AppLimit: r.Intn(3) == 0}
			// (SASL-IR matters to AUTHENTICATE only, which the random cases do not issue)
			cs.Cfg.LitMinus = cs.Cfg.LitPlus || cs.Cfg.Rev2 || r.Intn(2) == 0
			cs.Cfg.UTF8Adv = cs.Cfg.UTF8 || r.Intn(2) == 0
			cs.Case.Cmd = cmds[r.Intn(len(cmds))]
			ln := r.Intn(24)
			if r.Intn(4) == 0 {
				ln = 4090 + r.Intn(12)
			}
			cs.Case.Class = fmt.Sprintf("rnd-%d-%d", ln, r.Int63())
			cs.Case.React = []string{"grant", "refuse"}[r.Intn(2)]
			jobs <- cs
		}
	} else if os.Args[1] == "one" {
		b, err := os.ReadFile(os.Args[2])
		if err != nil {
			fmt.Fprintln(os.Stderr, err)
			os.Exit(2)
		}
		cs := &caseT{}
		if err := json.Unmarshal(b, cs); err != nil {
			fmt.Fprintln(os.Stderr, err)
			os.Exit(2)
		}
		jobs <- cs
	} else {
		err = vh.ReadTLines(os.Args[2], func(b []byte) error {
			cs := &caseT{}
			if err := json.Unmarshal(b, cs); err != nil {
				return err
			}
			jobs <- cs
			return nil
		})
	}
	close(jobs)
	wg.Wait()
	sum := map[string]interface{}{"behaviours": n, "traces": n, "steps": records, "records": records, "nontrivial": nSync, "samples": samples}
	if err != nil {
		sum["infra_error"] = err.Error()
	} else if infra != "" {
		sum["infra_error"] = infra
	}
	out.Summary(sum)
}
