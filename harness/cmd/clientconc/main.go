//go:build verif

// Command clientconc binds spec/ClientConc.tla to imapclient.Client
// (property C13) through the verif hooks (build tag verif):
//
//	clientconc schedules <tlc-output> [-stride n -seed s]
//	    every maximal behaviour of the specification is re-enacted on a real
//	    client: the hooks are gates that the harness opens in the order of the
//	    schedule; observed: hook order per command (initialised before visible),
//	    every Wait returns exactly once, nobody blocks, no panic.
//	clientconc stress <out.ndjson> [-seed s -rounds n]
//	    free-running goroutines, connection loss and Close at random moments;
//	    the hook log is recorded for ClientConcTrace.
//
// Build with -race: data race reports are picked up from stderr by the check.
package main

import (
	"bufio"
	"bytes"
	"encoding/json"
	"flag"
	"fmt"
	"io"
	"math/rand"
	"os"
	"os/exec"
	"runtime"
	"strconv"
	"strings"
	"sync"
	"sync/atomic"
	"time"

	"github.com/emersion/go-imap/v2"
	"github.com/emersion/go-imap/v2/imapclient"
	"github.com/emersion/go-sasl"

	"verif/harness/vh"
)

func gid() int64 {
	var buf [64]byte
	n := runtime.Stack(buf[:], false)
	f := bytes.Fields(buf[:n])
	id, _ := strconv.ParseInt(string(f[1]), 10, 64)
	return id
}

type hookEv struct {
	Seq   int    `json:"seq"`
	Proc  int    `json:"proc"`
	Point string `json:"point"`
	Tag   string `json:"tag"`
}

type arrival struct {
	proc  int
	point string
	tag   string
}

// world is one client + scripted server + gate controller.
type world struct {
	mu      sync.Mutex
	procOf  map[int64]int // goroutine id -> submitter index; others are the reader (0)
	inClose map[int]bool
	release map[int]chan struct{}
	arrived map[int]arrival // latest un-consumed arrival per process
	cond    *sync.Cond
	wg      sync.WaitGroup // goroutines of this world that call into the client
	log     []hookEv
	gating  bool
	cl      *imapclient.Client
	srv     *vh.Conn
	cli     *vh.Conn // the client's end
	br      *bufio.Reader
	dbg     *parker
}

// parker is the client's DebugWriter: it sees every chunk the reader goroutine takes from the connection
// before the reader parses it.  Armed, it parks the reader on the chunk that carries the marker: everything
// up to the end of that chunk is then in the reader's buffer, the reader has not looked at it yet.
type parker struct {
	mu      sync.Mutex
	armed   bool
	parked  chan struct{} // closed when the reader is parked
	release chan struct{}
}

const parkMarker = "parkme"

func (p *parker) arm() {
	p.mu.Lock()
	p.armed, p.parked, p.release = true, make(chan struct{}), make(chan struct{})
	p.mu.Unlock()
}

func (p *parker) Write(b []byte) (int, error) {
	p.mu.Lock()
	hit := p.armed && bytes.Contains(b, []byte(parkMarker))
	var parked, release chan struct{}
	if hit {
		p.armed = false
		parked, release = p.parked, p.release
	}
	p.mu.Unlock()
	if hit {
		close(parked)
		<-release
	}
	return len(b), nil
}

func (p *parker) open() {
	p.mu.Lock()
	p.armed = false
	if p.release != nil {
		select {
		case <-p.release:
		default:
			close(p.release)
		}
	}
	p.mu.Unlock()
}

var current *world // the hook is global: one world at a time per process
var curMu sync.RWMutex

func hook(point, tag string) {
	curMu.RLock()
	w := current
	curMu.RUnlock()
	if w == nil {
		return
	}
	g := gid()
	w.mu.Lock()
	proc := w.procOf[g]
	w.log = append(w.log, hookEv{len(w.log) + 1, proc, point, tag})
	park := false
	if w.gating {
		switch point {
		case "begin.registered":
			park = proc != 0
		case "close.begin":
			w.inClose[proc] = true
			park = proc == 0
		case "close.swapped":
			park = true
		case "complete":
			park = w.inClose[proc]
		case "deliver":
			park = proc == 0
		}
	}
	var ch chan struct{}
	if park {
		ch = make(chan struct{})
		w.release[proc] = ch
		w.arrived[proc] = arrival{proc, point, tag}
		w.cond.Broadcast()
	}
	w.mu.Unlock()
	if park {
		<-ch
	}
}

func (w *world) releaseProc(p int) bool {
	w.mu.Lock()
	ch := w.release[p]
	delete(w.release, p)
	w.mu.Unlock()
	if ch == nil {
		return false
	}
	close(ch)
	return true
}

// waitArrival waits until process p is parked at a hook; ok tells whether it is the expected one.
func (w *world) waitArrival(p int, point string, d time.Duration) (arrival, bool) {
	deadline := time.Now().Add(d)
	timer := time.AfterFunc(d, func() { w.mu.Lock(); w.cond.Broadcast(); w.mu.Unlock() })
	defer timer.Stop()
	w.mu.Lock()
	defer w.mu.Unlock()
	for {
		if a, ok := w.arrived[p]; ok {
			delete(w.arrived, p)
			return a, a.point == point
		}
		if !time.Now().Before(deadline) {
			return arrival{}, false
		}
		w.cond.Wait()
	}
}

func newWorld(gating bool) (*world, error) {
	c, s := vh.NewConnPair()
	w := &world{procOf: map[int64]int{}, inClose: map[int]bool{}, release: map[int]chan struct{}{}, arrived: map[int]arrival{},
		gating: gating, srv: s, cli: c, br: bufio.NewReader(s), dbg: &parker{}}
	w.cond = sync.NewCond(&w.mu)
	curMu.Lock()
	current = w
	curMu.Unlock()
	s.Write([]byte("* OK [CAPABILITY IMAP4rev1] ready\r\n"))
	w.cl = imapclient.New(c, &imapclient.Options{DebugWriter: w.dbg})
	if err := w.cl.WaitGreeting(); err != nil {
		return nil, err
	}
	return w, nil
}

func (w *world) shutdown() {
	w.dbg.open()
	// open every gate so that nothing of this world stays parked
	w.mu.Lock()
	w.gating = false
	for p, ch := range w.release {
		close(ch)
		delete(w.release, p)
	}
	w.mu.Unlock()
	w.srv.Close()
	vh.Within(2*time.Second, func() { w.cl.Close() })
	// nothing of this world may still be running when the next one starts (the hook is global)
	vh.Within(2*time.Second, func() { w.wg.Wait() })
	w.unhook()
}

func (w *world) unhook() {
	curMu.Lock()
	if current == w {
		current = nil
	}
	curMu.Unlock()
}

// shutdownKeepHook is shutdown without detaching the hook: what the client still does is logged.
func (w *world) shutdownKeepHook() {
	w.dbg.open()
	w.mu.Lock()
	w.gating = false
	for p, ch := range w.release {
		close(ch)
		delete(w.release, p)
	}
	w.mu.Unlock()
	w.srv.Close()
	vh.Within(2*time.Second, func() { w.cl.Close() })
	vh.Within(2*time.Second, func() { w.wg.Wait() })
}

type schedEv struct {
	E string `json:"e"`
	P int    `json:"p"`
	C int    `json:"c"`
}

type verdict struct{ sig, detail string }

const watchdog = 3 * time.Second

func runSchedule(sched []schedEv) *verdict {
	w, err := newWorld(true)
	if err != nil {
		return &verdict{"infra", err.Error()}
	}
	defer w.shutdown()
	tags := map[int]string{}
	apiRet := map[int]chan struct{}{}
	waitRet := map[int]chan error{}
	panics := make(chan string, 4)
	fail := func(i int, sig, format string, args ...interface{}) *verdict {
		return &verdict{sig, fmt.Sprintf("event %d (%+v): ", i, sched[i]) + fmt.Sprintf(format, args...)}
	}
	streaming := map[int]bool{}
	completedInSched := map[int]bool{}
	for _, ev := range sched {
		if ev.E == "dfind" {
			streaming[ev.C] = true
		}
	}
	lost := false
	parked := map[int]bool{} // process is parked at close.swapped / begin.registered and not yet released
	for i, ev := range sched {
		switch ev.E {
		case "reg":
			s := ev.P
			// the goroutine below works on its own channels: the maps belong to this goroutine only
			myAPI, myWait := make(chan struct{}), make(chan error, 1)
			apiRet[s], waitRet[s] = myAPI, myWait
			isStreaming := streaming[s]
			started := make(chan struct{})
			w.wg.Add(1)
			go func() {
				defer w.wg.Done()
				defer func() {
					if v := recover(); v != nil {
						panics <- fmt.Sprint(v)
					}
				}()
				w.mu.Lock()
				w.procOf[gid()] = s
				w.mu.Unlock()
				close(started)
				if isStreaming {
					var set imap.SeqSet
					set.AddNum(1)
					cmd := w.cl.Fetch(set, &imap.FetchOptions{Flags: true})
					close(myAPI)
					_, err := cmd.Collect()
					myWait <- err
					return
				}
				cmd := w.cl.Noop()
				close(myAPI)
				myWait <- cmd.Wait()
			}()
			<-started
			a, ok := w.waitArrival(s, "begin.registered", watchdog)
			if !ok {
				return fail(i, "schedule-not-realisable/reg", "submitter did not reach begin.registered (got %+v)", a)
			}
			tags[s] = a.tag
		case "init":
			// only in the as-found design: nothing to gate (initialisation follows the registration hook)
		case "write":
			s := ev.P
			w.releaseProc(s)
			if lost {
				// the write fails: the submitter runs closeWithError itself
				if a, ok := w.waitArrival(s, "close.swapped", watchdog); !ok {
					return fail(i, "schedule-not-realisable/write", "submitter did not reach close.swapped after a failed write (got %+v)", a)
				}
				parked[s] = true
			} else {
				select {
				case <-apiRet[s]:
				case <-time.After(watchdog):
					return fail(i, "stuck/write", "the API call did not return")
				}
			}
		case "atake":
			// the reader reads the tag of the tagged response and takes the command; the rest of the line reaches
			// its buffer, but the reader is parked (in the DebugWriter) before it looks at it
			tag := tags[ev.C]
			w.srv.Write([]byte(tag + " OK "))
			deadline := time.Now().Add(watchdog)
			for !w.srv.PeerBlockedInRead() {
				if time.Now().After(deadline) {
					return fail(i, "schedule-not-realisable/atake", "the reader did not come back for the rest of the tagged response")
				}
				time.Sleep(20 * time.Microsecond)
			}
			w.dbg.arm()
			w.srv.Write([]byte(parkMarker + "\r\n"))
			select {
			case <-w.dbg.parked:
			case <-time.After(watchdog):
				return fail(i, "schedule-not-realisable/atake", "the reader did not read the rest of the tagged response")
			}
		case "acomp":
			tag := tags[ev.C]
			w.dbg.open()
			deadline := time.Now().Add(watchdog)
			seen := false
			for !seen && time.Now().Before(deadline) {
				w.mu.Lock()
				for _, e := range w.log {
					if e.Point == "complete" && e.Tag == tag && e.Proc == 0 {
						seen = true
					}
				}
				w.mu.Unlock()
				if !seen {
					time.Sleep(50 * time.Microsecond)
				}
			}
			if !seen {
				return fail(i, "stuck/answer", "the reader read the whole tagged OK for %s but did not complete the command", tag)
			}
			completedInSched[ev.C] = true
		case "dfind":
			w.srv.Write([]byte("* 1 FETCH (FLAGS (\\Seen))\r\n"))
			if a, ok := w.waitArrival(0, "deliver", watchdog); !ok || a.tag != tags[ev.C] {
				return fail(i, "schedule-not-realisable/dfind", "reader did not look up command %d for the FETCH data (got %+v)", ev.C, a)
			}
		case "dsend":
			w.releaseProc(0)
			if completedInSched[ev.C] {
				// the command was completed (its channel closed) between the lookup and the send
				if a, ok := w.waitArrival(0, "close.begin", 2*time.Second); ok || a.point != "" {
					var cerr error
					w.mu.Lock()
					w.gating = false
					w.mu.Unlock()
					w.releaseProc(0)
					vh.Within(2*time.Second, func() { cerr = w.cl.Close() })
					if cerr != nil && strings.Contains(cerr.Error(), "panic") {
						return fail(i, "send-on-closed-channel/fetch", "the reader goroutine panicked: %.200s", cerr.Error())
					}
					return nil // the send won the race against the close this time: no panic to report
				}
				return nil // no panic observed: nothing more to compare in this schedule
			}
		case "lose":
			lost = true
			w.srv.Close()
			// the reader enters closeWithError as soon as it reads again (it may be parked at a delivery)
		case "rswap":
			if a, ok := w.waitArrival(0, "close.begin", watchdog); !ok {
				return fail(i, "schedule-not-realisable/rswap", "reader did not enter closeWithError after the connection was lost (got %+v)", a)
			}
			w.releaseProc(0)
			if a, ok := w.waitArrival(0, "close.swapped", watchdog); !ok {
				return fail(i, "schedule-not-realisable/rswap", "reader did not reach close.swapped (got %+v)", a)
			}
			parked[0] = true
		case "ccomp":
			if parked[ev.P] {
				w.releaseProc(ev.P) // leave close.swapped
				parked[ev.P] = false
			}
			a, ok := w.waitArrival(ev.P, "complete", watchdog)
			if !ok {
				return fail(i, "schedule-not-realisable/ccomp", "process %d did not reach completeCommand (got %+v)", ev.P, a)
			}
			if a.tag != tags[ev.C] {
				return fail(i, "complete-uninitialised-or-wrong", "closeWithError completes a command with tag %q, the schedule says command %d (tag %q)", a.tag, ev.C, tags[ev.C])
			}
			w.releaseProc(ev.P) // the completion takes effect
			completedInSched[ev.C] = true
		case "cdone":
			if parked[ev.P] {
				w.releaseProc(ev.P)
				parked[ev.P] = false
			}
			if ev.P != 0 {
				select {
				case <-apiRet[ev.P]:
				case <-time.After(watchdog):
					return fail(i, "stuck/cdone", "submitter %d did not return from its API call after closeWithError", ev.P)
				}
			}
		case "wait":
			select {
			case <-waitRet[ev.P]:
			case p := <-panics:
				return fail(i, "panic", "%s", p)
			case <-time.After(watchdog):
				return fail(i, "stuck/wait", "Wait() of command %d (%s) did not return although the command was completed in the schedule", ev.P, tags[ev.P])
			}
		}
	}
	select {
	case p := <-panics:
		return &verdict{"panic", p}
	default:
	}
	// conformance of the hook log: a command is initialised before it becomes visible, and completes once
	w.mu.Lock()
	defer w.mu.Unlock()
	if os.Getenv("VERIF_DEBUG") != "" {
		for _, e := range w.log {
			fmt.Fprintf(os.Stderr, "hook %+v\n", e)
		}
	}
	return checkLog(w.log)
}

func checkLog(log []hookEv) *verdict {
	inited, registered, completed := map[string]bool{}, map[string]bool{}, map[string]int{}
	for _, e := range log {
		switch e.Point {
		case "begin.inited":
			inited[e.Tag] = true
		case "begin.registered":
			if !inited[e.Tag] {
				return &verdict{"visible-before-initialised", fmt.Sprintf("command %s is registered in pendingCmds before its tag and done channel are set", e.Tag)}
			}
			registered[e.Tag] = true
		case "complete":
			if e.Tag == "" {
				return &verdict{"complete-uninitialised-or-wrong", "completeCommand called on a command without tag"}
			}
			completed[e.Tag]++
			if completed[e.Tag] > 1 {
				return &verdict{"completed-twice", fmt.Sprintf("command %s completed %d times", e.Tag, completed[e.Tag])}
			}
		}
	}
	return nil
}

// cmdSchedulesSupervised runs the schedules in child processes: a bug in the client can crash the whole
// process (a panic in a goroutine of the library cannot be recovered here); the parent turns "child died
// while re-enacting schedule k" into an observation and goes on after k.
func cmdSchedulesSupervised(path string, stride int, seed int64) {
	out := vh.NewOut()
	defer out.Flush()
	from, crashes := 0, 0
	total := map[string]float64{}
	var samples interface{}
	for {
		cmd := exec.Command(os.Args[0], "schedules-child", path, "-stride", fmt.Sprint(stride), "-seed", fmt.Sprint(seed), "-from", fmt.Sprint(from))
		var stderr bytes.Buffer
		cmd.Stderr = io.MultiWriter(&stderr, os.Stderr)
		pipe, _ := cmd.StdoutPipe()
		if err := cmd.Start(); err != nil {
			out.Summary(map[string]interface{}{"infra_error": err.Error()})
			return
		}
		sc := bufio.NewScanner(pipe)
		sc.Buffer(make([]byte, 1<<20), 1<<26)
		at, done := from-1, false
		var atSched json.RawMessage
		for sc.Scan() {
			var rec map[string]json.RawMessage
			if json.Unmarshal(sc.Bytes(), &rec) != nil {
				continue
			}
			var kind string
			json.Unmarshal(rec["kind"], &kind)
			switch kind {
			case "progress":
				json.Unmarshal(rec["at"], &at)
				atSched = rec["sched"]
			case "summary":
				done = true
				for _, k := range []string{"behaviours", "generated", "steps", "nontrivial"} {
					var v float64
					json.Unmarshal(rec[k], &v)
					if k == "generated" {
						total[k] = v
					} else {
						total[k] += v
					}
				}
				if samples == nil {
					var sm interface{}
					json.Unmarshal(rec["samples"], &sm)
					samples = sm
				}
			default:
				os.Stdout.Write(append(append([]byte{}, sc.Bytes()...), '\n'))
			}
		}
		cmd.Wait()
		if done {
			break
		}
		// whose crash is it?  Only a goroutine that died inside go-imap is an observation about go-imap; anything
		// else (the harness itself, the runtime) is an infrastructure problem and never a verdict
		if !crashInLibrary(stderr.String()) {
			out.Summary(map[string]interface{}{"infra_error": fmt.Sprintf("the harness process died while re-enacting schedule #%d, not inside go-imap: %.600s", at, strings.TrimSpace(stderr.String()))})
			return
		}
		crashes++
		first := stderr.String()
		if i := strings.Index(first, "goroutine "); i > 0 {
			first = first[:i]
		}
		var sched interface{}
		json.Unmarshal(atSched, &sched)
		out.Mismatch("process-crash", fmt.Sprintf("the process died while re-enacting schedule #%d: %.300s", at, strings.TrimSpace(first)), sched)
		out.Flush()
		if crashes >= 5 {
			break
		}
		from = at + 1
	}
	out.Summary(map[string]interface{}{"behaviours": total["behaviours"], "generated": total["generated"], "steps": total["steps"],
		"nontrivial": total["nontrivial"], "samples": samples, "crashes": crashes})
}

// crashInLibrary: the goroutine that brought the process down (first stack after the last "panic:" /
// "fatal error:" line) has a go-imap frame.
func crashInLibrary(stderr string) bool {
	i := strings.LastIndex(stderr, "\npanic: ")
	if j := strings.LastIndex(stderr, "\nfatal error: "); j > i {
		i = j
	}
	if i < 0 {
		if strings.HasPrefix(stderr, "panic: ") || strings.HasPrefix(stderr, "fatal error: ") {
			i = 0
		} else {
			return false
		}
	}
	rest := stderr[i:]
	g := strings.Index(rest, "\ngoroutine ")
	if g < 0 {
		return false
	}
	stack := rest[g+1:]
	if e := strings.Index(stack, "\n\n"); e > 0 {
		stack = stack[:e]
	}
	return strings.Contains(stack, "github.com/emersion/go-imap/v2/")
}

func cmdSchedules(path string, stride int, seed int64, from int) {
	out := vh.NewOut()
	defer out.Flush()
	rng := rand.New(rand.NewSource(seed))
	n, run, nontriv, mis := 0, 0, 0, 0
	perSig := map[string]int{}
	var samples []interface{}
	err := vh.ReadTLines(path, func(b []byte) error {
		n++
		if stride > 1 && rng.Intn(stride) != 0 {
			return nil
		}
		if n-1 < from {
			return nil
		}
		var sched []schedEv
		if err := json.Unmarshal(b, &sched); err != nil {
			return err
		}
		out.Emit(map[string]interface{}{"kind": "progress", "at": n - 1, "sched": sched})
		out.Flush()
		run++
		lose := false
		for _, e := range sched {
			if e.E == "ccomp" {
				lose = true
			}
		}
		if lose {
			nontriv++
		}
		if mis >= 40 {
			return nil // the verdict is settled; do not spend a watchdog per remaining schedule
		}
		if v := runSchedule(sched); v != nil {
			perSig[v.sig]++
			if !strings.HasPrefix(v.sig, "send-on-closed-channel") {
				mis++ // reproductions of the modelled panic are cheap and counted separately
			}
			if perSig[v.sig] <= 5 {
				out.Mismatch(v.sig, v.detail, sched)
				out.Flush()
			}
		} else if lose && len(samples) < 2 {
			samples = append(samples, sched)
		}
		return nil
	})
	sum := map[string]interface{}{"behaviours": run, "generated": n, "steps": run, "nontrivial": nontriv, "samples": samples}
	if err != nil {
		sum["infra_error"] = err.Error()
	}
	out.Summary(sum)
}

// ---- stress: free-running goroutines, recorded hook log ----

func autoServer(w *world, stop chan struct{}, rng *rand.Rand, killAfter int) {
	// replies OK to every command; after killAfter commands closes the connection
	n := 0
	for {
		w.srv.SetReadDeadline(time.Now().Add(200 * time.Millisecond))
		line, err := w.br.ReadString('\n')
		select {
		case <-stop:
			return
		default:
		}
		if err != nil {
			if os.IsTimeout(err) {
				continue
			}
			return
		}
		tag := strings.SplitN(line, " ", 2)[0]
		if strings.HasSuffix(strings.TrimRight(line, "\r\n"), "}") && !strings.Contains(line, "+}") {
			// a synchronising literal: accept it, or (one time in three) refuse it with a tagged NO
			// instead of the continuation request - the client must not send the octets then
			if rng.Intn(3) == 0 {
				n++
				w.srv.Write([]byte(tag + " NO literal refused\r\n"))
				continue
			}
			w.srv.Write([]byte("+ go\r\n"))
			w.br.ReadString('\n')
		}
		n++
		if killAfter > 0 && n >= killAfter {
			w.srv.Close()
			return
		}
		if strings.Contains(line, " AUTHENTICATE ") {
			// no initial response: the credentials follow the continuation request
			w.srv.Write([]byte("+ \r\n"))
			w.br.ReadString('\n')
		}
		if strings.Contains(line, "FETCH") {
			w.srv.Write([]byte("* 1 FETCH (FLAGS (\\Seen))\r\n"))
		}
		if strings.Contains(line, "LIST") {
			w.srv.Write([]byte("* LIST () \"/\" a\r\n"))
		}
		if strings.Contains(line, " CAPABILITY") {
			w.srv.Write([]byte("* CAPABILITY IMAP4rev1\r\n"))
		}
		// the mirror of the selected mailbox changes under the feet of whoever holds a snapshot of it
		if strings.Contains(line, " SELECT") {
			w.srv.Write([]byte("* 9 EXISTS\r\n* FLAGS (\\Seen \\Deleted)\r\n* OK [PERMANENTFLAGS (\\Seen)] ok\r\n"))
		}
		if strings.Contains(line, " EXPUNGE") {
			w.srv.Write([]byte("* 1 EXPUNGE\r\n* 1 EXPUNGE\r\n"))
		}
		if strings.Contains(line, " NOOP") {
			switch rng.Intn(4) {
			case 0:
				w.srv.Write([]byte("* 1 EXPUNGE\r\n"))
			case 1:
				w.srv.Write([]byte("* 12 EXISTS\r\n* FLAGS (\\Seen custom)\r\n"))
			}
		}
		// (a LOGIN is answered without CAPABILITY code: the client forgets what it knew and asks again on its
		// own, while the other goroutines go on submitting commands)
		w.srv.Write([]byte(tag + " OK done\r\n"))
	}
}

// snapshots: sink for what the stress goroutines read from the snapshots Client.Mailbox() hands out
var snapshots int64

func cmdStress(path string, seed int64, rounds int) {
	out := vh.NewOut()
	defer out.Flush()
	f, err := os.Create(path)
	if err != nil {
		out.Summary(map[string]interface{}{"infra_error": err.Error()})
		return
	}
	defer f.Close()
	enc := json.NewEncoder(f)
	rng := rand.New(rand.NewSource(seed))
	records := 0
	for r := 0; r < rounds; r++ {
		w, err := newWorld(false)
		if err != nil {
			out.Summary(map[string]interface{}{"infra_error": err.Error()})
			return
		}
		stop := make(chan struct{})
		kill := 0
		mode := rng.Intn(3) // 0: clean, 1: server drops the connection, 2: user calls Close
		if mode == 1 {
			kill = 1 + rng.Intn(12)
		}
		if rng.Intn(3) == 0 {
			// writes that return late: the peer has read and answered by the time the writer goes on
			w.cli.SetWriteLinger(150 * time.Microsecond)
		}
		go autoServer(w, stop, rng, kill)
		var wg sync.WaitGroup
		var wmu sync.Mutex
		waits := map[string]int{}
		hung := 0
		ngo := 2 + rng.Intn(5)
		for g := 0; g < ngo; g++ {
			wg.Add(1)
			k := rng.Int63()
			go func(g int) {
				defer wg.Done()
				lr := rand.New(rand.NewSource(k))
				for i := 0; i < 4; i++ {
					done := make(chan struct{})
					go func() {
						defer close(done)
						switch lr.Intn(11) {
						case 10:
							// a blocking exchange of its own: command line, continuation request, response, completion
							w.cl.Authenticate(sasl.NewPlainClient("", "u", "p"))
						case 8:
							w.cl.Select("m", nil).Wait()
						case 9:
							w.cl.Expunge().Collect()
						case 7:
							w.cl.Login("u", "p").Wait()
						case 5:
							// literal-bearing, streaming its octets: encMutex is held from the command line
							// until the literal has been written or refused
							cmd := w.cl.Append("m", 5, nil)
							cmd.Write([]byte("hello"))
							cmd.Close()
							cmd.Wait()
						case 6:
							// literal-bearing string argument (8-bit: cannot be quoted)
							w.cl.Search(&imap.SearchCriteria{Body: []string{"h\u00e9llo"}}, nil).Wait()
						case 0:
							w.cl.Noop().Wait()
						case 1:
							w.cl.Status("m", &imap.StatusOptions{NumMessages: true}).Wait()
						case 2:
							w.cl.List("", "*", nil).Collect()
						case 3:
							var set imap.SeqSet
							set.AddNum(1)
							w.cl.Fetch(set, &imap.FetchOptions{Flags: true}).Collect()
						case 4:
							w.cl.Caps()
							w.cl.State()
							// what Mailbox returns is a snapshot: reading it must not meet the reader's updates
							if m := w.cl.Mailbox(); m != nil {
								atomic.AddInt64(&snapshots, int64(m.NumMessages)+int64(len(m.Flags))+int64(len(m.PermanentFlags))+int64(len(m.Name)))
							}
						}
					}()
					select {
					case <-done:
					case <-time.After(5 * time.Second):
						wmu.Lock()
						hung++
						wmu.Unlock()
						return
					}
				}
			}(g)
		}
		if mode == 2 {
			time.Sleep(time.Duration(rng.Intn(300)) * time.Microsecond)
			vh.Within(3*time.Second, func() { w.cl.Close() })
		}
		wg.Wait()
		close(stop)
		_ = waits
		// the client is closed first: commands the client issues on its own (the CAPABILITY after a LOGIN) may
		// still be in flight when the callers are done, and Close completes whatever is pending
		w.shutdownKeepHook()
		// ... and a goroutine of the client itself may be in the middle of such a command right now (it fails on
		// the closed connection within microseconds): the log is taken once every registered command has been
		// completed, or after half a second (then the missing completion is what the log shows)
		var log []hookEv
		for deadline := time.Now().Add(500 * time.Millisecond); ; time.Sleep(200 * time.Microsecond) {
			w.mu.Lock()
			log = append([]hookEv(nil), w.log...)
			w.mu.Unlock()
			reg, comp := map[string]bool{}, map[string]bool{}
			for _, e := range log {
				switch e.Point {
				case "begin.registered":
					reg[e.Tag] = true
				case "complete":
					comp[e.Tag] = true
				}
			}
			all := true
			for t := range reg {
				all = all && comp[t]
			}
			if all || time.Now().After(deadline) {
				break
			}
		}
		w.unhook()
		// the hooks carry no client: an event is attributed to the world that is current when it fires.  A goroutine of
		// THIS client that is still on its way (the CAPABILITY command the client issues on its own) must be gone
		// before the next world starts, or its events - with tags the next world uses as well - end up in that world's
		// log (seen once in 1500 rounds of the thorough tier: "T18 completed twice")
		for deadline := time.Now().Add(2 * time.Second); time.Now().Before(deadline); time.Sleep(100 * time.Microsecond) {
			buf := make([]byte, 1<<20)
			if !bytes.Contains(buf[:runtime.Stack(buf, true)], []byte("go-imap/v2/imapclient.")) {
				break
			}
		}
		enc.Encode(map[string]interface{}{"ev": "Reset", "mode": mode})
		records++
		for _, e := range log {
			enc.Encode(map[string]interface{}{"ev": "Hook", "point": e.Point, "tag": e.Tag, "proc": e.Proc})
			records++
		}
		enc.Encode(map[string]interface{}{"ev": "End", "hung": hung})
		records++
		if hung > 0 {
			out.Mismatch("stuck/stress", fmt.Sprintf("%d API calls did not return within 5 s (round %d, mode %d)", hung, r, mode), nil)
		}
		if v := checkLog(log); v != nil {
			out.Mismatch(v.sig, v.detail+fmt.Sprintf(" (stress round %d)", r), nil)
		}
	}
	out.Summary(map[string]interface{}{"traces": rounds, "records": records})
}

func main() {
	if len(os.Args) < 3 {
		fmt.Fprintln(os.Stderr, "usage: clientconc schedules|stress <file> [flags]")
		os.Exit(2)
	}
	imapclient.VerifHook = hook
	fs := flag.NewFlagSet(os.Args[1], flag.ExitOnError)
	seed := fs.Int64("seed", 1, "")
	stride := fs.Int("stride", 1, "")
	rounds := fs.Int("rounds", 200, "")
	from := fs.Int("from", 0, "")
	fs.Parse(os.Args[3:])
	switch os.Args[1] {
	case "schedules":
		cmdSchedulesSupervised(os.Args[2], *stride, *seed)
	case "schedules-child":
		cmdSchedules(os.Args[2], *stride, *seed, *from)
	case "stress":
		cmdStress(os.Args[2], *seed, *rounds)
	}
}
