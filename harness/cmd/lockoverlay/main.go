// Command lockoverlay generates, from the go-imap WORKING TREE, instrumented
// copies of every non-test source file of the packages imapserver and
// imapserver/imapmemserver in which each sync.Mutex / sync.RWMutex
// Lock / Unlock / RLock / RUnlock call is replaced by a call of a wrapper
// (imapserver.VerifLock & co, defined in an injected file) that reports
//
//	(op, owner object, mutex pointer, field name, call site)
//
// to a hook variable.  The result is an overlay.json for `go build -overlay`;
// nothing is written into the repository.
//
//	lockoverlay <repo> <outdir>      prints one JSON summary line
//
// The rewrite is a byte splice on the original text (same line numbers, so
// goroutine dumps of the instrumented binary point at the real source lines).
// It is deliberately conservative: every call of a method named Lock, Unlock,
// RLock, RUnlock, TryLock, TryRLock in the two packages must be recognised as
// a call on a struct field (or package/local variable) declared with type
// sync.Mutex / sync.RWMutex; anything else (embedded mutex, mutex reached
// through an interface, TryLock, sync.Cond) makes the program fail, because the
// mined lock model would silently miss it.
package main

import (
	"encoding/json"
	"fmt"
	"go/ast"
	"go/parser"
	"go/token"
	"os"
	"path/filepath"
	"sort"
	"strings"
)

var pkgs = []string{"imapserver", "imapserver/imapmemserver"}

const hookSrc = `// Code injected by /verif/harness/cmd/lockoverlay (go build -overlay); not part of go-imap.
package imapserver

import "sync"

// VerifLockHook, when non-nil, is told about every mutex operation of the
// packages imapserver and imapserver/imapmemserver.  It must be set before
// the first connection is served and never changed afterwards (it is read
// without synchronisation on purpose: the hook must not add happens-before
// edges of its own when it is nil or a pass-through).
//
// op: "want" (before Lock; may block = gate), "acq" (right after Lock
// returned), "rel" (right before Unlock); "rwant"/"racq"/"rrel" for
// RLock/RUnlock.
var VerifLockHook func(op string, owner interface{}, mu interface{}, field, site string)

func VerifLock(owner interface{}, mu sync.Locker, field, site string) {
	h := VerifLockHook
	if h == nil {
		mu.Lock()
		return
	}
	h("want", owner, mu, field, site)
	mu.Lock()
	h("acq", owner, mu, field, site)
}

func VerifUnlock(owner interface{}, mu sync.Locker, field, site string) {
	if h := VerifLockHook; h != nil {
		h("rel", owner, mu, field, site)
	}
	mu.Unlock()
}

func VerifRLock(owner interface{}, mu *sync.RWMutex, field, site string) {
	h := VerifLockHook
	if h == nil {
		mu.RLock()
		return
	}
	h("rwant", owner, mu, field, site)
	mu.RLock()
	h("racq", owner, mu, field, site)
}

func VerifRUnlock(owner interface{}, mu *sync.RWMutex, field, site string) {
	if h := VerifLockHook; h != nil {
		h("rrel", owner, mu, field, site)
	}
	mu.RUnlock()
}
`

type edit struct {
	start, end int
	text       string
}

type site struct {
	File  string `json:"file"`
	Line  int    `json:"line"`
	Func  string `json:"func"`
	Field string `json:"field"`
	Op    string `json:"op"`
}

func fail(f string, a ...interface{}) {
	fmt.Fprintf(os.Stderr, "lockoverlay: "+f+"\n", a...)
	os.Exit(3)
}

func isSyncType(e ast.Expr) string {
	if s, ok := e.(*ast.SelectorExpr); ok {
		if x, ok := s.X.(*ast.Ident); ok && x.Name == "sync" {
			return s.Sel.Name
		}
	}
	return ""
}

func main() {
	if len(os.Args) != 3 {
		fail("usage: lockoverlay <repo> <outdir>")
	}
	repo, outdir := os.Args[1], os.Args[2]
	if err := os.MkdirAll(outdir, 0o755); err != nil {
		fail("%v", err)
	}
	fset := token.NewFileSet()
	type pf struct {
		pkg, path string
		src       []byte
		f         *ast.File
	}
	var files []pf
	mutexFields := map[string]string{} // field / variable name -> Mutex | RWMutex
	structs := map[string][]string{}   // "pkg.Struct" -> mutex fields
	for _, p := range pkgs {
		dir := filepath.Join(repo, p)
		ents, err := os.ReadDir(dir)
		if err != nil {
			fail("%v", err)
		}
		for _, e := range ents {
			n := e.Name()
			if e.IsDir() || !strings.HasSuffix(n, ".go") || strings.HasSuffix(n, "_test.go") {
				continue
			}
			path := filepath.Join(dir, n)
			src, err := os.ReadFile(path)
			if err != nil {
				fail("%v", err)
			}
			f, err := parser.ParseFile(fset, path, src, parser.ParseComments)
			if err != nil {
				fail("parse %s: %v", path, err)
			}
			files = append(files, pf{p, path, src, f})
		}
	}
	// pass 1: where do mutexes live
	for _, x := range files {
		ast.Inspect(x.f, func(n ast.Node) bool {
			switch d := n.(type) {
			case *ast.TypeSpec:
				st, ok := d.Type.(*ast.StructType)
				if !ok {
					return true
				}
				for _, fl := range st.Fields.List {
					t := fl.Type
					if s, ok := t.(*ast.StarExpr); ok {
						t = s.X
					}
					k := isSyncType(t)
					if k != "Mutex" && k != "RWMutex" {
						if k == "Cond" {
							fail("%s: struct %s uses sync.Cond (not modelled)", fset.Position(fl.Pos()), d.Name.Name)
						}
						continue
					}
					if len(fl.Names) == 0 {
						fail("%s: struct %s embeds sync.%s: calls cannot be recognised syntactically", fset.Position(fl.Pos()), d.Name.Name, k)
					}
					for _, nm := range fl.Names {
						if old, dup := mutexFields[nm.Name]; dup && old != k {
							fail("field name %s is both Mutex and RWMutex", nm.Name)
						}
						mutexFields[nm.Name] = k
						key := filepath.Base(x.pkg) + "." + d.Name.Name
						structs[key] = append(structs[key], nm.Name)
					}
				}
			case *ast.ValueSpec:
				if d.Type != nil {
					if k := isSyncType(d.Type); k == "Mutex" || k == "RWMutex" {
						for _, nm := range d.Names {
							mutexFields[nm.Name] = k
						}
					}
				}
			}
			return true
		})
	}
	// pass 2: rewrite
	replace := map[string]string{}
	var sites []site
	for _, x := range files {
		var edits []edit
		prefix := "imapserver."
		if x.pkg == "imapserver" {
			prefix = ""
		}
		base := filepath.Base(x.path)
		importsServer := x.pkg == "imapserver"
		for _, im := range x.f.Imports {
			if strings.Trim(im.Path.Value, `"`) == "github.com/emersion/go-imap/v2/imapserver" && im.Name == nil {
				importsServer = true
			}
		}
		for _, decl := range x.f.Decls {
			fd, ok := decl.(*ast.FuncDecl)
			fname := "init"
			if ok {
				fname = fd.Name.Name
				if fd.Recv != nil && len(fd.Recv.List) == 1 {
					t := fd.Recv.List[0].Type
					if s, ok := t.(*ast.StarExpr); ok {
						t = s.X
					}
					if id, ok := t.(*ast.Ident); ok {
						fname = id.Name + "." + fname
					}
				}
			}
			ast.Inspect(decl, func(n ast.Node) bool {
				call, ok := n.(*ast.CallExpr)
				if !ok {
					return true
				}
				sel, ok := call.Fun.(*ast.SelectorExpr)
				if !ok {
					return true
				}
				m := sel.Sel.Name
				switch m {
				case "Lock", "Unlock", "RLock", "RUnlock", "TryLock", "TryRLock":
				default:
					return true
				}
				pos := fset.Position(call.Pos())
				if len(call.Args) != 0 {
					return true // not a sync method
				}
				if m == "TryLock" || m == "TryRLock" {
					fail("%s: %s is not modelled", pos, m)
				}
				var field, owner string
				switch r := sel.X.(type) {
				case *ast.SelectorExpr:
					field = r.Sel.Name
					owner = string(x.src[fset.Position(r.X.Pos()).Offset:fset.Position(r.X.End()).Offset])
				case *ast.Ident:
					field = r.Name
					owner = "nil"
				default:
					fail("%s: cannot recognise the receiver of %s()", pos, m)
				}
				kind, known := mutexFields[field]
				if !known {
					fail("%s: %s() on %q which is not a known sync.Mutex/RWMutex field of these packages", pos, m, field)
				}
				if (m == "RLock" || m == "RUnlock") && kind != "RWMutex" {
					fail("%s: %s on a sync.Mutex", pos, m)
				}
				if !importsServer {
					fail("%s: file does not import imapserver; cannot call the wrapper", pos)
				}
				recv := string(x.src[fset.Position(sel.X.Pos()).Offset:fset.Position(sel.X.End()).Offset])
				st := fmt.Sprintf("%s:%d:%s", base, pos.Line, fname)
				w := map[string]string{"Lock": "VerifLock", "Unlock": "VerifUnlock", "RLock": "VerifRLock", "RUnlock": "VerifRUnlock"}[m]
				txt := fmt.Sprintf("%s%s(%s, &%s, %q, %q)", prefix, w, owner, recv, field, st)
				edits = append(edits, edit{pos.Offset, fset.Position(call.End()).Offset, txt})
				sites = append(sites, site{base, pos.Line, fname, field, m})
				return true
			})
		}
		if len(edits) == 0 {
			continue
		}
		sort.Slice(edits, func(i, j int) bool { return edits[i].start < edits[j].start })
		var out []byte
		last := 0
		for _, e := range edits {
			if e.start < last {
				fail("%s: overlapping lock calls", x.path)
			}
			out = append(out, x.src[last:e.start]...)
			out = append(out, e.text...)
			last = e.end
		}
		out = append(out, x.src[last:]...)
		dst := filepath.Join(outdir, strings.ReplaceAll(x.pkg, "/", "_")+"_"+base)
		if err := os.WriteFile(dst, out, 0o644); err != nil {
			fail("%v", err)
		}
		replace[x.path] = dst
	}
	hook := filepath.Join(outdir, "verif_lockhook.go")
	if err := os.WriteFile(hook, []byte(hookSrc), 0o644); err != nil {
		fail("%v", err)
	}
	replace[filepath.Join(repo, "imapserver", "verif_lockhook.go")] = hook
	ov := filepath.Join(outdir, "overlay.json")
	b, _ := json.Marshal(map[string]interface{}{"Replace": replace})
	if err := os.WriteFile(ov, b, 0o644); err != nil {
		fail("%v", err)
	}
	sum, _ := json.Marshal(map[string]interface{}{"kind": "summary", "overlay": ov, "files": len(replace) - 1,
		"sites": len(sites), "structs": structs, "site_list": sites})
	fmt.Println(string(sum))
}
