// Command framing binds spec/ServerFraming.tla to imapserver's command reader
// (property C04): it executes unit sequences (commands whose string argument
// is a quoted string / synchronising / non-synchronising literal of several
// size classes, with benign or command-like payloads) against a real server,
// playing the client side of the literal protocol mechanically, and records
// what the server did; ServerFramingTrace judges the record.  Independently of
// the specification, any sign that payload octets were executed as a command
// (a response carrying a tag that only occurs inside a payload, a backend call
// with the marker argument) is reported directly.
//
//	framing run <tlc-output> <out.ndjson>     execute TLC-generated unit sequences
//	framing random <out.ndjson>               random long unit streams, random write segmentation
//	framing one <case.json> <out.ndjson>      execute one sequence
package main

import (
	"bytes"
	"encoding/json"
	"flag"
	"fmt"
	"math/rand"
	"os"
	"strings"
	"sync"
	"sync/atomic"
	"time"

	"github.com/emersion/go-imap/v2"
	"github.com/emersion/go-imap/v2/imapserver"

	"verif/harness/vh"
)

type unit struct {
	Cmd     string `json:"cmd"`
	Form    string `json:"form"`
	Size    string `json:"size"`
	Payload string `json:"payload"`
	Pad     string `json:"pad"`
}

// padLens are the concrete lengths of the junk in front of the literal header of a "long" rejected line:
// every position of the header relative to the first two boundaries of the server's 4096-byte read buffer.
var (
	padLens []int
	padNext int64
)

func init() {
	for _, b := range []int{4096, 8192} {
		for d := -48; d <= 8; d++ {
			padLens = append(padLens, b+d)
		}
	}
}

func (u unit) pre() (string, string) {
	pre, post := prePost(u.Cmd)
	if u.Pad == "long" {
		n := padLens[int(atomic.AddInt64(&padNext, 1)-1)%len(padLens)]
		pre += strings.Repeat("x", n) + " "
	}
	return pre, post
}

type startT struct {
	LitPlus bool   `json:"litplus"`
	State   string `json:"state"`
	Utf8    bool   `json:"utf8"` // the client enables UTF8=ACCEPT first (only on an authenticated connection)
	Sasl    bool   `json:"sasl"` // the session has its own SASL mechanisms (PLAIN, XTEST, XFINAL)
}

type caseT struct {
	Start startT `json:"start"`
	Units []unit `json:"units"`
}

type obsT struct {
	Tagged string `json:"tagged"`
	Cont   int    `json:"cont"`
	Call   string `json:"call"`
}

const smuggleText = "zz9 CREATE smuggled\r\nzz8 NOOP\r\ny"

func payloadBytes(u unit) (data []byte, announced int64) {
	var base string
	if u.Payload == "smuggle" {
		base = smuggleText
	} else {
		base = "hello"
	}
	switch u.Size {
	case "small":
		return []byte(base), int64(len(base))
	case "big":
		b := []byte(base)
		b = append(b, bytes.Repeat([]byte("a"), 5000-len(b))...)
		return b, 5000
	default: // huge: only announced, never sent in full
		return []byte(base), 104857601
	}
}

func prePost(cmd string) (string, string) {
	switch cmd {
	case "LOGIN-user":
		return "LOGIN ", " p"
	case "LOGIN-pass":
		return "LOGIN u ", ""
	case "CREATE":
		return "CREATE ", ""
	case "RENAME-new":
		return "RENAME m ", ""
	case "LIST-pat":
		return `LIST "" `, ""
	case "SEARCH-str":
		return "SEARCH SUBJECT ", ""
	case "FETCH-hdr":
		return "FETCH 1 BODY.PEEK[HEADER.FIELDS (", ")]"
	case "APPEND":
		return "APPEND m ", ""
	case "APPEND-fail":
		return "APPEND mfail ", ""
	case "APPEND-panic":
		return "APPEND mpanic ", ""
	case "NOOP-lit":
		return "NOOP ", ""
	case "XUNK-lit":
		return "XYZZY ", ""
	case "TAG-lit":
		return "", ""
	case "UID-lit":
		return "UID ", ""
	}
	panic("unknown unit " + cmd)
}

type srvT struct {
	srv *imapserver.Server
	ln  *vh.Listener
	reg *vh.Registry
	log *vh.LogBuf
}

var (
	srvMu   sync.Mutex
	servers = map[startT]*srvT{}
)

func getServer(st startT) *srvT {
	srvMu.Lock()
	defer srvMu.Unlock()
	if s, ok := servers[st]; ok {
		return s
	}
	s := &srvT{reg: &vh.Registry{}, ln: vh.NewListener(), log: vh.NewLogBuf()}
	caps := imap.CapSet{imap.CapIMAP4rev1: {}}
	if st.LitPlus {
		caps[imap.CapLiteralPlus] = struct{}{}
	}
	s.srv = imapserver.New(&imapserver.Options{
		Caps: caps, InsecureAuth: true, Logger: s.log,
		NewSession: func(c *imapserver.Conn) (imapserver.Session, *imapserver.GreetingData, error) {
			if st.Sasl {
				return s.reg.Get(c).(*vh.ScriptSession).WrapSASL(false), &imapserver.GreetingData{PreAuth: st.State == "auth"}, nil
			}
			return s.reg.Get(c).(*vh.ScriptSession), &imapserver.GreetingData{PreAuth: st.State == "auth"}, nil
		},
	})
	go s.srv.Serve(s.ln)
	servers[st] = s
	return s
}

type peer struct {
	origin *unit // most recent unit that carried literal octets
	conn   *vh.Conn
	sc     *vh.Conn
	raw    *vh.Raw
	stub   *vh.ScriptSession
	srv    *srvT
	rng    *rand.Rand // nil: single writes
}

func dial(st startT) (*peer, error) {
	s := getServer(st)
	p := &peer{srv: s, stub: &vh.ScriptSession{EchoFetch: true}}
	c, sc, err := s.ln.Dial2(func(server *vh.Conn) { s.reg.Put(server, p.stub) })
	if err != nil {
		return nil, err
	}
	p.conn, p.sc, p.raw = c, sc, vh.NewRaw(c)
	if _, err := p.raw.ReadResp(); err != nil {
		return nil, fmt.Errorf("greeting: %v", err)
	}
	if st.State == "auth" {
		if st.Utf8 {
			if _, t, err := p.raw.Cmd("ENABLE UTF8=ACCEPT"); err != nil || t.Name != "OK" {
				return nil, fmt.Errorf("ENABLE failed: %v", err)
			}
		}
		if _, t, err := p.raw.Cmd("SELECT m"); err != nil || t.Name != "OK" {
			return nil, fmt.Errorf("initial SELECT failed: %v", err)
		}
	}
	return p, nil
}

func (p *peer) close() { p.conn.Close(); p.srv.reg.Drop(p.sc) }

// send writes b, optionally split into random segments.
func (p *peer) send(b []byte) {
	if p.rng == nil || len(b) < 2 {
		p.conn.Write(b)
		return
	}
	for len(b) > 0 {
		n := 1 + p.rng.Intn(len(b))
		if p.rng.Intn(3) == 0 && n > 8 {
			n = 1 + p.rng.Intn(8)
		}
		p.conn.Write(b[:n])
		b = b[n:]
		if p.rng.Intn(2) == 0 {
			time.Sleep(time.Duration(p.rng.Intn(50)) * time.Microsecond)
		}
	}
}

type result struct {
	Obs     obsT
	Closed  bool
	Stall   bool
	Smuggle string // non-empty: payload octets were executed
	Bad     string // malformed server output
	Lost    string // a command pipelined behind a continuation answer was not answered (or not with OK)
}

// wait reads until a tagged response for tag, a continuation request (if
// stopAtCont), EOF or timeout.
// After a number of confirmed stalls the verdict is settled; later waits are
// shortened so that a broken tree does not make the run take hours.
var stallCount int64

func (p *peer) wait(tag string, stopAtCont bool, first, total time.Duration, res *result) (gotTagged, gotCont, eof, timeout bool) {
	if atomic.LoadInt64(&stallCount) > 20 && total > 300*time.Millisecond {
		first, total = 300*time.Millisecond, 300*time.Millisecond
	}
	defer func() {
		if timeout {
			atomic.AddInt64(&stallCount, 1)
		}
	}()
	deadline := time.Now().Add(total)
	p.raw.Timeout = first
	for {
		r, err := p.raw.ReadResp()
		if err != nil {
			if os.IsTimeout(err) {
				if time.Now().Before(deadline) {
					p.raw.Timeout = time.Until(deadline)
					if r != nil && r.Raw != "" {
						res.Bad = "partial line then silence: " + r.Raw
					}
					continue
				}
				return false, false, false, true
			}
			if r != nil && r.Raw != "" {
				res.Bad = "truncated output before close: " + fmt.Sprintf("%q", r.Raw)
			}
			return false, false, true, false
		}
		if r.Malformed != "" {
			res.Bad = fmt.Sprintf("malformed response %q: %s", r.Raw, r.Malformed)
		}
		switch {
		case r.Tag == "zz9" || r.Tag == "zz8":
			res.Smuggle = "response to a tag that only occurs inside a literal payload: " + strings.TrimSpace(r.Raw)
		case r.Tag == "+":
			res.Obs.Cont++
			if stopAtCont {
				return false, true, false, false
			}
		case r.Tag == tag:
			if r.Name == "OK" {
				res.Obs.Tagged = "OK"
			} else {
				res.Obs.Tagged = "NOTOK"
			}
			return true, false, false, false
		case r.Tag != "*":
			res.Smuggle = "response to a tag no command carried (payload octets parsed as a command): " + fmt.Sprintf("%.80q", r.Raw)
		}
	}
}

func (p *peer) runUnit(u unit) *result {
	res := &result{Obs: obsT{Tagged: "NONE", Call: "none"}}
	p.stub.Begin(0)
	tag := p.raw.NextTag()
	ptag := "" // tag of a NOOP pipelined behind the line that answers a continuation request
	var payload []byte
	switch u.Cmd {
	case "NOOP":
		p.send([]byte(tag + " NOOP\r\n"))
	case "AUTH-CANCEL", "IDLE", "AUTH-FINAL":
		line := "AUTHENTICATE PLAIN"
		if u.Cmd == "IDLE" {
			line = "IDLE"
		} else if u.Cmd == "AUTH-FINAL" {
			line = "AUTHENTICATE XFINAL eA=="
		}
		p.send([]byte(tag + " " + line + "\r\n"))
		gotT, gotC, eof, to := p.wait(tag, true, 500*time.Millisecond, 3*time.Second, res)
		if gotC {
			// the line that answers the continuation request is followed, in the same write, by the next command: a
			// server that reads ahead while it waits for that line must not lose what lies behind it
			ptag = p.raw.NextTag()
			next := ptag + " NOOP\r\n"
			switch u.Cmd {
			case "IDLE":
				p.send([]byte("DONE\r\n" + next))
			case "AUTH-FINAL":
				p.send([]byte("\r\n" + next)) // the client's (empty) answer to the final server data
			default:
				p.send([]byte("*\r\n" + next))
			}
		} else {
			res.Closed, res.Stall = eof, to
			_ = gotT
			p.finish(u, nil, res)
			return res
		}
	default:
		pre, post := u.pre()
		data, announced := payloadBytes(u)
		payload = data
		switch u.Form {
		case "quoted":
			p.send([]byte(tag + " " + pre + `"` + string(data) + `"` + post + "\r\n"))
		case "sync":
			p.send([]byte(fmt.Sprintf("%s %s{%d}\r\n", tag, pre, announced)))
			gotT, gotC, eof, to := p.wait(tag, true, 500*time.Millisecond, 3*time.Second, res)
			if !gotC {
				res.Closed, res.Stall = eof, to
				_ = gotT
				p.finish(u, payload, res)
				return res
			}
			// the server asked for the octets: send them (for "huge" the server must not have asked)
			p.send(append(append([]byte{}, data...), []byte(post+"\r\n")...))
		case "nonsync":
			b := []byte(fmt.Sprintf("%s %s{%d+}\r\n", tag, pre, announced))
			b = append(b, data...)
			b = append(b, []byte(post+"\r\n")...)
			p.send(b)
		}
	}
	first, total := 500*time.Millisecond, 3*time.Second
	if u.Size == "huge" && u.Form == "nonsync" {
		// a conforming server may legitimately stay silent (it waits for octets we never send)
		first, total = 300*time.Millisecond, 300*time.Millisecond
	}
	gotMain, _, eof, to := p.wait(tag, false, first, total, res)
	res.Closed = eof
	if to && !(u.Size == "huge" && u.Form == "nonsync") {
		res.Stall = true
	}
	if ptag != "" && gotMain {
		r2 := &result{Obs: obsT{Tagged: "NONE", Call: "none"}}
		if g2, _, eof2, _ := p.wait(ptag, false, 500*time.Millisecond, 3*time.Second, r2); !g2 {
			res.Lost = "the command pipelined behind the line that answered the continuation request was never answered"
			res.Closed = res.Closed || eof2
		} else if r2.Obs.Tagged != "OK" {
			res.Lost = "the NOOP pipelined behind the line that answered the continuation request was answered " + r2.Obs.Tagged
		}
	}
	p.finish(u, payload, res)
	return res
}

func argStrings(c vh.CallRec) []string {
	var out []string
	switch a := c.Args.(type) {
	case string:
		out = append(out, a)
	case []string:
		out = append(out, a...)
	case []interface{}:
		for _, x := range a {
			switch v := x.(type) {
			case string:
				out = append(out, v)
			case []string:
				out = append(out, v...)
			case *imap.SearchCriteria:
				if v != nil {
					for _, h := range v.Header {
						out = append(out, h.Value)
					}
				}
			case *imap.FetchOptions:
				if v != nil {
					for _, sec := range v.BodySection {
						out = append(out, sec.HeaderFields...)
					}
				}
			}
		}
	}
	return out
}

// finish classifies the backend calls of the unit.
func (p *peer) finish(u unit, payload []byte, res *result) {
	if res.Closed {
		// after EOF the server side is done; give it a moment to finish logging calls
		time.Sleep(200 * time.Microsecond)
	}
	for _, c := range p.stub.Calls() {
		args := argStrings(c)
		hit := false
		for _, a := range args {
			if payload != nil && u.Form != "quoted" && a == string(payload) {
				hit = true
			} else if payload != nil && u.Form == "quoted" && a == string(payload) {
				hit = true
			} else if strings.Contains(a, "smuggled") && a != string(payload) {
				res.Smuggle = fmt.Sprintf("backend call %s with an argument taken from inside a literal payload: %q", c.M, a)
			}
		}
		switch {
		case hit:
			res.Obs.Call = "payload"
		case res.Obs.Call == "none":
			res.Obs.Call = "plain"
		}
	}
	// a well-formed command whose argument did not arrive intact is not "payload"
	if res.Obs.Call == "plain" && u.Cmd != "IDLE" && u.Cmd != "NOOP" && u.Cmd != "AUTH-CANCEL" && u.Cmd != "AUTH-FINAL" &&
		u.Cmd != "APPEND-fail" && u.Cmd != "APPEND-panic" {
		res.Obs.Call = "altered"
	}
}

func sigOf(kind string, u unit) string {
	return fmt.Sprintf("%s/%s/%s/%s", kind, u.Cmd, u.Form, u.Size)
}

// runCase executes a unit sequence, writes records, reports direct violations.
func runCase(cs *caseT, enc *json.Encoder, emu *sync.Mutex, out *vh.Out, rng *rand.Rand) (units int, infra error) {
	p, err := dial(cs.Start)
	if err != nil {
		return 0, err
	}
	defer p.close()
	p.rng = rng
	var recs []interface{}
	recs = append(recs, map[string]interface{}{"ev": "Reset", "litplus": cs.Start.LitPlus, "state": cs.Start.State, "utf8": cs.Start.Utf8, "sasl": cs.Start.Sasl})
	alive := true
	for i, u := range cs.Units {
		if !alive {
			break
		}
		if u.Form == "sync" || u.Form == "nonsync" {
			uu := u
			p.origin = &uu
		}
		if i > 0 && (u.Cmd == "TAG-lit" || u.Cmd == "UID-lit") {
			// a line without a command name is one the server may answer by closing without a word: whether a close
			// seen then is that answer or a late sign of the previous unit must be settled BEFORE the line is sent -
			// the server has either closed by now, or it has read everything and waits for more
			for k := 0; k < 20000 && !p.conn.PeerClosed() && !p.conn.PeerBlockedInRead(); k++ {
				time.Sleep(50 * time.Microsecond)
			}
			if p.conn.PeerClosed() {
				recs[len(recs)-1].(map[string]interface{})["closed"] = true
				alive = false
				break
			}
		}
		res := p.runUnit(u)
		units++
		cut := caseT{Start: cs.Start, Units: cs.Units[:i+1]}
		if u.Size == "huge" && u.Form == "nonsync" && !res.Closed {
			// Give the server a moment: a conforming one stays silent (it waits for octets that
			// never come) or closes; one that wrongly executes the payload shows it now.
			r2 := &result{Obs: obsT{Tagged: "NONE", Call: "none"}}
			_, _, eof, _ := p.wait("never", false, 100*time.Millisecond, 100*time.Millisecond, r2)
			p.finish(u, nil, r2)
			res.Closed = eof
			if r2.Smuggle != "" {
				res.Smuggle = r2.Smuggle
			}
		}
		if res.Smuggle != "" {
			o := u
			if p.origin != nil {
				o = *p.origin
			}
			out.Mismatch(sigOf("smuggle", o), res.Smuggle, cut)
		}
		if res.Bad != "" {
			out.Mismatch(sigOf("malformed-output", u), res.Bad, cut)
		}
		if res.Lost != "" {
			out.Mismatch(sigOf("pipelined-lost", u), res.Lost, cut)
		}
		if res.Stall {
			out.Mismatch(sigOf("stall", u), "no tagged completion and no continuation request within 3 s while the connection stays open", cut)
		}
		// (a line without a command name is one the server may answer by closing without a word: that close is the
		// reaction to this unit, not a late sign of the previous one)
		if res.Closed && res.Obs.Tagged == "NONE" && res.Obs.Cont == 0 && res.Obs.Call == "none" && i > 0 && res.Smuggle == "" &&
			u.Cmd != "TAG-lit" && u.Cmd != "UID-lit" {
			// EOF before a single byte of reaction: the server closed the connection after
			// answering the previous unit (the close became visible only now)
			recs[len(recs)-1].(map[string]interface{})["closed"] = true
			alive = false
			units--
			break
		}
		recs = append(recs, map[string]interface{}{"ev": "Unit", "u": u, "obs": res.Obs, "closed": res.Closed, "stall": res.Stall, "bad": res.Bad})
		if res.Closed || res.Stall || (u.Size == "huge" && u.Form == "nonsync" && res.Obs.Tagged == "NONE") {
			alive = false
		}
		if u.Size == "huge" && u.Form == "nonsync" {
			// whatever the server chose, the announced octets never arrive: stop here
			alive = false
		}
		if alive && (u.Cmd == "LOGIN-user" || u.Cmd == "LOGIN-pass" || u.Cmd == "AUTH-FINAL") && res.Obs.Tagged == "OK" {
			// the model's "auth" is the selected state
			if _, t, err := p.raw.Cmd("SELECT m"); err != nil || t.Name != "OK" {
				// the stream is out of step: after a successful authentication the server does not answer a
				// plain SELECT - something that was no command has been taken for one, or the connection is gone
				why := "no tagged OK"
				if err != nil {
					why = err.Error()
				} else if t != nil {
					why = strings.TrimSpace(t.Raw)
				}
				out.Mismatch(sigOf("out-of-step", u), "after the unit was answered OK the server does not answer a plain SELECT: "+why, cut)
				alive = false
			}
		}
	}
	if alive {
		// framing still in sync: a final NOOP gets its own tagged OK
		res := p.runUnit(unit{Cmd: "NOOP", Form: "none", Size: "small", Payload: "benign", Pad: "short"})
		if res.Closed && res.Obs.Tagged == "NONE" && len(recs) > 1 && res.Smuggle == "" {
			recs[len(recs)-1].(map[string]interface{})["closed"] = true
		} else {
			recs = append(recs, map[string]interface{}{"ev": "Unit", "u": unit{"NOOP", "none", "small", "benign", "short"}, "obs": res.Obs, "closed": res.Closed, "stall": res.Stall, "bad": res.Bad})
		}
		if res.Smuggle != "" && p.origin != nil {
			out.Mismatch(sigOf("smuggle", *p.origin), res.Smuggle, cs)
		}
	}
	emu.Lock()
	for _, r := range recs {
		enc.Encode(r)
	}
	emu.Unlock()
	return units, nil
}

func main() {
	if len(os.Args) < 3 {
		fmt.Fprintln(os.Stderr, "usage: framing run|random|one ...")
		os.Exit(2)
	}
	mode := os.Args[1]
	out := vh.NewOut()
	defer out.Flush()
	switch mode {
	case "run", "one":
		in, outp := os.Args[2], os.Args[3]
		f, err := os.Create(outp)
		if err != nil {
			fmt.Fprintln(os.Stderr, err)
			os.Exit(2)
		}
		defer f.Close()
		enc := json.NewEncoder(f)
		var emu sync.Mutex
		seen := map[string]bool{}
		jobs := make(chan *caseT, 256)
		var wg sync.WaitGroup
		var mu sync.Mutex
		nCases, nUnits, nRefused := 0, 0, 0
		var infra string
		var samples []interface{}
		for i := 0; i < 16; i++ {
			wg.Add(1)
			go func() {
				defer wg.Done()
				for cs := range jobs {
					n, err := runCase(cs, enc, &emu, out, nil)
					mu.Lock()
					nCases++
					nUnits += n
					nt := false
					for _, u := range cs.Units {
						if u.Form != "quoted" && u.Form != "none" && (u.Size != "small" || u.Cmd == "NOOP-lit" || u.Cmd == "XUNK-lit") {
							nt = true
						}
					}
					if nt {
						nRefused++
						if len(samples) < 3 {
							samples = append(samples, cs)
						}
					}
					if err != nil {
						infra = err.Error()
					}
					mu.Unlock()
				}
			}()
		}
		if mode == "one" {
			b, err := os.ReadFile(in)
			if err != nil {
				fmt.Fprintln(os.Stderr, err)
				os.Exit(2)
			}
			cs := &caseT{}
			if err := json.Unmarshal(b, cs); err != nil {
				fmt.Fprintln(os.Stderr, err)
				os.Exit(2)
			}
			jobs <- cs
		} else {
			err = vh.ReadTLines(in, func(b []byte) error {
				if seen[string(b)] {
					return nil
				}
				seen[string(b)] = true
				cs := &caseT{}
				if err := json.Unmarshal(b, cs); err != nil {
					return err
				}
				jobs <- cs
				return nil
			})
		}
		close(jobs)
		wg.Wait()
		if mode == "one" {
			for _, sv := range servers {
				for _, l := range sv.log.Snapshot() {
					fmt.Fprintf(os.Stderr, "server log: %.300s\n", l)
				}
			}
		}
		sum := map[string]interface{}{"behaviours": nCases, "steps": nUnits, "nontrivial": nRefused, "samples": samples, "traces": nCases, "records": nUnits + nCases}
		if err != nil {
			sum["infra_error"] = err.Error()
		} else if infra != "" {
			sum["infra_error"] = infra
		}
		out.Summary(sum)
	case "random":
		fs := flag.NewFlagSet(mode, flag.ExitOnError)
		seed := fs.Int64("seed", 1, "")
		traces := fs.Int("traces", 100, "")
		steps := fs.Int("steps", 20, "")
		fs.Parse(os.Args[3:])
		f, err := os.Create(os.Args[2])
		if err != nil {
			fmt.Fprintln(os.Stderr, err)
			os.Exit(2)
		}
		defer f.Close()
		enc := json.NewEncoder(f)
		var emu sync.Mutex
		rng := rand.New(rand.NewSource(*seed))
		cmds := []string{"LOGIN-user", "LOGIN-pass", "CREATE", "RENAME-new", "LIST-pat", "SEARCH-str", "FETCH-hdr", "APPEND", "NOOP-lit", "XUNK-lit", "NOOP", "AUTH-CANCEL", "IDLE", "AUTH-FINAL",
			"APPEND-fail", "APPEND-panic", "TAG-lit", "UID-lit"}
		nUnits := 0
		for t := 0; t < *traces; t++ {
			cs := &caseT{Start: startT{LitPlus: rng.Intn(2) == 0, State: []string{"notauth", "auth"}[rng.Intn(2)]}}
			cs.Start.Utf8 = cs.Start.State == "auth" && rng.Intn(2) == 0
			cs.Start.Sasl = cs.Start.State == "notauth" && !cs.Start.LitPlus && rng.Intn(2) == 0
			for i := 0; i < *steps; i++ {
				u := unit{Cmd: cmds[rng.Intn(len(cmds))]}
				switch u.Cmd {
				case "NOOP", "AUTH-CANCEL", "IDLE", "AUTH-FINAL":
					u.Form, u.Size, u.Payload = "none", "small", "benign"
				default:
					u.Form = []string{"quoted", "sync", "nonsync"}[rng.Intn(3)]
					// refused literals end a trace early: keep most units acceptable so traces get long
					if rng.Intn(5) == 0 {
						u.Size = []string{"big", "huge"}[rng.Intn(2)]
					} else {
						u.Size = "small"
					}
					u.Payload = []string{"benign", "smuggle"}[rng.Intn(2)]
					if u.Form == "quoted" && (strings.HasPrefix(u.Cmd, "APPEND") || strings.HasSuffix(u.Cmd, "-lit")) {
						u.Form = "sync"
					}
					if u.Cmd == "APPEND-fail" || u.Cmd == "APPEND-panic" {
						u.Payload = "smuggle"
						if u.Size == "huge" {
							u.Size = "big"
						}
					}
					if u.Form == "quoted" {
						u.Size, u.Payload = "small", "benign"
					}
					if (u.Cmd == "NOOP-lit" || u.Cmd == "XUNK-lit") && rng.Intn(3) != 0 {
						u.Cmd = "NOOP"
						u.Form, u.Size, u.Payload = "none", "small", "benign"
					}
				}
				u.Pad = "short"
				if (u.Cmd == "NOOP-lit" || u.Cmd == "XUNK-lit") && u.Form == "nonsync" && rng.Intn(2) == 0 {
					u.Pad = "long"
				}
				cs.Units = append(cs.Units, u)
			}
			n, err := runCase(cs, enc, &emu, out, rng)
			if err != nil {
				out.Summary(map[string]interface{}{"infra_error": err.Error()})
				return
			}
			nUnits += n
		}
		out.Summary(map[string]interface{}{"traces": *traces, "records": nUnits + *traces, "behaviours": *traces, "steps": nUnits})
	}
}
