// Command listmatch binds spec/ListMatch.tla to imapserver.MatchList
// (property C20).
//
//	listmatch vectors <tlc-output>     run MatchList on every TLC-generated vector, compare with the
//	                                   answer(s) the reference allows (fields e, e2)
//	listmatch one <vector.json>        the same for a single vector (replay files; also prints what the
//	                                   real code returned)
//	listmatch random <out.ndjson>      random vectors beyond TLC's bounds, recorded with the REAL result
//	                                   (field got) for ListMatchTrace; no oracle on this side
//
// Strings travel as arrays of Unicode code points; delimiter 0 = none.
package main

import (
	"bufio"
	"encoding/json"
	"flag"
	"fmt"
	"math/rand"
	"os"
	"strings"
	"sync"
	"sync/atomic"

	"github.com/emersion/go-imap/v2/imapserver"

	"verif/harness/vh"
)

type vec struct {
	N   []rune `json:"n"`
	D   rune   `json:"d"`
	R   []rune `json:"r"`
	P   []rune `json:"p"`
	E   *bool  `json:"e,omitempty"`   // reference answer (primary reading)
	E2  *bool  `json:"e2,omitempty"`  // reference answer (second accepted reading)
	Got *bool  `json:"got,omitempty"` // what the real code returned (recorded vectors)
}

// call runs the real code; a panic is an observation, not a crash of the harness.
func call(v *vec) (got bool, panicked string) {
	defer func() {
		if r := recover(); r != nil {
			panicked = fmt.Sprint(r)
		}
	}()
	return imapserver.MatchList(string(v.N), v.D, string(v.R), string(v.P)), ""
}

func delimStr(d rune) string {
	if d == 0 {
		return "none"
	}
	return fmt.Sprintf("%q", d)
}

func (v *vec) String() string {
	return fmt.Sprintf("MatchList(name=%q, delim=%s, reference=%q, pattern=%q)", string(v.N), delimStr(v.D), string(v.R), string(v.P))
}

func hasRune(s []rune, c rune) bool {
	for _, x := range s {
		if x == c {
			return true
		}
	}
	return false
}

// class describes the input only (never the expected answer): it makes the
// signature of a disagreement narrow and stable.
func class(v *vec) string {
	var d, r, w string
	switch {
	case v.D == 0:
		d = "nodelim"
	case v.D < 128:
		d = "ascii-delim"
	default:
		d = "nonascii-delim"
	}
	switch {
	case v.D != 0 && len(v.P) > 0 && v.P[0] == v.D:
		r = "abs-pattern"
		if len(v.R) == 0 {
			r = "abs-pattern-noref"
		}
	case len(v.R) == 0:
		r = "noref"
	case v.D != 0 && v.R[len(v.R)-1] == v.D:
		r = "ref-trailing-delim"
	default:
		r = "ref-bare"
	}
	star, pct := hasRune(v.P, '*'), hasRune(v.P, '%')
	switch {
	case star && pct:
		w = "star+pct"
	case star:
		w = "star"
	case pct:
		w = "pct"
	default:
		w = "literal"
	}
	return d + "/" + r + "/" + w
}

type verdict struct {
	sig, detail string
}

// judge compares the real answer with the answers the reference allows.
func judge(v *vec) (*verdict, bool) {
	got, p := call(v)
	if p != "" {
		return &verdict{"listmatch/panic/" + class(v), fmt.Sprintf("%s panicked: %s", v, p)}, false
	}
	if got == *v.E || (v.E2 != nil && got == *v.E2) {
		return nil, got
	}
	dir := "rejects-matching"
	if got {
		dir = "accepts-nonmatching"
	}
	sig := "listmatch/" + dir + "/" + class(v)
	if v.D >= 128 {
		// one family for everything that only happens with a non-ASCII delimiter
		sig = "listmatch/nonascii-delim/" + dir
	}
	return &verdict{sig,
		fmt.Sprintf("%s = %v, reference (ListMatch!Matches of the resolved pattern) says %v", v, got, *v.E)}, got
}

func replayOf(v *vec) map[string]interface{} {
	return map[string]interface{}{"n": nz(v.N), "d": v.D, "r": nz(v.R), "p": nz(v.P), "e": v.E, "e2": v.E2,
		"text": v.String()}
}

func nz(r []rune) []rune {
	if r == nil {
		return []rune{}
	}
	return r
}

func cmdVectors(path string, workers int) {
	out := vh.NewOut()
	defer out.Flush()
	jobs := make(chan []byte, 4096)
	var wg sync.WaitGroup
	var nVec, nNontriv, nTrue, nGotTrue, nMis, nTwo, nRef, nAbs, nNoDelim int64
	var infra atomic.Value
	var samples []string
	var smu sync.Mutex
	for i := 0; i < workers; i++ {
		wg.Add(1)
		go func() {
			defer wg.Done()
			for p := range jobs {
				var v vec
				if err := json.Unmarshal(p, &v); err != nil || v.E == nil {
					infra.Store(fmt.Sprintf("bad vector %q: %v", p, err))
					continue
				}
				atomic.AddInt64(&nVec, 1)
				nt := len(v.N) > 0 && (hasRune(v.P, '*') || hasRune(v.P, '%'))
				if nt {
					atomic.AddInt64(&nNontriv, 1)
				}
				if *v.E {
					atomic.AddInt64(&nTrue, 1)
				}
				if v.E2 != nil && *v.E2 != *v.E {
					atomic.AddInt64(&nTwo, 1)
				}
				if len(v.R) > 0 {
					atomic.AddInt64(&nRef, 1)
				}
				if v.D != 0 && len(v.P) > 0 && v.P[0] == v.D {
					atomic.AddInt64(&nAbs, 1)
				}
				if v.D == 0 {
					atomic.AddInt64(&nNoDelim, 1)
				}
				vd, got := judge(&v)
				if got {
					atomic.AddInt64(&nGotTrue, 1)
				}
				if vd != nil {
					if atomic.AddInt64(&nMis, 1) <= 300 {
						out.Mismatch(vd.sig, vd.detail, replayOf(&v))
					}
				} else if nt && *v.E && len(v.R) >= 2 && v.D != 0 && len(v.N) >= 3 && hasRune(v.P, '%') {
					smu.Lock()
					if len(samples) < 3 {
						samples = append(samples, fmt.Sprintf("%s = %v as the reference predicts", &v, got))
					}
					smu.Unlock()
				}
			}
		}()
	}
	err := vh.ReadTLines(path, func(p []byte) error {
		jobs <- p
		return nil
	})
	close(jobs)
	wg.Wait()
	sum := map[string]interface{}{"vectors": nVec, "nontrivial": nNontriv, "expected_true": nTrue,
		"real_true": nGotTrue, "two_readings": nTwo, "with_reference": nRef, "absolute_pattern": nAbs,
		"no_delimiter": nNoDelim, "mismatches": nMis, "samples": samples}
	if err != nil {
		sum["infra_error"] = err.Error()
	} else if e := infra.Load(); e != nil {
		sum["infra_error"] = e
	}
	out.Summary(sum)
}

func cmdOne(path string) {
	out := vh.NewOut()
	defer out.Flush()
	b, err := os.ReadFile(path)
	if err != nil {
		fmt.Fprintln(os.Stderr, err)
		os.Exit(2)
	}
	var v vec
	if err := json.Unmarshal(b, &v); err != nil {
		fmt.Fprintln(os.Stderr, err)
		os.Exit(2)
	}
	got, p := call(&v)
	rec := map[string]interface{}{"kind": "observed", "n": nz(v.N), "d": v.D, "r": nz(v.R), "p": nz(v.P),
		"got": got, "panic": p, "text": v.String()}
	out.Emit(rec)
	if v.E != nil {
		if vd, _ := judge(&v); vd != nil {
			out.Mismatch(vd.sig, vd.detail, replayOf(&v))
		}
	}
	out.Summary(map[string]interface{}{"vectors": 1})
}

// ---- random driver: records what the real code returns, for ListMatchTrace ----

// ordinary characters: letters, characters special in regular expressions,
// glob-ish characters, space, non-ASCII (2- and 3-byte UTF-8).
var ordinary = []rune{'a', 'b', 'c', 'A', 'I', '0', ' ', '.', '/', '+', '[', ']', '\\', '^', '$', '(', ')',
	'?', '|', '{', '}', '-', '&', '#', '~', '"', 0xE9 /* é */, 0xE7 /* ç */, 0x65E5 /* 日 */}
var common = []rune{'a', 'b'}
var asciiDelims = []rune{'/', '.'}
var nonASCIIDelims = []rune{0xA7 /* § */, 0x2192 /* → */}

const maxLen = 12

type gen struct{ r *rand.Rand }

func (g *gen) ord(d rune) rune {
	for {
		var c rune
		if d == 0xA7 && g.r.Intn(8) == 0 {
			// 'ç' is C3 A7 in UTF-8: its second byte equals the code point of the delimiter '§'
			c = 0xE7
		} else if g.r.Intn(100) < 55 {
			c = common[g.r.Intn(len(common))]
		} else {
			c = ordinary[g.r.Intn(len(ordinary))]
		}
		if c != d {
			return c
		}
	}
}

// filler for a wildcard: length 0..3; withDelim allows the delimiter inside
func (g *gen) filler(d rune, withDelim bool) []rune {
	n := g.r.Intn(4)
	s := make([]rune, 0, n)
	for i := 0; i < n; i++ {
		if withDelim && d != 0 && g.r.Intn(3) == 0 {
			s = append(s, d)
		} else {
			s = append(s, g.ord(d))
		}
	}
	return s
}

func (g *gen) vector() *vec {
	r := g.r
	v := &vec{N: []rune{}, R: []rune{}, P: []rune{}}
	switch k := r.Intn(100); {
	case k < 35:
		v.D = '/'
	case k < 65:
		v.D = '.'
	case k < 85:
		v.D = 0
	default:
		v.D = nonASCIIDelims[r.Intn(len(nonASCIIDelims))]
	}
	d := v.D
	// full pattern: what reference+pattern are meant to resolve to
	fl := r.Intn(maxLen + 1)
	fp := make([]rune, 0, fl)
	for i := 0; i < fl; i++ {
		switch k := r.Intn(100); {
		case k < 12:
			fp = append(fp, '*')
		case k < 27:
			fp = append(fp, '%')
		case k < 45 && d != 0:
			fp = append(fp, d)
		default:
			fp = append(fp, g.ord(d))
		}
	}
	// name derived from the full pattern (so that matches are frequent), then perturbed
	if r.Intn(10) == 0 {
		nl := r.Intn(maxLen + 1)
		for i := 0; i < nl; i++ {
			if d != 0 && r.Intn(4) == 0 {
				v.N = append(v.N, d)
			} else {
				v.N = append(v.N, g.ord(d))
			}
		}
	} else {
		for _, c := range fp {
			switch c {
			case '*':
				v.N = append(v.N, g.filler(d, true)...)
			case '%':
				v.N = append(v.N, g.filler(d, r.Intn(5) == 0)...)
			default:
				switch k := r.Intn(100); {
				case k < 3: // drop
				case k < 6: // replace
					v.N = append(v.N, g.ord(d))
				case k < 8: // insert
					v.N = append(v.N, c, g.ord(d))
				case k < 9 && d != 0:
					v.N = append(v.N, c, d)
				default:
					v.N = append(v.N, c)
				}
			}
		}
		if r.Intn(25) == 0 { // a name containing a literal '*' or '%'
			v.N = append(v.N, []rune{'*', '%'}[r.Intn(2)])
		}
	}
	if len(v.N) > maxLen {
		v.N = v.N[:maxLen]
	}
	// split the full pattern into reference + pattern
	lit := 0 // length of the wildcard-free prefix of fp
	for lit < len(fp) && fp[lit] != '*' && fp[lit] != '%' {
		lit++
	}
	junk := func() []rune {
		n := 1 + r.Intn(3)
		s := make([]rune, 0, n+1)
		for i := 0; i < n; i++ {
			s = append(s, g.ord(d))
		}
		if d != 0 && r.Intn(2) == 0 {
			s = append(s, d)
		}
		return s
	}
	switch k := r.Intn(100); {
	case k < 30: // no reference
		v.P = fp
	case k < 70: // reference = literal prefix of the full pattern
		var cuts []int // positions i: fp[:i] is literal and (no delimiter, or fp[i-1] is the delimiter)
		for i := 1; i <= lit; i++ {
			if d == 0 || fp[i-1] == d {
				cuts = append(cuts, i)
			}
		}
		if len(cuts) == 0 {
			v.P = fp
			break
		}
		c := cuts[r.Intn(len(cuts))]
		v.R = append(v.R, fp[:c]...)
		v.P = append(v.P, fp[c:]...)
		if d != 0 && len(v.R) > 1 && r.Intn(2) == 0 {
			v.R = v.R[:len(v.R)-1] // reference without trailing delimiter
		}
	case k < 85 && d != 0: // absolute pattern, reference must be ignored
		v.P = append([]rune{d}, fp...)
		if r.Intn(4) != 0 {
			v.R = junk()
		}
	case k < 92: // unrelated reference
		v.R = junk()
		v.P = fp
	default: // reference cut at an arbitrary literal position (not at a delimiter)
		if lit == 0 {
			v.P = fp
			break
		}
		c := 1 + r.Intn(lit)
		v.R = append(v.R, fp[:c]...)
		v.P = append(v.P, fp[c:]...)
	}
	if len(v.P) > maxLen {
		v.P = v.P[:maxLen]
	}
	return v
}

// inboxify puts a spelling of "inbox" into the first hierarchy component of the name and, where the pattern's first
// component is literal, another (or the same) spelling into that: to the matcher these are ordinary characters.
func (g *gen) inboxify(v *vec) {
	words := []string{"INBOX", "inbox", "Inbox", "iNBOX"}
	first := func(s []rune, from int) int {
		for i := from; i < len(s); i++ {
			if v.D != 0 && s[i] == v.D {
				return i
			}
		}
		return len(s)
	}
	ne := first(v.N, 0)
	v.N = append([]rune(words[g.r.Intn(len(words))]), v.N[ne:]...)
	ps := 0
	if v.D != 0 && len(v.P) > 0 && v.P[0] == v.D {
		ps = 1
	}
	pe := first(v.P, ps)
	for _, c := range v.P[ps:pe] {
		if c == '*' || c == '%' {
			return
		}
	}
	np := append([]rune{}, v.P[:ps]...)
	np = append(np, []rune(words[g.r.Intn(len(words))])...)
	v.P = append(np, v.P[pe:]...)
	if len(v.N) > maxLen+5 {
		v.N = v.N[:maxLen+5]
	}
	if len(v.P) > maxLen+5 {
		v.P = v.P[:maxLen+5]
	}
}

func cmdRandom(path string, seed int64, n int) {
	out := vh.NewOut()
	defer out.Flush()
	fh, err := os.Create(path)
	if err != nil {
		out.Summary(map[string]interface{}{"infra_error": err.Error()})
		return
	}
	w := bufio.NewWriterSize(fh, 1<<20)
	g := &gen{r: rand.New(rand.NewSource(seed))}
	var nTrue, nNontriv, nRef, nAbs, nNoDelim, nNonASCII, nPanic int
	var samples []string
	seen := map[string]bool{}
	for i := 0; i < n; i++ {
		v := g.vector()
		if g.r.Intn(5) == 0 {
			g.inboxify(v)
		}
		got, p := call(v)
		if p != "" {
			// a panic is reported directly: there is nothing to record for the trace spec
			nPanic++
			t := true
			v.E = &t
			out.Mismatch("listmatch/panic/"+class(v), fmt.Sprintf("%s panicked: %s", v, p), replayOf(v))
			continue
		}
		v.Got = &got
		b, _ := json.Marshal(v)
		w.Write(b)
		w.WriteByte('\n')
		key := string(b)
		fresh := !seen[key]
		seen[key] = true
		if got {
			nTrue++
		}
		if fresh && len(v.N) > 0 && (hasRune(v.P, '*') || hasRune(v.P, '%')) {
			nNontriv++ // distinct non-trivial vectors only
		}
		if len(v.R) > 0 {
			nRef++
		}
		if v.D != 0 && len(v.P) > 0 && v.P[0] == v.D {
			nAbs++
		}
		if v.D == 0 {
			nNoDelim++
		}
		if v.D >= 128 {
			nNonASCII++
		}
		if len(samples) < 3 && got && len(v.R) > 0 && len(v.N) >= 8 && strings.ContainsAny(string(v.P), "*%") {
			samples = append(samples, fmt.Sprintf("%s = %v (recorded)", v, got))
		}
	}
	if err := w.Flush(); err != nil {
		out.Summary(map[string]interface{}{"infra_error": err.Error()})
		return
	}
	fh.Close()
	out.Summary(map[string]interface{}{"records": n - nPanic, "distinct": len(seen), "real_true": nTrue,
		"nontrivial": nNontriv, "with_reference": nRef, "absolute_pattern": nAbs, "no_delimiter": nNoDelim,
		"nonascii_delimiter": nNonASCII, "panics": nPanic, "samples": samples})
}

func main() {
	if len(os.Args) < 3 {
		fmt.Fprintln(os.Stderr, "usage: listmatch vectors|one|random <file> [flags]")
		os.Exit(2)
	}
	mode, path := os.Args[1], os.Args[2]
	fs := flag.NewFlagSet(mode, flag.ExitOnError)
	seed := fs.Int64("seed", 1, "")
	n := fs.Int("n", 20000, "")
	workers := fs.Int("workers", 8, "")
	fs.Parse(os.Args[3:])
	switch mode {
	case "vectors":
		cmdVectors(path, *workers)
	case "one":
		cmdOne(path)
	case "random":
		cmdRandom(path, *seed, *n)
	default:
		os.Exit(2)
	}
}
