// Command cmdspace binds spec/CmdSpace.tla (property C02) to go-imap: a real
// imapclient.Client talks over an in-memory connection to a real
// imapserver.Server whose stub Session records every call with its arguments.
//
//	cmdspace gen <tlc-output> <out.ndjson>      issue every (configuration, command) printed by CmdSpaceGen
//	cmdspace random <out.ndjson> -seed N -n N   issue random commands with larger values
//	cmdspace one <case.json> <out.ndjson>       issue one case {cfg, cmd}
//
// Every mode writes one ndjson record {cfg, cmd, ok, recv} per command: cmd is
// what the caller passed to the client API, recv the backend calls the stub
// session received, both in the abstract shapes of CmdSpace.tla.  The harness
// converts representations only (bytes -> numbers, time -> numbers); it does
// not normalise and does not judge: CmdSpaceTrace (TLC) does.
package main

import (
	"bufio"
	"encoding/json"
	"flag"
	"fmt"
	"io"
	"os"
	"sort"
	"sync"
	"time"

	"github.com/emersion/go-imap/v2"
	"github.com/emersion/go-imap/v2/imapclient"
	"github.com/emersion/go-imap/v2/imapserver"

	"verif/harness/vh"
)

type M = map[string]interface{}

// ---------------------------------------------------------------- configuration

type cfgT struct {
	Caps string `json:"caps"`
	UTF8 bool   `json:"utf8"`
	Rev2 bool   `json:"rev2"`
}

var extCaps = []imap.Cap{imap.CapNamespace, imap.CapUIDPlus, imap.CapESearch, imap.CapSearchRes, imap.CapListExtended,
	imap.CapListStatus, imap.CapMove, imap.CapStatusSize}

// serverCaps is the Options.Caps of the test server for each configuration
// kind (spec: CmdSpace!Adv documents what the server then advertises).
func serverCaps(kind string) imap.CapSet {
	caps := imap.CapSet{imap.CapIMAP4rev1: {}}
	switch kind {
	case "rev1":
	case "rev2":
		caps[imap.CapIMAP4rev2] = struct{}{}
		caps[imap.CapBinary] = struct{}{}
		caps[imap.CapCreateSpecialUse] = struct{}{}
	case "litplus":
		caps[imap.CapLiteralPlus] = struct{}{}
		caps[imap.CapBinary] = struct{}{}
		caps[imap.CapCreateSpecialUse] = struct{}{}
		for _, c := range extCaps {
			caps[c] = struct{}{}
		}
	default:
		panic("unknown caps kind " + kind)
	}
	return caps
}

type srvT struct {
	srv *imapserver.Server
	ln  *vh.Listener
	reg *vh.Registry
	log *vh.LogBuf
}

var (
	srvMu   sync.Mutex
	servers = map[string]*srvT{}
)

func getServer(kind string) *srvT {
	srvMu.Lock()
	defer srvMu.Unlock()
	if s, ok := servers[kind]; ok {
		return s
	}
	s := &srvT{reg: &vh.Registry{}, ln: vh.NewListener(), log: vh.NewLogBuf()}
	s.srv = imapserver.New(&imapserver.Options{
		Caps:         serverCaps(kind),
		InsecureAuth: true,
		Logger:       s.log,
		NewSession: func(c *imapserver.Conn) (imapserver.Session, *imapserver.GreetingData, error) {
			return s.reg.Get(c).(*stub), nil, nil
		},
	})
	go s.srv.Serve(s.ln)
	servers[kind] = s
	return s
}

// ---------------------------------------------------------------- value conversion (Go <-> abstract)

const (
	big1 = 4294967294 // 2^32-2 <-> 62
	big2 = 4294967295 // 2^32-1 <-> 63
)

func numDec(x int) uint32 {
	switch x {
	case 62:
		return big1
	case 63:
		return big2
	}
	return uint32(x)
}
func numEnc(n uint32) int {
	switch {
	case n <= 60:
		return int(n)
	case n == big1:
		return 62
	case n == big2:
		return 63
	}
	return 61 // a number the harness never sends
}
func sizeDec(x int) int64 {
	switch x {
	case 2000000001:
		return 1 << 32
	case 2000000002:
		return 1<<63 - 1
	}
	return int64(x)
}
func sizeEnc(v int64) int {
	switch {
	case v >= 0 && v <= 1000000000:
		return int(v)
	case v == 1<<32:
		return 2000000001
	case v == 1<<63-1:
		return 2000000002
	}
	return 1999999999 // a size the harness never sends
}

func pattern(n int) string {
	b := make([]byte, n)
	for i := range b {
		b[i] = byte((i*7+3)%251 + 1) // CR, LF, 8-bit bytes; never NUL
	}
	return string(b)
}

// side table for opaque strings (random mode): fingerprint key -> content
var (
	opaqueMu sync.Mutex
	opaque   = map[string]string{}
)

func fp(s string) (int, int) {
	var h uint64 = 14695981039346656037
	for i := 0; i < len(s); i++ {
		h ^= uint64(s[i])
		h *= 1099511628211
	}
	return int(h & 0x3fffffff), int((h >> 30) & 0x3fffffff)
}

// strJ is the canonical abstract form of a byte string, used for what is sent
// and for what is received alike.
func strJ(s string) []int {
	if len(s) <= 40 {
		out := make([]int, len(s))
		for i := 0; i < len(s); i++ {
			out[i] = int(s[i])
		}
		return out
	}
	uniform := true
	for i := 1; i < len(s); i++ {
		if s[i] != s[0] {
			uniform = false
			break
		}
	}
	if uniform {
		return []int{-2, int(s[0]), len(s)}
	}
	if s == pattern(len(s)) {
		return []int{-3, len(s)}
	}
	h1, h2 := fp(s)
	z := 0
	for i := 0; i < len(s); i++ {
		if s[i] == 0 {
			z = 1
			break
		}
	}
	return []int{-1, len(s), h1, h2, z}
}

func opaqueKey(v []int) string { return fmt.Sprint(v) }

// register makes the content of an opaque string available to strOf.
func register(s string) []int {
	j := strJ(s)
	if len(j) > 0 && j[0] == -1 {
		opaqueMu.Lock()
		opaque[opaqueKey(j)] = s
		opaqueMu.Unlock()
	}
	return j
}

func ints(v interface{}) []int {
	a, _ := v.([]interface{})
	out := make([]int, len(a))
	for i, x := range a {
		out[i] = int(x.(float64))
	}
	return out
}

func strOf(v interface{}) string {
	a := ints(v)
	if len(a) == 0 || a[0] >= 0 {
		b := make([]byte, len(a))
		for i, x := range a {
			b[i] = byte(x)
		}
		return string(b)
	}
	switch a[0] {
	case -2:
		b := make([]byte, a[2])
		for i := range b {
			b[i] = byte(a[1])
		}
		return string(b)
	case -3:
		return pattern(a[1])
	case -1:
		opaqueMu.Lock()
		s, ok := opaque[opaqueKey(a)]
		opaqueMu.Unlock()
		if !ok {
			panic("opaque string without content: " + opaqueKey(a))
		}
		return s
	}
	panic("bad string form")
}

func arr(v interface{}) []interface{} { a, _ := v.([]interface{}); return a }
func obj(v interface{}) M             { m, _ := v.(map[string]interface{}); return m }
func num(v interface{}) int           { f, _ := v.(float64); return int(f) }
func boolean(v interface{}) bool      { b, _ := v.(bool); return b }

func strsJ(l []string) []interface{} {
	out := make([]interface{}, len(l))
	for i, s := range l {
		out[i] = strJ(s)
	}
	return out
}
func flagsJ(l []imap.Flag) []interface{} {
	out := make([]interface{}, len(l))
	for i, s := range l {
		out[i] = strJ(string(s))
	}
	return out
}
func flagsOf(v interface{}) []imap.Flag {
	var out []imap.Flag
	for _, x := range arr(v) {
		out = append(out, imap.Flag(strOf(x)))
	}
	return out
}
func strsOf(v interface{}) []string {
	var out []string
	for _, x := range arr(v) {
		out = append(out, strOf(x))
	}
	return out
}

// wellFormed puts the two ends of a range into the documented representation
// (imapnum.Range: "The order of values is always Start <= Stop, except when
// representing "n:*", where Start = n and Stop = 0"; "*" alone is {0, 0}).
func wellFormed(a, b uint32) (uint32, uint32) {
	if a == 0 || (b != 0 && b < a) {
		return b, a
	}
	return a, b
}

// number sets: a slice literal with the ranges in the order given (unsorted,
// overlapping, adjacent ranges are what a caller may write)
func numSetOf(v interface{}) imap.NumSet {
	m := obj(v)
	if boolean(m["sr"]) {
		return imap.SearchRes()
	}
	if boolean(m["uid"]) {
		s := imap.UIDSet{}
		for _, p := range arr(m["r"]) {
			q := ints(p)
			a, b := wellFormed(numDec(q[0]), numDec(q[1]))
			s = append(s, imap.UIDRange{Start: imap.UID(a), Stop: imap.UID(b)})
		}
		return s
	}
	s := imap.SeqSet{}
	for _, p := range arr(m["r"]) {
		q := ints(p)
		a, b := wellFormed(numDec(q[0]), numDec(q[1]))
		s = append(s, imap.SeqRange{Start: a, Stop: b})
	}
	return s
}
func numSetJ(ns imap.NumSet) M {
	r := []interface{}{}
	switch s := ns.(type) {
	case imap.SeqSet:
		for _, x := range s {
			r = append(r, []int{numEnc(x.Start), numEnc(x.Stop)})
		}
		return M{"uid": false, "sr": false, "r": r}
	case imap.UIDSet:
		if imap.IsSearchRes(s) {
			return M{"uid": true, "sr": true, "r": r}
		}
		for _, x := range s {
			r = append(r, []int{numEnc(uint32(x.Start)), numEnc(uint32(x.Stop))})
		}
		return M{"uid": true, "sr": false, "r": r}
	}
	return M{"uid": false, "sr": false, "r": r, "unknown": true}
}

func zoneOf(z int) *time.Location {
	if z >= 100000 {
		return time.FixedZone("", z-100000)
	}
	if z <= -100000 {
		return time.FixedZone("", z+100000)
	}
	return time.FixedZone("", z*60)
}
func zoneJ(t time.Time) int {
	_, off := t.Zone()
	if off%60 == 0 {
		return off / 60
	}
	if off > 0 {
		return 100000 + off
	}
	return -100000 + off
}

// search dates: calendar day of the time in its own zone, time of day, zone
// (abstract form <<set, day, tod, zone>>)
func dayOf(v interface{}) time.Time {
	d := ints(v)
	if len(d) != 4 || d[0] != 1 {
		return time.Time{}
	}
	return time.Date(1970, 1, 1+d[1], 0, 0, d[2], 0, zoneOf(d[3]))
}
func dayJ(t time.Time) []int {
	if t.IsZero() {
		return []int{0, 0, 0, 0}
	}
	y, mo, d := t.Date()
	h, mi, s := t.Clock()
	day := time.Date(y, mo, d, 0, 0, 0, 0, time.UTC).Unix() / 86400
	return []int{1, int(day), h*3600 + mi*60 + s, zoneJ(t)}
}

// APPEND date-time: instant in seconds, zone, sub-second part present
func instantOf(v interface{}) time.Time {
	m := obj(v)
	if !boolean(m["set"]) {
		return time.Time{}
	}
	return time.Unix(int64(num(m["t"])), int64(num(m["frac"]))*5).In(zoneOf(num(m["zone"])))
}
func instantJ(t time.Time) M {
	if t.IsZero() {
		return M{"set": false, "t": 0, "zone": 0, "frac": 0}
	}
	frac := 0
	if t.Nanosecond() != 0 {
		frac = 1
	}
	return M{"set": true, "t": int(t.Unix()), "zone": zoneJ(t), "frac": frac}
}

func partOf(v interface{}) []int {
	a := ints(v)
	if len(a) == 0 {
		return nil
	}
	return a
}
func partJ(p []int) []int {
	if p == nil {
		return []int{}
	}
	return p
}
func partialOf(v interface{}) *imap.SectionPartial {
	m := obj(v)
	if !boolean(m["on"]) {
		return nil
	}
	return &imap.SectionPartial{Offset: sizeDec(num(m["off"])), Size: sizeDec(num(m["sz"]))}
}
func partialJ(p *imap.SectionPartial) M {
	if p == nil {
		return M{"on": false, "off": 0, "sz": 0}
	}
	return M{"on": true, "off": sizeEnc(p.Offset), "sz": sizeEnc(p.Size)}
}

func fetchOptionsOf(cmd M) *imap.FetchOptions {
	it := obj(cmd["items"])
	o := &imap.FetchOptions{Envelope: boolean(it["envelope"]), Flags: boolean(it["flags"]), InternalDate: boolean(it["internaldate"]),
		RFC822Size: boolean(it["rfc822size"]), UID: boolean(it["uid"])}
	switch cmd["bs"] {
	case "body":
		o.BodyStructure = &imap.FetchItemBodyStructure{}
	case "ext":
		o.BodyStructure = &imap.FetchItemBodyStructure{Extended: true}
	}
	for _, x := range arr(cmd["secs"]) {
		s := obj(x)
		o.BodySection = append(o.BodySection, &imap.FetchItemBodySection{Specifier: imap.PartSpecifier(s["spec"].(string)), Part: partOf(s["part"]),
			HeaderFields: strsOf(s["hf"]), HeaderFieldsNot: strsOf(s["hfn"]), Partial: partialOf(s["partial"]), Peek: boolean(s["peek"])})
	}
	for _, x := range arr(cmd["bin"]) {
		s := obj(x)
		o.BinarySection = append(o.BinarySection, &imap.FetchItemBinarySection{Part: partOf(s["part"]), Partial: partialOf(s["partial"]), Peek: boolean(s["peek"])})
	}
	for _, x := range arr(cmd["binsz"]) {
		o.BinarySectionSize = append(o.BinarySectionSize, &imap.FetchItemBinarySectionSize{Part: partOf(x)})
	}
	return o
}
func fetchJ(numSet imap.NumSet, o *imap.FetchOptions) M {
	if o == nil {
		o = &imap.FetchOptions{}
	}
	bs := "none"
	if o.BodyStructure != nil {
		bs = "body"
		if o.BodyStructure.Extended {
			bs = "ext"
		}
	}
	secs, bin, binsz := []interface{}{}, []interface{}{}, []interface{}{}
	for _, s := range o.BodySection {
		secs = append(secs, M{"spec": string(s.Specifier), "part": partJ(s.Part), "hf": strsJ(s.HeaderFields), "hfn": strsJ(s.HeaderFieldsNot),
			"partial": partialJ(s.Partial), "peek": s.Peek})
	}
	for _, s := range o.BinarySection {
		bin = append(bin, M{"part": partJ(s.Part), "partial": partialJ(s.Partial), "peek": s.Peek})
	}
	for _, s := range o.BinarySectionSize {
		binsz = append(binsz, partJ(s.Part))
	}
	m := M{"c": "FETCH", "set": numSetJ(numSet),
		"items": M{"envelope": o.Envelope, "flags": o.Flags, "internaldate": o.InternalDate, "rfc822size": o.RFC822Size, "uid": o.UID},
		"bs":    bs, "secs": secs, "bin": bin, "binsz": binsz}
	if o.ModSeq || o.ChangedSince != 0 {
		m["extra"] = true // something the caller never asked for
	}
	return m
}

func critOf(v interface{}) imap.SearchCriteria {
	m := obj(v)
	var k imap.SearchCriteria
	for _, x := range arr(m["seq"]) {
		k.SeqNum = append(k.SeqNum, numSetOf(x).(imap.SeqSet))
	}
	for _, x := range arr(m["uidset"]) {
		k.UID = append(k.UID, numSetOf(x).(imap.UIDSet))
	}
	k.Since, k.Before = dayOf(m["since"]), dayOf(m["before"])
	k.SentSince, k.SentBefore = dayOf(m["sentsince"]), dayOf(m["sentbefore"])
	for _, x := range arr(m["header"]) {
		h := obj(x)
		k.Header = append(k.Header, imap.SearchCriteriaHeaderField{Key: strOf(h["k"]), Value: strOf(h["v"])})
	}
	k.Body, k.Text = strsOf(m["body"]), strsOf(m["text"])
	k.Flag, k.NotFlag = flagsOf(m["flag"]), flagsOf(m["notflag"])
	k.Larger, k.Smaller = sizeDec(num(m["larger"])), sizeDec(num(m["smaller"]))
	for _, x := range arr(m["not"]) {
		k.Not = append(k.Not, critOf(x))
	}
	for _, x := range arr(m["or"]) {
		p := arr(x)
		k.Or = append(k.Or, [2]imap.SearchCriteria{critOf(p[0]), critOf(p[1])})
	}
	return k
}
func critJ(k *imap.SearchCriteria) M {
	seq, uidset, header, not, or := []interface{}{}, []interface{}{}, []interface{}{}, []interface{}{}, []interface{}{}
	for _, s := range k.SeqNum {
		seq = append(seq, numSetJ(s))
	}
	for _, s := range k.UID {
		uidset = append(uidset, numSetJ(s))
	}
	for _, h := range k.Header {
		header = append(header, M{"k": strJ(h.Key), "v": strJ(h.Value)})
	}
	for i := range k.Not {
		not = append(not, critJ(&k.Not[i]))
	}
	for i := range k.Or {
		or = append(or, []interface{}{critJ(&k.Or[i][0]), critJ(&k.Or[i][1])})
	}
	m := M{"seq": seq, "uidset": uidset, "since": dayJ(k.Since), "before": dayJ(k.Before), "sentsince": dayJ(k.SentSince),
		"sentbefore": dayJ(k.SentBefore), "header": header, "body": strsJ(k.Body), "text": strsJ(k.Text), "flag": flagsJ(k.Flag),
		"notflag": flagsJ(k.NotFlag), "larger": sizeEnc(k.Larger), "smaller": sizeEnc(k.Smaller), "not": not, "or": or}
	if k.ModSeq != nil {
		m["extra"] = true
	}
	return m
}

func statusOptionsOf(v interface{}) *imap.StatusOptions {
	m := obj(v)
	return &imap.StatusOptions{NumMessages: boolean(m["messages"]), UIDNext: boolean(m["uidnext"]), UIDValidity: boolean(m["uidvalidity"]),
		NumUnseen: boolean(m["unseen"]), NumDeleted: boolean(m["deleted"]), Size: boolean(m["size"])}
}
func statusJ(o *imap.StatusOptions) M {
	if o == nil {
		o = &imap.StatusOptions{}
	}
	m := M{"messages": o.NumMessages, "uidnext": o.UIDNext, "uidvalidity": o.UIDValidity, "unseen": o.NumUnseen, "deleted": o.NumDeleted, "size": o.Size}
	if o.AppendLimit || o.DeletedStorage || o.HighestModSeq {
		m["extra"] = true
	}
	return m
}

// ---------------------------------------------------------------- the stub session

type stub struct {
	mu    sync.Mutex
	log   []interface{}
	quiet bool
	idled chan struct{}
}

func (s *stub) begin()          { s.mu.Lock(); s.log = nil; s.quiet = false; s.mu.Unlock() }
func (s *stub) setQuiet(q bool) { s.mu.Lock(); s.quiet = q; s.mu.Unlock() }
func (s *stub) calls() []interface{} {
	s.mu.Lock()
	defer s.mu.Unlock()
	return append([]interface{}{}, s.log...)
}
func (s *stub) call(m M) {
	s.mu.Lock()
	if !s.quiet {
		s.log = append(s.log, m)
	}
	s.mu.Unlock()
}

func (s *stub) Close() error { return nil }
func (s *stub) Login(username, password string) error {
	s.call(M{"c": "LOGIN", "user": strJ(username), "pass": strJ(password)})
	return nil
}
func (s *stub) Select(mailbox string, options *imap.SelectOptions) (*imap.SelectData, error) {
	m := M{"c": "SELECT", "mbox": strJ(mailbox), "ro": options != nil && options.ReadOnly}
	if options != nil && options.CondStore {
		m["extra"] = true
	}
	s.call(m)
	return &imap.SelectData{NumMessages: 3, UIDNext: 10, UIDValidity: 1}, nil
}
func (s *stub) Create(mailbox string, options *imap.CreateOptions) error {
	use := []interface{}{}
	if options != nil {
		for _, a := range options.SpecialUse {
			use = append(use, strJ(string(a)))
		}
	}
	s.call(M{"c": "CREATE", "mbox": strJ(mailbox), "use": use})
	return nil
}
func (s *stub) Delete(mailbox string) error {
	s.call(M{"c": "DELETE", "mbox": strJ(mailbox)})
	return nil
}
func (s *stub) Rename(mailbox, newName string) error {
	s.call(M{"c": "RENAME", "mbox": strJ(mailbox), "to": strJ(newName)})
	return nil
}
func (s *stub) Subscribe(mailbox string) error {
	s.call(M{"c": "SUBSCRIBE", "mbox": strJ(mailbox)})
	return nil
}
func (s *stub) Unsubscribe(mailbox string) error {
	s.call(M{"c": "UNSUBSCRIBE", "mbox": strJ(mailbox)})
	return nil
}
func (s *stub) List(w *imapserver.ListWriter, ref string, patterns []string, options *imap.ListOptions) error {
	if options == nil {
		options = &imap.ListOptions{}
	}
	lst := M{"on": options.ReturnStatus != nil, "st": statusJ(options.ReturnStatus)}
	m := M{"c": "LIST", "ref": strJ(ref), "pats": strsJ(patterns),
		"lsel": M{"sub": options.SelectSubscribed, "remote": options.SelectRemote, "rec": options.SelectRecursiveMatch},
		"lret": M{"sub": options.ReturnSubscribed, "children": options.ReturnChildren}, "lst": lst}
	if options.SelectSpecialUse || options.ReturnSpecialUse {
		m["extra"] = true
	}
	s.call(m)
	return nil
}
func (s *stub) Status(mailbox string, options *imap.StatusOptions) (*imap.StatusData, error) {
	s.call(M{"c": "STATUS", "mbox": strJ(mailbox), "st": statusJ(options)})
	var z uint32
	var z64 int64
	return &imap.StatusData{Mailbox: mailbox, NumMessages: &z, NumUnseen: &z, NumDeleted: &z, Size: &z64, AppendLimit: &z, DeletedStorage: &z64}, nil
}
func (s *stub) Append(mailbox string, r imap.LiteralReader, options *imap.AppendOptions) (*imap.AppendData, error) {
	b, err := io.ReadAll(r) // the literal is read completely
	m := M{"c": "APPEND", "mbox": strJ(mailbox), "data": strJ(string(b))}
	if options == nil {
		options = &imap.AppendOptions{}
	}
	m["flags"] = flagsJ(options.Flags)
	m["date"] = instantJ(options.Time)
	if err != nil || r.Size() != int64(len(b)) {
		m["readerr"] = true
	}
	s.call(m)
	return &imap.AppendData{UID: 1, UIDValidity: 1}, nil
}
func (s *stub) Poll(w *imapserver.UpdateWriter, allowExpunge bool) error { return nil }
func (s *stub) Idle(w *imapserver.UpdateWriter, stop <-chan struct{}) error {
	s.call(M{"c": "IDLE"})
	s.mu.Lock()
	ch := s.idled
	s.mu.Unlock()
	if ch != nil {
		select {
		case ch <- struct{}{}:
		default:
		}
	}
	<-stop
	return nil
}
func (s *stub) Unselect() error { s.call(M{"c": "UNSELECT"}); return nil }
func (s *stub) Expunge(w *imapserver.ExpungeWriter, uids *imap.UIDSet) error {
	if uids == nil {
		s.call(M{"c": "EXPUNGE"})
	} else {
		s.call(M{"c": "UIDEXPUNGE", "set": numSetJ(*uids)})
	}
	return nil
}
func (s *stub) Search(kind imapserver.NumKind, criteria *imap.SearchCriteria, options *imap.SearchOptions) (*imap.SearchData, error) {
	if options == nil {
		options = &imap.SearchOptions{}
	}
	s.call(M{"c": "SEARCH", "uid": kind == imapserver.NumKindUID, "crit": critJ(criteria),
		"sret": M{"min": options.ReturnMin, "max": options.ReturnMax, "all": options.ReturnAll, "count": options.ReturnCount, "save": options.ReturnSave}})
	if kind == imapserver.NumKindUID {
		return &imap.SearchData{All: imap.UIDSet{}, UID: true}, nil
	}
	return &imap.SearchData{All: imap.SeqSet{}}, nil
}
func (s *stub) Fetch(w *imapserver.FetchWriter, numSet imap.NumSet, options *imap.FetchOptions) error {
	s.call(fetchJ(numSet, options))
	return nil
}
func (s *stub) Store(w *imapserver.FetchWriter, numSet imap.NumSet, flags *imap.StoreFlags, options *imap.StoreOptions) error {
	op := "?"
	switch flags.Op {
	case imap.StoreFlagsSet:
		op = "set"
	case imap.StoreFlagsAdd:
		op = "add"
	case imap.StoreFlagsDel:
		op = "del"
	}
	m := M{"c": "STORE", "set": numSetJ(numSet), "op": op, "silent": flags.Silent, "flags": flagsJ(flags.Flags)}
	if options != nil && options.UnchangedSince != 0 {
		m["extra"] = true
	}
	s.call(m)
	return nil
}
func (s *stub) Copy(numSet imap.NumSet, dest string) (*imap.CopyData, error) {
	s.call(M{"c": "COPY", "set": numSetJ(numSet), "mbox": strJ(dest)})
	return nil, nil
}
func (s *stub) Move(w *imapserver.MoveWriter, numSet imap.NumSet, dest string) error {
	s.call(M{"c": "MOVE", "set": numSetJ(numSet), "mbox": strJ(dest)})
	return nil
}
func (s *stub) Namespace() (*imap.NamespaceData, error) {
	s.call(M{"c": "NAMESPACE"})
	return &imap.NamespaceData{}, nil
}

var _ imapserver.SessionIMAP4rev2 = (*stub)(nil)

// ---------------------------------------------------------------- one connection in one configuration

type connT struct {
	cfg   cfgT
	cl    *imapclient.Client
	conn  *vh.Conn
	sc    *vh.Conn
	stub  *stub
	srv   *srvT
	state string // notauth | auth | selected
}

// Time limits for one client call (everything is in memory: a call takes
// microseconds).  A command whose arguments the protocol need not carry
// (must = false: over-long or NUL strings) may be refused, and the client is
// known to block after some refusals (a matter of properties C10/C12), so it
// gets the short limit; a command that must complete gets the long one.
const (
	opTimeout      = 30 * time.Second
	opTimeoutShort = 2 * time.Second
)

// withTimeout runs f; a call that does not return within the limit is an
// observation (ok=false, err "timeout"), never a verdict by itself.
func withTimeout(f func() error) error { return withTimeoutD(opTimeout, f) }
func withTimeoutD(d time.Duration, f func() error) error {
	done := make(chan error, 1)
	go func() { done <- f() }()
	select {
	case err := <-done:
		return err
	case <-time.After(d):
		return fmt.Errorf("timeout: the client call did not return within %v", d)
	}
}

func dial(cfg cfgT) (*connT, error) {
	s := getServer(cfg.Caps)
	c := &connT{cfg: cfg, srv: s, stub: &stub{quiet: true}, state: "notauth"}
	conn, sc, err := s.ln.Dial2(func(server *vh.Conn) { s.reg.Put(server, c.stub) })
	if err != nil {
		return nil, err
	}
	c.conn, c.sc = conn, sc
	c.cl = imapclient.New(conn, nil)
	if err := withTimeout(c.cl.WaitGreeting); err != nil {
		c.close()
		return nil, fmt.Errorf("greeting: %v", err)
	}
	return c, nil
}

func (c *connT) close() {
	c.conn.Close()
	c.srv.reg.Drop(c.sc)
}

// reach brings the connection to the wanted state with unlogged commands.
func (c *connT) reach(want string) error {
	c.stub.setQuiet(true)
	if c.state == "notauth" && want != "notauth" {
		if err := withTimeout(func() error { return c.cl.Login("u", "p").Wait() }); err != nil {
			return fmt.Errorf("setup login: %v", err)
		}
		var caps []imap.Cap
		if c.cfg.UTF8 {
			caps = append(caps, imap.CapUTF8Accept)
		}
		if c.cfg.Rev2 {
			caps = append(caps, imap.CapIMAP4rev2)
		}
		if len(caps) > 0 {
			if err := withTimeout(func() error { _, err := c.cl.Enable(caps...).Wait(); return err }); err != nil {
				return fmt.Errorf("setup enable: %v", err)
			}
		}
		c.state = "auth"
	}
	if c.state == "auth" && want == "selected" {
		if err := withTimeout(func() error { _, err := c.cl.Select("work", nil).Wait(); return err }); err != nil {
			return fmt.Errorf("setup select: %v", err)
		}
		c.state = "selected"
	}
	if c.state == "selected" && want == "auth" {
		if err := withTimeout(func() error { return c.cl.Unselect().Wait() }); err != nil {
			return fmt.Errorf("setup unselect: %v", err)
		}
		c.state = "auth"
	}
	if c.state != want {
		return fmt.Errorf("cannot reach state %s from %s", want, c.state)
	}
	return nil
}

func wantedState(c string) string {
	switch c {
	case "LOGIN":
		return "notauth"
	case "FETCH", "STORE", "SEARCH", "COPY", "MOVE", "EXPUNGE", "UIDEXPUNGE", "UNSELECT", "CLOSE":
		return "selected"
	}
	return "auth"
}

// issue calls the client API with the arguments of the abstract command.
func (c *connT) issue(cmd M) (recvExtra []interface{}, err error) {
	cl := c.cl
	name, _ := cmd["c"].(string)
	switch name {
	case "LOGIN":
		err = cl.Login(strOf(cmd["user"]), strOf(cmd["pass"])).Wait()
	case "CREATE":
		var o *imap.CreateOptions
		if use := arr(cmd["use"]); len(use) > 0 {
			o = &imap.CreateOptions{}
			for _, a := range use {
				o.SpecialUse = append(o.SpecialUse, imap.MailboxAttr(strOf(a)))
			}
		}
		err = cl.Create(strOf(cmd["mbox"]), o).Wait()
	case "DELETE":
		err = cl.Delete(strOf(cmd["mbox"])).Wait()
	case "SUBSCRIBE":
		err = cl.Subscribe(strOf(cmd["mbox"])).Wait()
	case "UNSUBSCRIBE":
		err = cl.Unsubscribe(strOf(cmd["mbox"])).Wait()
	case "RENAME":
		err = cl.Rename(strOf(cmd["mbox"]), strOf(cmd["to"])).Wait()
	case "SELECT":
		var o *imap.SelectOptions
		if boolean(cmd["ro"]) {
			o = &imap.SelectOptions{ReadOnly: true}
		}
		_, err = cl.Select(strOf(cmd["mbox"]), o).Wait()
	case "LIST":
		sel, ret, lst := obj(cmd["lsel"]), obj(cmd["lret"]), obj(cmd["lst"])
		o := &imap.ListOptions{SelectSubscribed: boolean(sel["sub"]), SelectRemote: boolean(sel["remote"]), SelectRecursiveMatch: boolean(sel["rec"]),
			ReturnSubscribed: boolean(ret["sub"]), ReturnChildren: boolean(ret["children"])}
		if boolean(lst["on"]) {
			o.ReturnStatus = statusOptionsOf(lst["st"])
		}
		if *o == (imap.ListOptions{}) {
			o = nil
		}
		pats := arr(cmd["pats"])
		if len(pats) != 1 {
			return nil, fmt.Errorf("harness: Client.List takes exactly one pattern")
		}
		_, err = cl.List(strOf(cmd["ref"]), strOf(pats[0]), o).Collect()
	case "STATUS":
		_, err = cl.Status(strOf(cmd["mbox"]), statusOptionsOf(cmd["st"])).Wait()
	case "APPEND":
		data := strOf(cmd["data"])
		var o *imap.AppendOptions
		if fl, t := flagsOf(cmd["flags"]), instantOf(cmd["date"]); len(fl) > 0 || !t.IsZero() {
			o = &imap.AppendOptions{Flags: fl, Time: t}
		}
		ac := cl.Append(strOf(cmd["mbox"]), int64(len(data)), o)
		_, werr := ac.Write([]byte(data))
		cerr := ac.Close()
		_, err = ac.Wait()
		if err == nil && werr != nil {
			err = werr
		}
		if err == nil && cerr != nil {
			err = cerr
		}
	case "FETCH":
		err = cl.Fetch(numSetOf(cmd["set"]), fetchOptionsOf(cmd)).Close()
	case "STORE":
		var op imap.StoreFlagsOp
		switch cmd["op"] {
		case "set":
			op = imap.StoreFlagsSet
		case "add":
			op = imap.StoreFlagsAdd
		case "del":
			op = imap.StoreFlagsDel
		}
		err = cl.Store(numSetOf(cmd["set"]), &imap.StoreFlags{Op: op, Silent: boolean(cmd["silent"]), Flags: flagsOf(cmd["flags"])}, nil).Close()
	case "SEARCH":
		k := critOf(cmd["crit"])
		r := obj(cmd["sret"])
		o := &imap.SearchOptions{ReturnMin: boolean(r["min"]), ReturnMax: boolean(r["max"]), ReturnAll: boolean(r["all"]),
			ReturnCount: boolean(r["count"]), ReturnSave: boolean(r["save"])}
		if *o == (imap.SearchOptions{}) {
			o = nil
		}
		if boolean(cmd["uid"]) {
			_, err = cl.UIDSearch(&k, o).Wait()
		} else {
			_, err = cl.Search(&k, o).Wait()
		}
	case "COPY":
		_, err = cl.Copy(numSetOf(cmd["set"]), strOf(cmd["mbox"])).Wait()
	case "MOVE":
		_, err = cl.Move(numSetOf(cmd["set"]), strOf(cmd["mbox"])).Wait()
	case "EXPUNGE":
		err = cl.Expunge().Close()
	case "UIDEXPUNGE":
		err = cl.UIDExpunge(numSetOf(cmd["set"]).(imap.UIDSet)).Close()
	case "UNSELECT":
		err = cl.Unselect().Wait()
	case "CLOSE":
		err = cl.UnselectAndExpunge().Wait()
	case "NAMESPACE":
		_, err = cl.Namespace().Wait()
	case "IDLE":
		ch := make(chan struct{}, 1)
		c.stub.mu.Lock()
		c.stub.idled = ch
		c.stub.mu.Unlock()
		var ic *imapclient.IdleCommand
		ic, err = cl.Idle()
		if err == nil {
			select {
			case <-ch:
			case <-time.After(5 * time.Second):
			}
			err = ic.Close()
			if werr := ic.Wait(); err == nil {
				err = werr
			}
		}
	case "ENABLE":
		var caps []imap.Cap
		if boolean(cmd["utf8"]) {
			caps = append(caps, imap.CapUTF8Accept)
		}
		if boolean(cmd["rev2"]) {
			caps = append(caps, imap.CapIMAP4rev2)
		}
		var data *imapclient.EnableData
		data, err = cl.Enable(caps...).Wait()
		if err == nil {
			_, u := data.Caps[imap.CapUTF8Accept]
			_, r := data.Caps[imap.CapIMAP4rev2]
			m := M{"c": "ENABLED", "utf8": u, "rev2": r}
			if len(data.Caps) != btoi(u)+btoi(r) {
				m["extra"] = true
			}
			recvExtra = append(recvExtra, m)
		}
	case "CAPABILITY":
		var caps imap.CapSet
		caps, err = cl.Capability().Wait()
		if err == nil {
			has := func(c imap.Cap) bool { _, ok := caps[c]; return ok }
			recvExtra = append(recvExtra, M{"c": "CAPS", "caps": M{
				"rev1": has(imap.CapIMAP4rev1), "rev2": has(imap.CapIMAP4rev2), "literalminus": has(imap.CapLiteralMinus),
				"literalplus": has(imap.CapLiteralPlus), "saslir": has(imap.CapSASLIR), "unselect": has(imap.CapUnselect),
				"enable": has(imap.CapEnable), "idle": has(imap.CapIdle), "utf8accept": has(imap.CapUTF8Accept),
				"namespace": has(imap.CapNamespace), "uidplus": has(imap.CapUIDPlus), "esearch": has(imap.CapESearch),
				"searchres": has(imap.CapSearchRes), "listextended": has(imap.CapListExtended), "liststatus": has(imap.CapListStatus),
				"move": has(imap.CapMove), "statussize": has(imap.CapStatusSize), "binary": has(imap.CapBinary),
				"createspecialuse": has(imap.CapCreateSpecialUse)}})
		}
	default:
		return nil, fmt.Errorf("harness: unknown command %q", name)
	}
	return recvExtra, err
}

func btoi(b bool) int {
	if b {
		return 1
	}
	return 0
}

// pool keeps one connection per configuration for one worker.
type pool struct{ conns map[cfgT]*connT }

func (p *pool) closeAll() {
	for _, c := range p.conns {
		c.close()
	}
}

type record struct {
	Cfg  cfgT          `json:"cfg"`
	Cmd  M             `json:"cmd"`
	OK   bool          `json:"ok"`
	Recv []interface{} `json:"recv"`
	Err  string        `json:"err,omitempty"` // informational (not read by the judge)
}

// run issues one command in one configuration and records what happened.
// An error return is an infrastructure problem (set-up failed).
func (p *pool) run(cfg cfgT, cmd M, must bool) (*record, error) {
	name, _ := cmd["c"].(string)
	want := wantedState(name)
	c := p.conns[cfg]
	if c != nil && want == "notauth" {
		c = nil // LOGIN always gets its own connection
	}
	fresh := false
	if c == nil {
		var err error
		if c, err = dial(cfg); err != nil {
			return nil, err
		}
		fresh = true
		if want != "notauth" {
			p.conns[cfg] = c
		}
	}
	if err := c.reach(want); err != nil {
		c.close()
		delete(p.conns, cfg)
		if fresh {
			return nil, err
		}
		return p.run(cfg, cmd, must) // a connection left unusable by an earlier case: start over once
	}
	c.stub.begin()
	var extra []interface{}
	limit := opTimeout
	if !must {
		limit = opTimeoutShort
	}
	err := withTimeoutD(limit, func() error {
		var e error
		extra, e = c.issue(cmd)
		return e
	})
	c.stub.setQuiet(true)
	rec := &record{Cfg: cfg, Cmd: cmd, OK: err == nil, Recv: append(c.stub.calls(), extra...)}
	if err != nil {
		rec.Err = err.Error()
		if len(rec.Err) > 300 {
			rec.Err = rec.Err[:300]
		}
	}
	discard := err != nil || want == "notauth" || name == "ENABLE"
	if err == nil {
		switch name {
		case "SELECT":
			c.state = "selected"
		case "UNSELECT", "CLOSE":
			c.state = "auth"
		}
	}
	if discard {
		c.close()
		delete(p.conns, cfg)
	}
	return rec, nil
}

// ---------------------------------------------------------------- modes

type tcase struct {
	Cfg  cfgT          `json:"cfg"`
	Cmd  M             `json:"cmd"`
	Exp  []interface{} `json:"exp"`
	Must bool          `json:"must"`
	// contents of the opaque strings of cmd (replay of a random case): key -> base64
	Strings map[string]string `json:"strings,omitempty"`
}

// canon is the JSON text of v with object keys sorted.
func canon(v interface{}) string {
	b, _ := json.Marshal(v)
	var x interface{}
	json.Unmarshal(b, &x)
	b, _ = json.Marshal(x)
	return string(b)
}

var tStart = time.Now()

func phase(name string) {
	if os.Getenv("CMDSPACE_SLOW") != "" {
		fmt.Fprintf(os.Stderr, "phase %s at %v\n", name, time.Since(tStart))
	}
}

func runAll(cases []tcase, outPath string, out *vh.Out, mode string) {
	phase("start " + mode)
	defer phase("end " + mode)
	recs := make([]*record, len(cases))
	var infra error
	var mu sync.Mutex
	var wg sync.WaitGroup
	next := 0
	for w := 0; w < 16; w++ {
		wg.Add(1)
		go func() {
			defer wg.Done()
			p := &pool{conns: map[cfgT]*connT{}}
			defer p.closeAll()
			for {
				mu.Lock()
				i := next
				next++
				stop := infra != nil
				mu.Unlock()
				if i >= len(cases) || stop {
					return
				}
				t0 := time.Now()
				r, err := p.run(cases[i].Cfg, cases[i].Cmd, cases[i].Must)
				if d := time.Since(t0); d > 300*time.Millisecond && os.Getenv("CMDSPACE_SLOW") != "" {
					fmt.Fprintf(os.Stderr, "slow case %d: %v %v must=%v (%v)\n", i+1, d, cases[i].Cmd["c"], cases[i].Must, r != nil && r.OK)
				}
				if err != nil {
					mu.Lock()
					if infra == nil {
						infra = fmt.Errorf("case %d (%v): %v", i+1, cases[i].Cmd["c"], err)
					}
					mu.Unlock()
					return
				}
				recs[i] = r
			}
		}()
	}
	wg.Wait()
	phase("issued")
	if infra != nil {
		out.Summary(M{"infra_error": infra.Error()})
		return
	}
	fh, err := os.Create(outPath)
	if err != nil {
		out.Summary(M{"infra_error": err.Error()})
		return
	}
	exact, okN, refused, nontrivial := 0, 0, 0, 0
	perCmd := map[string]int{}
	perCfg := map[string]int{}
	var samples []interface{}
	bw := bufio.NewWriterSize(fh, 1<<20)
	for i, r := range recs {
		line, _ := json.Marshal(r)
		bw.Write(line)
		bw.WriteByte('\n')
		perCmd[r.Cmd["c"].(string)]++
		perCfg[fmt.Sprintf("%s/utf8=%v/rev2=%v", r.Cfg.Caps, r.Cfg.UTF8, r.Cfg.Rev2)]++
		if r.OK {
			okN++
		} else {
			refused++
		}
		if cases[i].Exp != nil {
			// the prediction printed by TLC compared with the raw observation: equal
			// without any normalisation (statistic only; the verdict is CmdSpaceTrace's)
			if recvJSON, _ := json.Marshal(r.Recv); r.OK && canon(json.RawMessage(recvJSON)) == canon(cases[i].Exp) {
				exact++
			}
		}
		if len(r.Recv) > 0 && len(line) > 200 {
			nontrivial++
		}
		if len(samples) < 3 && i%977 == 5 {
			samples = append(samples, M{"cfg": r.Cfg, "cmd": r.Cmd, "ok": r.OK, "recv": r.Recv})
		}
	}
	bw.Flush()
	fh.Close()
	out.Summary(M{"mode": mode, "behaviours": len(recs), "records": len(recs), "completed_ok": okN, "not_ok": refused,
		"raw_equal_to_prediction": exact, "nontrivial": nontrivial, "per_command": perCmd, "per_configuration": perCfg, "samples": samples})
}

func main() {
	out := vh.NewOut()
	defer out.Flush()
	if len(os.Args) < 3 {
		out.Summary(M{"infra_error": "usage: cmdspace gen|random|one ..."})
		return
	}
	switch os.Args[1] {
	case "gen":
		if len(os.Args) < 4 {
			out.Summary(M{"infra_error": "usage: cmdspace gen <tlc-output> <out.ndjson>"})
			return
		}
		type keyed struct {
			k string
			c tcase
		}
		var ks []keyed
		err := vh.ReadTLines(os.Args[2], func(p []byte) error {
			var tc tcase
			if err := json.Unmarshal(p, &tc); err != nil {
				return err
			}
			ks = append(ks, keyed{string(p), tc})
			return nil
		})
		if err != nil {
			out.Summary(M{"infra_error": err.Error()})
			return
		}
		// TLC prints with 16 workers in no fixed order: sort for reproducible line numbers
		sort.Slice(ks, func(i, j int) bool { return ks[i].k < ks[j].k })
		cases := make([]tcase, len(ks))
		for i := range ks {
			cases[i] = ks[i].c
		}
		runAll(cases, os.Args[3], out, "gen")
	case "one":
		if len(os.Args) < 4 {
			out.Summary(M{"infra_error": "usage: cmdspace one <case.json> <out.ndjson>"})
			return
		}
		b, err := os.ReadFile(os.Args[2])
		var tc tcase
		if err == nil {
			err = json.Unmarshal(b, &tc)
		}
		if err != nil {
			out.Summary(M{"infra_error": err.Error()})
			return
		}
		loadStrings(tc.Strings)
		tc.Must = true
		runAll([]tcase{tc}, os.Args[3], out, "one")
	case "random":
		fs := flag.NewFlagSet("random", flag.ExitOnError)
		seed := fs.Int64("seed", 1, "")
		n := fs.Int("n", 1000, "")
		fs.Parse(os.Args[3:])
		cases := randomCases(*seed, *n)
		runAll(cases, os.Args[2], out, "random")
		if err := saveStrings(os.Args[2] + ".strings"); err != nil {
			out.Summary(M{"infra_error": err.Error()})
		}
	default:
		out.Summary(M{"infra_error": "unknown mode " + os.Args[1]})
	}
}
