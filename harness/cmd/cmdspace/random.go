package main

import (
	"encoding/base64"
	"encoding/json"
	"math/rand"
	"os"
	"strings"
)

// Random commands with values larger than the catalogue of CmdSpace.tla (deep
// criteria trees, long header lists, random byte payloads, random sets, long
// strings).  Only the arguments are random; legality for the configuration is
// re-checked by the judge (CmdSpace!Legal), so a generator mistake is an
// infrastructure error, never a verdict.

type gen struct {
	r     *rand.Rand
	ext   bool // the configuration advertises the extensions
	nodes int  // criteria nodes left for the command being generated
}

var allCfgs = []cfgT{{"rev1", false, false}, {"rev1", true, false},
	{"rev2", false, false}, {"rev2", true, false}, {"rev2", false, true}, {"rev2", true, true},
	{"litplus", false, false}, {"litplus", true, false}}

var specials = []string{" ", "\"", "\\", "{", "}", "(", ")", "%", "*", "&", "]", "[", "~", "+", "-", "/", ".", ",", ":", "=", "\r\n", "\r", "\n", "\t",
	"é", "ß", "€", "ע", "日本", "😀", "&-", "&AOk-", "{3}", "{3+}", "NIL", "INBOX", "inbox/", "\x7f", "\x01"}

const letters = "abcdefghijklmnopqrstuvwxyzABCDEFGHIJKLMNOPQRSTUVWXYZ0123456789"

// str returns a random string without NUL that is valid UTF-8.
func (g *gen) str(maxLen int) string {
	r := g.r
	var n int
	switch k := r.Intn(10); {
	case k == 0:
		n = 0
	case k < 7:
		n = 1 + r.Intn(12)
	case k < 8:
		n = 13 + r.Intn(28)
	default:
		n = 41 + r.Intn(maxLen)
	}
	if n > maxLen {
		n = maxLen
	}
	var sb strings.Builder
	plain := r.Intn(3) == 0
	for sb.Len() < n {
		if plain || r.Intn(4) != 0 {
			sb.WriteByte(letters[r.Intn(len(letters))])
		} else {
			sb.WriteString(specials[r.Intn(len(specials))])
		}
	}
	s := sb.String()
	for len(s) > maxLen { // cut at a character boundary
		s = s[:len(s)-1]
		for len(s) > 0 && s[len(s)-1]&0xC0 == 0x80 {
			s = s[:len(s)-1]
		}
		if len(s) > 0 && s[len(s)-1] >= 0xC0 {
			s = s[:len(s)-1]
		}
	}
	return s
}

func (g *gen) S(maxLen int) []int { return register(g.str(maxLen)) }
func (g *gen) mbox() []int {
	if g.r.Intn(12) == 0 {
		return register([]string{"INBOX", "inbox", "InBoX", "INBOX/a", "inbo"}[g.r.Intn(5)])
	}
	return g.S(1200)
}
func (g *gen) pat() []int {
	for {
		if s := g.str(1200); s != "" {
			return register(s)
		}
	}
}

// num: 1..60 literally; special = 0 ("*") or 62, 63 (2^32-2, 2^32-1).  One set
// uses either "*" or the two largest numbers, never both: "63,*" and "63:*"
// denote the same messages in every mailbox, which the point model of
// CmdSpace!NormSet (where "*" is a point above every number) does not express.
func (g *gen) num(star bool) int {
	switch k := g.r.Intn(12); {
	case k == 0 && star:
		return 0
	case k == 0 || k == 1 && !star:
		return 62 + g.r.Intn(2)
	}
	return 1 + g.r.Intn(60)
}
func (g *gen) set(uid bool) M {
	n := 1 + g.r.Intn(4)
	if g.r.Intn(4) == 0 {
		n = 5 + g.r.Intn(12)
	}
	star := g.r.Intn(2) == 0
	r := []interface{}{}
	for i := 0; i < n; i++ {
		a := g.num(star)
		b := a
		if g.r.Intn(2) == 0 {
			b = g.num(star)
		}
		r = append(r, []int{a, b})
	}
	return M{"uid": uid, "sr": false, "r": r}
}
func (g *gen) anySet() M {
	if g.ext && g.r.Intn(15) == 0 {
		return M{"uid": true, "sr": true, "r": []interface{}{}}
	}
	return g.set(g.r.Intn(2) == 0)
}

var sysFlags = []string{"\\Seen", "\\Answered", "\\Flagged", "\\Deleted", "\\Draft", "\\seen", "\\DELETED", "\\dRaFt", "\\Recent", "\\Xyz"}

func (g *gen) flag() []int {
	if g.r.Intn(2) == 0 {
		return strJ(sysFlags[g.r.Intn(len(sysFlags))])
	}
	const atom = "abcdefghijklmnopqrstuvwxyzABCDEFGHIJKLMNOPQRSTUVWXYZ0123456789$_-.:;!#'+,<=>?@^`|~&/["
	n := 1 + g.r.Intn(10)
	b := make([]byte, n)
	for i := range b {
		b[i] = atom[g.r.Intn(len(atom))]
	}
	return strJ(string(b))
}
func (g *gen) flags(max int) []interface{} {
	out := []interface{}{}
	for i, n := 0, g.r.Intn(max+1); i < n; i++ {
		out = append(out, g.flag())
	}
	return out
}

func (g *gen) size() int {
	switch g.r.Intn(8) {
	case 0:
		return 2000000001
	case 1:
		return 2000000002
	case 2:
		return 1 + g.r.Intn(1000000000)
	}
	return 1 + g.r.Intn(100000)
}

func (g *gen) day() []int {
	if g.r.Intn(3) != 0 {
		return []int{0, 0, 0, 0}
	}
	return []int{1, 10957 + g.r.Intn(12000), g.r.Intn(86400), (g.r.Intn(105) - 48) * 15}
}

var hdrKeys = []string{"From", "FROM", "from", "To", "tO", "Cc", "cC", "Bcc", "BCC", "Subject", "sUBJECT", "Date", "Message-ID", "X-Spam", "x-a", "Received", "Reply-To"}

func (g *gen) hdrKey() []int {
	if g.r.Intn(3) != 0 {
		return strJ(hdrKeys[g.r.Intn(len(hdrKeys))])
	}
	for {
		if s := g.str(40); s != "" {
			return register(s)
		}
	}
}

func (g *gen) crit(depth int) M {
	r := g.r
	k := M{"seq": []interface{}{}, "uidset": []interface{}{}, "since": g.day(), "before": g.day(), "sentsince": g.day(), "sentbefore": g.day(),
		"header": []interface{}{}, "body": []interface{}{}, "text": []interface{}{}, "flag": []interface{}{}, "notflag": []interface{}{},
		"larger": 0, "smaller": 0, "not": []interface{}{}, "or": []interface{}{}}
	rep := func(p, max int, f func() interface{}) []interface{} {
		out := []interface{}{}
		if r.Intn(p) == 0 {
			for i, n := 0, 1+r.Intn(max); i < n; i++ {
				out = append(out, f())
			}
		}
		return out
	}
	k["seq"] = rep(4, 3, func() interface{} { return g.set(false) })
	k["uidset"] = rep(4, 3, func() interface{} {
		if g.ext && r.Intn(10) == 0 {
			return M{"uid": true, "sr": true, "r": []interface{}{}}
		}
		return g.set(true)
	})
	k["header"] = rep(3, 10, func() interface{} { return M{"k": g.hdrKey(), "v": g.S(300)} })
	k["body"] = rep(4, 4, func() interface{} { return g.S(3000) })
	k["text"] = rep(4, 4, func() interface{} { return g.S(3000) })
	k["flag"] = rep(3, 6, func() interface{} { return g.flag() })
	k["notflag"] = rep(3, 6, func() interface{} { return g.flag() })
	if r.Intn(4) == 0 {
		k["larger"] = g.size()
	}
	if r.Intn(4) == 0 {
		k["smaller"] = g.size()
	}
	if depth > 0 && g.nodes > 0 {
		sub := func() M { g.nodes--; return g.crit(depth - 1) }
		k["not"] = rep(2, 3, func() interface{} { return sub() })
		k["or"] = rep(2, 2, func() interface{} { return []interface{}{sub(), sub()} })
	}
	return k
}

func (g *gen) part() []int {
	p := []int{}
	for i, n := 0, g.r.Intn(5); i < n; i++ {
		p = append(p, 1+g.r.Intn(30))
	}
	return p
}
func (g *gen) partial() M {
	if g.r.Intn(3) != 0 {
		return M{"on": false, "off": 0, "sz": 0}
	}
	off := g.size()
	if g.r.Intn(3) == 0 {
		off = 0
	}
	return M{"on": true, "off": off, "sz": g.size()}
}
func (g *gen) hdrNames(max int) []interface{} {
	out := []interface{}{}
	for i, n := 0, 1+g.r.Intn(max); i < n; i++ {
		out = append(out, g.hdrKey())
	}
	return out
}
func (g *gen) section() M {
	s := M{"spec": "", "part": g.part(), "hf": []interface{}{}, "hfn": []interface{}{}, "partial": g.partial(), "peek": g.r.Intn(2) == 0}
	switch g.r.Intn(6) {
	case 0:
		s["spec"] = "HEADER"
	case 1:
		s["spec"] = "TEXT"
	case 2:
		if len(s["part"].([]int)) > 0 {
			s["spec"] = "MIME"
		}
	case 3:
		s["spec"] = "HEADER"
		s["hf"] = g.hdrNames(20)
	case 4:
		s["spec"] = "HEADER"
		s["hfn"] = g.hdrNames(20)
	}
	return s
}

func (g *gen) stItems() M {
	names := []string{"messages", "uidnext", "uidvalidity", "unseen"}
	st := M{"messages": false, "uidnext": false, "uidvalidity": false, "unseen": false, "deleted": false, "size": false}
	if g.ext {
		names = append(names, "size")
	}
	any := false
	for _, n := range names {
		if g.r.Intn(2) == 0 {
			st[n] = true
			any = true
		}
	}
	if !any {
		st["messages"] = true
	}
	return st
}

func (g *gen) payload() []int {
	r := g.r
	n := 1 + r.Intn(200)
	switch r.Intn(5) {
	case 0:
		n = 4090 + r.Intn(12)
	case 1:
		n = 4097 + r.Intn(20000)
	}
	b := make([]byte, n)
	for i := range b {
		b[i] = byte(1 + r.Intn(255)) // any octet but NUL (CHAR8)
	}
	if r.Intn(3) == 0 {
		for i := 0; i+1 < n; i += 1 + r.Intn(80) {
			b[i], b[i+1] = '\r', '\n'
		}
	}
	return register(string(b))
}

func (g *gen) command(cfg cfgT) M {
	r := g.r
	g.ext = cfg.Caps != "rev1"
	noItems := M{"envelope": false, "flags": false, "internaldate": false, "rfc822size": false, "uid": false}
	switch k := r.Intn(100); {
	case k < 30:
		sret := M{"min": false, "max": false, "all": false, "count": false, "save": false}
		if g.ext && r.Intn(3) == 0 {
			for _, n := range []string{"min", "max", "all", "count"} {
				sret[n] = r.Intn(2) == 0
			}
		}
		depth := 1 + r.Intn(4)
		if r.Intn(6) == 0 {
			depth = 6
		}
		g.nodes = 12
		return M{"c": "SEARCH", "uid": r.Intn(2) == 0, "crit": g.crit(depth), "sret": sret}
	case k < 45:
		items := M{}
		for n := range noItems {
			items[n] = r.Intn(3) == 0
		}
		bs := []string{"none", "none", "body", "ext"}[r.Intn(4)]
		secs, bin, binsz := []interface{}{}, []interface{}{}, []interface{}{}
		for i, n := 0, r.Intn(4)+r.Intn(2)*r.Intn(8); i < n; i++ {
			secs = append(secs, g.section())
		}
		if g.ext {
			for i, n := 0, r.Intn(3); i < n; i++ {
				bin = append(bin, M{"part": g.part(), "partial": g.partial(), "peek": r.Intn(2) == 0})
			}
			for i, n := 0, r.Intn(3); i < n; i++ {
				binsz = append(binsz, g.part())
			}
		}
		if len(secs)+len(bin)+len(binsz) == 0 && bs == "none" {
			items["flags"] = true
		}
		return M{"c": "FETCH", "set": g.anySet(), "items": items, "bs": bs, "secs": secs, "bin": bin, "binsz": binsz}
	case k < 53:
		return M{"c": "STORE", "set": g.anySet(), "op": []string{"set", "add", "del"}[r.Intn(3)], "silent": r.Intn(2) == 0, "flags": g.flags(10)}
	case k < 63:
		date := M{"set": false, "t": 0, "zone": 0, "frac": 0}
		if r.Intn(3) != 0 {
			date = M{"set": true, "t": 946684800 + r.Intn(1000000000), "zone": (r.Intn(105) - 48) * 15, "frac": r.Intn(2)}
		}
		return M{"c": "APPEND", "mbox": g.mbox(), "flags": g.flags(6), "date": date, "data": g.payload()}
	case k < 71:
		lsel := M{"sub": false, "remote": false, "rec": false}
		lret := M{"sub": false, "children": false}
		lst := M{"on": false, "st": M{"messages": false, "uidnext": false, "uidvalidity": false, "unseen": false, "deleted": false, "size": false}}
		if g.ext && r.Intn(2) == 0 {
			lsel["sub"], lsel["remote"] = r.Intn(2) == 0, r.Intn(2) == 0
			lsel["rec"] = lsel["sub"].(bool) && r.Intn(2) == 0
			lret["sub"], lret["children"] = r.Intn(2) == 0, r.Intn(2) == 0
			if r.Intn(2) == 0 {
				lst = M{"on": true, "st": g.stItems()}
			}
		}
		return M{"c": "LIST", "ref": g.mbox(), "pats": []interface{}{g.pat()}, "lsel": lsel, "lret": lret, "lst": lst}
	case k < 75:
		return M{"c": "STATUS", "mbox": g.mbox(), "st": g.stItems()}
	case k < 79:
		return M{"c": "RENAME", "mbox": g.mbox(), "to": g.mbox()}
	case k < 83:
		return M{"c": []string{"DELETE", "SUBSCRIBE", "UNSUBSCRIBE"}[r.Intn(3)], "mbox": g.mbox()}
	case k < 86:
		return M{"c": "SELECT", "mbox": g.mbox(), "ro": r.Intn(2) == 0}
	case k < 89:
		use := []interface{}{}
		if g.ext && r.Intn(2) == 0 {
			attrs := []string{"\\Drafts", "\\Sent", "\\Trash", "\\Junk", "\\Archive", "\\All", "\\Flagged", "\\dRAFTS", "\\X-Custom"}
			for i, n := 0, 1+r.Intn(3); i < n; i++ {
				use = append(use, strJ(attrs[r.Intn(len(attrs))]))
			}
		}
		return M{"c": "CREATE", "mbox": g.mbox(), "use": use}
	case k < 94:
		name := "COPY"
		if g.ext && r.Intn(2) == 0 {
			name = "MOVE"
		}
		return M{"c": name, "set": g.anySet(), "mbox": g.mbox()}
	case k < 96 && g.ext:
		return M{"c": "UIDEXPUNGE", "set": g.set(true)}
	default:
		if !cfg.UTF8 && !cfg.Rev2 {
			return M{"c": "LOGIN", "user": g.S(3000), "pass": g.S(3000)}
		}
		return M{"c": "DELETE", "mbox": g.mbox()}
	}
}

func randomCases(seed int64, n int) []tcase {
	g := &gen{r: rand.New(rand.NewSource(seed))}
	cases := make([]tcase, 0, n)
	for i := 0; i < n; i++ {
		cfg := allCfgs[g.r.Intn(len(allCfgs))]
		cmd := g.command(cfg)
		// through JSON, so that the command has the same generic form as a TLC-printed one
		b, _ := json.Marshal(cmd)
		var m M
		json.Unmarshal(b, &m)
		cases = append(cases, tcase{Cfg: cfg, Cmd: m, Must: true}) // no over-long or NUL strings are generated
	}
	return cases
}

// The contents of opaque strings, for replaying a recorded case.
func saveStrings(path string) error {
	opaqueMu.Lock()
	defer opaqueMu.Unlock()
	m := map[string]string{}
	for k, v := range opaque {
		m[k] = base64.StdEncoding.EncodeToString([]byte(v))
	}
	b, _ := json.Marshal(m)
	return os.WriteFile(path, b, 0o644)
}

func loadStrings(m map[string]string) {
	opaqueMu.Lock()
	defer opaqueMu.Unlock()
	for k, v := range m {
		if b, err := base64.StdEncoding.DecodeString(v); err == nil {
			opaque[k] = string(b)
		}
	}
}
