// Command starttls binds spec/StartTLS.tla to go-imap's STARTTLS code on both
// sides (property C17).
//
//	starttls replay <tlc-output>    re-enact every (configuration, stream, segmentation) case TLC printed
//	starttls one <case.json>        re-enact one case
//	starttls random <out.ndjson>    random streams / segmentations / configurations, recorded for StartTLSTrace
//
// Server side: a raw peer writes the stream (e.g. `a STARTTLS` CRLF `b LOGIN u p` CRLF) to a real
// imapserver.Server in the given segmentation, reads the tagged OK and then performs a real TLS
// client handshake on the same connection.  Client side: a scripted peer answers the STARTTLS
// command of a real imapclient (NewStartTLS) with the tagged OK plus a plaintext suffix and then
// speaks real TLS.  What happens is recorded as a sequence of events in the order it happened at
// the receiver (the receiver's end of the in-memory connection is tapped: every Read is a
// Deliver, every plaintext tagged response written by the server is a Resp, stub Session calls
// are Call events, unilateral data handler calls are Handler events).
package main

import (
	"bytes"
	"crypto/tls"
	"encoding/json"
	"errors"
	"flag"
	"fmt"
	"io"
	"math/rand"
	"net"
	"os"
	"runtime"
	"sort"
	"strings"
	"sync"
	"sync/atomic"
	"time"

	"github.com/emersion/go-imap/v2"
	"github.com/emersion/go-imap/v2/imapclient"
	"github.com/emersion/go-imap/v2/imapserver"

	"verif/harness/vh"
)

type config struct {
	TLS          bool
	InsecureAuth bool
	PreAuth      bool
	HasTLSConfig bool
	CapMove      bool
	CapNamespace bool
	CapUnauth    bool
	Sasl         bool
}

type line struct {
	Tag string `json:"tag"`
	C   string `json:"c"`
	N   int    `json:"n"`
}

type capsObs struct {
	Auth     bool `json:"auth"`
	LoginDis bool `json:"logindis"`
	StartTLS bool `json:"starttls"`
	Idle     bool `json:"idle"`
}

type respT struct {
	Tag string `json:"tag"`
	Cls string `json:"cls"`
}

type srvExp struct {
	Resps    []respT  `json:"resps"`
	Calls    []string `json:"calls"`
	Switched bool     `json:"switched"`
	Garbage  int      `json:"garbage"`
	Caps     capsObs  `json:"caps"`
	Login    string   `json:"login"`
	State    string   `json:"state"`
}

type cliExp struct {
	MustErr  bool   `json:"mustErr"`
	Handler  []int  `json:"handler"`
	Upgraded bool   `json:"upgraded"`
	Garbage  int    `json:"garbage"`
	Result   string `json:"result"`
}

type caseT struct {
	Side   string          `json:"side"`
	Cfg    config          `json:"cfg"`
	Stream []line          `json:"stream"`
	Segs   []int           `json:"segs"`           // sizes of the writes
	Real   bool            `json:"real,omitempty"` // Segs are real byte counts (else model bytes, 4 per line)
	Async  []bool          `json:"async,omitempty"`
	Exp    json.RawMessage `json:"exp,omitempty"`
}

type event map[string]interface{}

const (
	rvTimeout   = 4 * time.Second
	lineTimeout = 4 * time.Second
	hsTimeout   = 2 * time.Second
	earlyWindow = 100 * time.Millisecond
)

// ---------------------------------------------------------------- text of the lines

func srvCmdText(c string) string {
	switch c {
	case "LOGIN":
		return "LOGIN u p"
	case "AUTHENTICATE":
		return "AUTHENTICATE PLAIN AHUAcA=="
	case "AUTHENTICATE-X":
		return "AUTHENTICATE XTEST eHRlc3Q="
	case "ENABLE":
		return "ENABLE IMAP4rev2"
	case "CREATE", "DELETE", "SUBSCRIBE", "UNSUBSCRIBE", "SELECT", "EXAMINE":
		return c + " x"
	case "RENAME":
		return "RENAME x y"
	case "STATUS":
		return "STATUS x (MESSAGES)"
	case "LIST", "LSUB":
		return c + ` "" "*"`
	case "UID EXPUNGE":
		return "UID EXPUNGE 1"
	case "FETCH", "UID FETCH":
		return c + " 1 FLAGS"
	case "STORE", "UID STORE":
		return c + ` 1 +FLAGS (\Seen)`
	case "COPY", "UID COPY", "MOVE", "UID MOVE":
		return c + " 1 x"
	case "SEARCH", "UID SEARCH":
		return c + " ALL"
	case "XUNKNOWN":
		return "XYZZY"
	}
	return c
}

const (
	plainCaps = "IMAP4rev1 STARTTLS LOGINDISABLED"
	evilCaps  = "IMAP4rev1 AUTH=PLAIN XEVIL"
	tlsCaps   = "IMAP4rev1 AUTH=PLAIN XINSIDE"
	cliTag    = "T1" // tag of the first command an imapclient sends
)

func cliLineText(l line, idx int) string {
	switch l.C {
	case "GOK":
		return "* OK ready"
	case "GOKC":
		return "* OK [CAPABILITY " + plainCaps + "] ready"
	case "GPREAUTH":
		return "* PREAUTH [CAPABILITY " + plainCaps + "] hi"
	case "GBYE":
		return "* BYE busy"
	case "TOK":
		return cliTag + " OK Begin TLS negotiation now"
	case "TOKC":
		return cliTag + " OK [CAPABILITY " + evilCaps + "] Begin TLS negotiation now"
	case "CONT":
		return "+ aW5qZWN0ZWQgaW4gcGxhaW50ZXh0" // a continuation request nobody asked for
	case "CAPS":
		return "* CAPABILITY " + evilCaps
	case "OKCAPS":
		return "* OK [CAPABILITY " + evilCaps + "] hi"
	case "EXISTS":
		return fmt.Sprintf("* %d EXISTS", 100+idx)
	case "EXPUNGE":
		return fmt.Sprintf("* %d EXPUNGE", 100+idx)
	case "TAGGED":
		return "X9 OK done"
	case "BYE":
		return "* BYE bye"
	case "PREAUTH":
		return "* PREAUTH hi"
	case "OKTEXT":
		return "* OK still here"
	case "NO":
		return "* NO careful"
	case "BAD":
		return "* BAD what"
	case "FLAGS":
		return `* FLAGS (\Seen)`
	case "LIST":
		return `* LIST () "/" x`
	case "GARBAGE":
		return "\x16\x03\x01 junk"
	}
	return "* OK " + l.C
}

func lineText(side string, l line, idx int) string {
	if side == "server" {
		return l.Tag + " " + srvCmdText(l.C) + "\r\n"
	}
	return cliLineText(l, idx) + "\r\n"
}

// realSegs cuts the real byte stream as the case says.  Model bytes: a line is
// (first half of the text)(second half)(CR)(LF).
func realSegs(cs *caseT) (texts []string, segs [][]byte) {
	var all []byte
	var modelOff []int // modelOff[m] = real offset after m model bytes
	modelOff = append(modelOff, 0)
	for i, l := range cs.Stream {
		t := lineText(cs.Side, l, i+1)
		texts = append(texts, t)
		base := len(all)
		body := len(t) - 2
		modelOff = append(modelOff, base+body/2, base+body, base+body+1, base+body+2)
		all = append(all, t...)
	}
	pos, m := 0, 0
	for _, k := range cs.Segs {
		var end int
		if cs.Real {
			end = pos + k
		} else {
			m += k
			if m >= len(modelOff) {
				m = len(modelOff) - 1
			}
			end = modelOff[m]
		}
		if end > len(all) {
			end = len(all)
		}
		if end > pos {
			segs = append(segs, all[pos:end])
		}
		pos = end
	}
	if pos < len(all) {
		segs = append(segs, all[pos:])
	}
	return
}

// ---------------------------------------------------------------- per-connection context and tap

type connCtx struct {
	mu        sync.Mutex
	cond      *sync.Cond
	events    []event
	streamLen int  // bytes of the stream (Deliver is logged for these only)
	cum       int  // stream bytes read so far by the receiver
	total     int  // all bytes read by the receiver
	closed    bool // receiver closed its end
	probing   bool // plaintext probe in progress: the tap does not log responses
	partial   []byte
	stub      *vh.ScriptSession
}

func newCtx() *connCtx { c := &connCtx{}; c.cond = sync.NewCond(&c.mu); return c }

func (x *connCtx) log(e event) {
	x.mu.Lock()
	x.events = append(x.events, e)
	x.mu.Unlock()
}

func (x *connCtx) setStream(n int) { x.mu.Lock(); x.streamLen = n; x.mu.Unlock() }

func (x *connCtx) onRead(n int) {
	x.mu.Lock()
	k := x.streamLen - x.cum
	if k > n {
		k = n
	}
	if k > 0 {
		x.events = append(x.events, event{"ev": "Deliver", "k": k})
		x.cum += k
	}
	x.total += n
	x.cond.Broadcast()
	x.mu.Unlock()
}

func (x *connCtx) onClose() {
	x.mu.Lock()
	x.closed = true
	x.cond.Broadcast()
	x.mu.Unlock()
}

// waitRead blocks until the receiver has read `written` bytes or closed (bounded).
func (x *connCtx) waitRead(written int) bool {
	t := time.AfterFunc(rvTimeout, func() { x.mu.Lock(); x.cond.Broadcast(); x.mu.Unlock() })
	defer t.Stop()
	dl := time.Now().Add(rvTimeout)
	x.mu.Lock()
	defer x.mu.Unlock()
	for x.total < written && !x.closed {
		if !time.Now().Before(dl) {
			return false
		}
		x.cond.Wait()
	}
	return true
}

// waitClosed waits (bounded) until the receiver has closed its end.
func (x *connCtx) waitClosed(d time.Duration) {
	t := time.AfterFunc(d, func() { x.mu.Lock(); x.cond.Broadcast(); x.mu.Unlock() })
	defer t.Stop()
	dl := time.Now().Add(d)
	x.mu.Lock()
	defer x.mu.Unlock()
	for !x.closed && time.Now().Before(dl) {
		x.cond.Wait()
	}
}

func isTLSRecord(p []byte) bool {
	return len(p) >= 3 && p[0] >= 20 && p[0] <= 23 && p[1] == 3 && p[2] <= 4
}

func respClass(name string) string {
	if strings.EqualFold(name, "OK") {
		return "OK"
	}
	return "NOTOK"
}

// onServerWrite looks at what the server puts on the wire: plaintext tagged responses are events.
func (x *connCtx) onServerWrite(p []byte) {
	x.mu.Lock()
	defer x.mu.Unlock()
	if len(x.partial) == 0 && isTLSRecord(p) {
		return
	}
	x.partial = append(x.partial, p...)
	for {
		i := bytes.IndexByte(x.partial, '\n')
		if i < 0 {
			break
		}
		ln := strings.TrimRight(string(x.partial[:i]), "\r")
		x.partial = x.partial[i+1:]
		if len(x.partial) > 0 && isTLSRecord(x.partial) {
			x.partial = nil
		}
		f := strings.SplitN(ln, " ", 3)
		if len(f) < 2 || f[0] == "*" || f[0] == "+" || x.probing {
			continue
		}
		x.events = append(x.events, event{"ev": "Resp", "tag": f[0], "cls": respClass(f[1]), "layer": "plain"})
	}
	if len(x.partial) > 0 && !bytes.ContainsAny(x.partial[:1], "*+abcdefghijklmnopqrstuvwxyzABCDEFGHIJKLMNOPQRSTUVWXYZ0123456789") {
		x.partial = nil // binary (TLS alert etc.)
	}
}

// tapConn is the receiver's end of the connection.
type tapConn struct {
	net.Conn
	x      *connCtx
	server bool
}

func (t *tapConn) Read(p []byte) (int, error) {
	n, err := t.Conn.Read(p)
	if n > 0 {
		t.x.onRead(n)
	}
	return n, err
}

func (t *tapConn) Write(p []byte) (int, error) {
	if t.server {
		t.x.onServerWrite(p)
	}
	return t.Conn.Write(p)
}

func (t *tapConn) Close() error {
	t.x.onClose()
	return t.Conn.Close()
}

// lineReader reads CRLF lines with a deadline and keeps what it read beyond.
type lineReader struct {
	c   io.Reader
	dl  interface{ SetReadDeadline(time.Time) error }
	buf []byte
}

func (r *lineReader) ReadLine(d time.Duration) (string, error) {
	deadline := time.Now().Add(d)
	for {
		if i := bytes.IndexByte(r.buf, '\n'); i >= 0 {
			ln := string(r.buf[:i+1])
			r.buf = r.buf[i+1:]
			return strings.TrimRight(ln, "\r\n"), nil
		}
		r.dl.SetReadDeadline(deadline)
		tmp := make([]byte, 4096)
		n, err := r.c.Read(tmp)
		r.buf = append(r.buf, tmp[:n]...)
		if err != nil && n == 0 {
			return "", err
		}
	}
}

// prefixConn serves pre before reading from the connection.
type prefixConn struct {
	net.Conn
	pre []byte
}

func (p *prefixConn) Read(b []byte) (int, error) {
	if len(p.pre) > 0 {
		n := copy(b, p.pre)
		p.pre = p.pre[n:]
		return n, nil
	}
	return p.Conn.Read(b)
}

// ---------------------------------------------------------------- servers (one per configuration)

type srvT struct {
	srv     *imapserver.Server
	ln      *vh.Listener
	pending sync.Map // *vh.Conn -> *connCtx (between Dial2's prep and Wrap)
	byTap   sync.Map // *tapConn -> *connCtx
	log     *vh.LogBuf
}

var (
	srvMu   sync.Mutex
	servers = map[config]*srvT{}
)

func getServer(cfg config) *srvT {
	srvMu.Lock()
	defer srvMu.Unlock()
	if s, ok := servers[cfg]; ok {
		return s
	}
	s := &srvT{ln: vh.NewListener(), log: vh.NewLogBuf()}
	opts := &imapserver.Options{
		Caps:         imap.CapSet{imap.CapIMAP4rev1: {}},
		InsecureAuth: cfg.InsecureAuth,
		Logger:       s.log,
		NewSession: func(c *imapserver.Conn) (imapserver.Session, *imapserver.GreetingData, error) {
			v, ok := s.byTap.Load(c.NetConn())
			if !ok {
				return nil, nil, errors.New("harness: unknown connection")
			}
			if cfg.Sasl {
				return v.(*connCtx).stub.WrapSASL(false), &imapserver.GreetingData{}, nil
			}
			return v.(*connCtx).stub, &imapserver.GreetingData{}, nil
		},
	}
	if cfg.HasTLSConfig {
		opts.TLSConfig = vh.ServerTLSConfig()
	}
	s.ln.Wrap = func(c net.Conn) net.Conn {
		v, _ := s.pending.LoadAndDelete(c)
		t := &tapConn{Conn: c, x: v.(*connCtx), server: true}
		s.byTap.Store(net.Conn(t), t.x)
		return t
	}
	s.srv = imapserver.New(opts)
	go s.srv.Serve(s.ln)
	servers[cfg] = s
	return s
}

// ---------------------------------------------------------------- result of a run

type result struct {
	events []event
	infra  string // harness-level problem (not a verdict)
	hung   string // a client API call did not return after the connection broke (outside C17, see C13)
	// a line the server wrote in plaintext that offers an authentication mechanism (in a capability list: greeting
	// code, CAPABILITY response, any response code)
	plainAuth string
	// Idle() returned inside TLS before the peer had sent its continuation request there
	stalePlus bool
}

// offersAuth: does the line carry a capability list that offers credentials-bearing authentication?
func offersAuth(ln string) bool {
	up := strings.ToUpper(ln)
	i := strings.Index(up, "CAPABILITY ")
	if i < 0 || !(strings.HasPrefix(up, "* CAPABILITY ") || strings.Contains(up, "[CAPABILITY ")) {
		return false
	}
	rest := up[i:]
	if j := strings.IndexByte(rest, ']'); j >= 0 && strings.Contains(up, "[CAPABILITY ") {
		rest = rest[:j]
	}
	for _, t := range strings.Fields(rest) {
		if strings.HasPrefix(t, "AUTH=") {
			return true
		}
	}
	return false
}

func tagCmd(cs *caseT, tag string) string {
	for _, l := range cs.Stream {
		if l.Tag == tag {
			return l.C
		}
	}
	return "?"
}

func asyncAt(cs *caseT, i int) bool { return i < len(cs.Async) && cs.Async[i] }

// ---------------------------------------------------------------- server side

func runServer(cs *caseT) *result {
	res := &result{}
	s := getServer(cs.Cfg)
	x := newCtx()
	x.stub = &vh.ScriptSession{}
	x.stub.Hook = func(m string, args interface{}) { x.log(event{"ev": "Call", "m": m}) }
	c, _, err := s.ln.Dial2(func(server *vh.Conn) { s.pending.Store(net.Conn(server), x) })
	if err != nil {
		res.infra = "dial: " + err.Error()
		return res
	}
	defer func() {
		c.Close()
		x.mu.Lock()
		res.events = x.events
		x.mu.Unlock()
	}()
	lr := &lineReader{c: c, dl: c}
	g, err := lr.ReadLine(lineTimeout)
	if err != nil || !strings.HasPrefix(g, "* OK") {
		res.infra = fmt.Sprintf("greeting %q: %v", g, err)
		return res
	}
	texts, segs := realSegs(cs)
	stream := make([]line, len(cs.Stream))
	total := 0
	for i, l := range cs.Stream {
		stream[i] = line{l.Tag, l.C, len(texts[i])}
		total += len(texts[i])
	}
	x.setStream(total)
	x.log(event{"ev": "Reset", "side": "server", "cfg": cs.Cfg, "stream": stream})

	written := 0
	for i, sg := range segs {
		if _, err := c.Write(sg); err != nil {
			break // the server closed (e.g. its TLS layer choked on plaintext)
		}
		written += len(sg)
		if !asyncAt(cs, i) {
			if !x.waitRead(written) {
				res.infra = fmt.Sprintf("rendez-vous: server did not read segment %d within %v", i, rvTimeout)
				return res
			}
		}
	}
	// plaintext responses: until every tag is answered, the STARTTLS OK, or EOF
	left := map[string]bool{}
	for _, l := range cs.Stream {
		left[l.Tag] = true
	}
	switched, eof := false, false
	for len(left) > 0 {
		ln, err := lr.ReadLine(lineTimeout)
		if err != nil {
			if errors.Is(err, os.ErrDeadlineExceeded) {
				res.infra = fmt.Sprintf("no tagged response for %v within %v", keys(left), lineTimeout)
				return res
			}
			eof = true
			break
		}
		if res.plainAuth == "" && offersAuth(ln) {
			res.plainAuth = ln
		}
		f := strings.SplitN(ln, " ", 3)
		if len(f) < 2 || f[0] == "*" || f[0] == "+" {
			continue
		}
		delete(left, f[0])
		if tagCmd(cs, f[0]) == "STARTTLS" && f[1] == "OK" {
			switched = true
			break
		}
	}
	var rw io.ReadWriter = &prefixConn{Conn: c, pre: lr.buf}
	if switched {
		tc := tls.Client(rw.(net.Conn), vh.ClientTLSConfig())
		c.SetReadDeadline(time.Now().Add(hsTimeout))
		herr := tc.Handshake()
		x.log(event{"ev": "Handshake", "ok": herr == nil})
		if herr != nil {
			// nothing behind the STARTTLS line and still no TLS: the harness cannot go on (not a verdict)
			if written == total && suffixLen(cs, texts) == 0 {
				res.infra = "TLS handshake failed although nothing followed the STARTTLS line: " + herr.Error()
				return res
			}
			// give the server the chance to show what it does with the rest
			x.waitClosed(300 * time.Millisecond)
			x.log(event{"ev": "End"})
			return res
		}
		rw = tc
	} else if eof {
		x.log(event{"ev": "End"})
		return res
	}
	// probes through the established layer
	plr := &lineReader{c: rw, dl: c}
	layer := "plain"
	if switched {
		layer = "tls"
	}
	gone := false
	for i, pc := range []string{"NOOP", "CAPABILITY", "LOGIN"} {
		tag := fmt.Sprintf("z%d", i)
		text := srvCmdText(pc)
		if pc == "LOGIN" {
			text = "LOGIN probe pw"
		}
		x.mu.Lock()
		x.probing = true
		if i > 0 {
			x.events = append(x.events, event{"ev": "Probe", "c": pc})
		}
		x.mu.Unlock()
		if _, err := io.WriteString(rw, tag+" "+text+"\r\n"); err != nil {
			if i == 0 && cs.Real {
				break // connection is gone (LOGOUT, BYE): nothing to probe
			}
			res.infra = "probe write: " + err.Error()
			return res
		}
		var caps *capsObs
		for {
			ln, err := plr.ReadLine(lineTimeout)
			if err != nil {
				if i == 0 && cs.Real && !errors.Is(err, os.ErrDeadlineExceeded) {
					gone = true
					break
				}
				res.infra = fmt.Sprintf("probe %s: %v (server log: %v)", pc, err, tail(s.log.Snapshot()))
				return res
			}
			f := strings.SplitN(ln, " ", 3)
			if len(f) < 2 {
				continue
			}
			if f[0] == "*" {
				if strings.EqualFold(f[1], "CAPABILITY") {
					caps = &capsObs{}
					for _, t := range strings.Fields(ln)[2:] {
						switch strings.ToUpper(t) {
						case "AUTH=PLAIN", "AUTH=XTEST":
							caps.Auth = true
						case "LOGINDISABLED":
							caps.LoginDis = true
						case "STARTTLS":
							caps.StartTLS = true
						case "IDLE":
							caps.Idle = true
						}
					}
				}
				continue
			}
			if f[0] == tag {
				if i == 0 {
					x.log(event{"ev": "Probe", "c": pc})
				}
				e := event{"ev": "ProbeResp", "c": pc, "cls": respClass(f[1])}
				if pc == "CAPABILITY" {
					if caps == nil {
						caps = &capsObs{}
					}
					e["caps"] = caps
				}
				x.log(e)
				break
			}
			// a tagged response that is not ours: somebody answered a line of the stream
			x.log(event{"ev": "Resp", "tag": f[0], "cls": respClass(f[1]), "layer": layer})
		}
		x.mu.Lock()
		x.probing = false
		x.mu.Unlock()
		if gone {
			break
		}
	}
	x.log(event{"ev": "End"})
	return res
}

func suffixLen(cs *caseT, texts []string) int {
	n, seen := 0, false
	for i, l := range cs.Stream {
		if seen {
			n += len(texts[i])
		}
		if l.C == "STARTTLS" || l.C == "TOK" || l.C == "TOKC" {
			seen = true
		}
	}
	return n
}

func keys(m map[string]bool) []string {
	var out []string
	for k := range m {
		out = append(out, k)
	}
	sort.Strings(out)
	return out
}

func tail(s []string) []string {
	if len(s) > 3 {
		return s[len(s)-3:]
	}
	return s
}

// ---------------------------------------------------------------- client side

func capList(cs imap.CapSet) []string {
	out := []string{}
	for c := range cs {
		out = append(out, string(c))
	}
	sort.Strings(out)
	return out
}

func stateName(s imap.ConnState) string {
	switch s {
	case imap.ConnStateNotAuthenticated:
		return "notauth"
	case imap.ConnStateAuthenticated:
		return "auth"
	case imap.ConnStateSelected:
		return "selected"
	case imap.ConnStateLogout:
		return "logout"
	}
	return "none"
}

func runClient(cs *caseT) *result {
	var contSent int32 // the TLS peer has written its "+ idling"
	res := &result{}
	x := newCtx()
	peer, cc := vh.NewConnPair()
	tap := &tapConn{Conn: cc, x: x}
	defer func() {
		peer.Close()
		tap.Close()
		x.mu.Lock()
		res.events = x.events
		x.mu.Unlock()
	}()
	texts, segs := realSegs(cs)
	stream := make([]line, len(cs.Stream))
	total := 0
	for i, l := range cs.Stream {
		stream[i] = line{l.Tag, l.C, len(texts[i])}
		total += len(texts[i])
	}
	x.setStream(total)
	x.log(event{"ev": "Reset", "side": "client", "cfg": cs.Cfg, "stream": stream})

	opts := &imapclient.Options{
		TLSConfig: vh.ClientTLSConfig(),
		UnilateralDataHandler: &imapclient.UnilateralDataHandler{
			Expunge: func(n uint32) { x.log(event{"ev": "Handler", "kind": "EXPUNGE", "idx": int(n) - 100}) },
			Mailbox: func(d *imapclient.UnilateralDataMailbox) {
				if d.NumMessages != nil {
					x.log(event{"ev": "Handler", "kind": "EXISTS", "idx": int(*d.NumMessages) - 100})
				}
			},
		},
	}
	type nres struct {
		c   *imapclient.Client
		err error
	}
	resCh := make(chan nres, 1)
	go func() {
		c, err := imapclient.NewStartTLS(tap, opts)
		resCh <- nres{c, err}
	}()

	plr := &lineReader{c: peer, dl: peer}
	written := 0
	writeSeg := func(i int) bool {
		if _, err := peer.Write(segs[i]); err != nil {
			return false
		}
		written += len(segs[i])
		if !asyncAt(cs, i) {
			if !x.waitRead(written) {
				res.infra = fmt.Sprintf("rendez-vous: client did not read segment %d within %v", i, rvTimeout)
				return false
			}
		}
		return true
	}
	next := 0
	// a greeting that is a segment of its own is on the wire before the client's command is looked at
	if len(segs) > 0 && len(cs.Stream) > 0 && cs.Stream[0].C != "GOK" && len(segs[0]) == len(texts[0]) {
		if !writeSeg(0) && res.infra != "" {
			return res
		}
		next = 1
	}
	cmd, err := plr.ReadLine(lineTimeout)
	if err == nil && cmd != cliTag+" STARTTLS" {
		res.infra = fmt.Sprintf("client's first command is %q, want %q", cmd, cliTag+" STARTTLS")
		return res
	}
	if err != nil && errors.Is(err, os.ErrDeadlineExceeded) {
		res.infra = "client sent no STARTTLS command"
		return res
	}
	for i := next; i < len(segs) && err == nil; i++ {
		if !writeSeg(i) {
			if res.infra != "" {
				return res
			}
			break
		}
	}
	// the peer now speaks TLS for real
	release := make(chan struct{})
	peerDone := make(chan struct{})
	go func() {
		defer close(peerDone)
		ts := tls.Server(&prefixConn{Conn: peer, pre: plr.buf}, vh.ServerTLSConfig())
		peer.SetReadDeadline(time.Now().Add(hsTimeout))
		herr := ts.Handshake()
		x.log(event{"ev": "Handshake", "ok": herr == nil})
		if herr != nil {
			return
		}
		tlr := &lineReader{c: ts, dl: peer}
		for {
			ln, err := tlr.ReadLine(3 * time.Second)
			if err != nil {
				return
			}
			f := strings.Fields(ln)
			if len(f) < 2 {
				continue
			}
			switch strings.ToUpper(f[1]) {
			case "CAPABILITY":
				select {
				case <-release:
				case <-time.After(3 * time.Second):
					return
				}
				x.log(event{"ev": "TlsAnswer"})
				io.WriteString(ts, "* CAPABILITY "+tlsCaps+"\r\n"+f[0]+" OK done\r\n")
			case "NOOP":
				io.WriteString(ts, f[0]+" OK done\r\n")
			case "IDLE":
				// the continuation request comes late: one that was received earlier (in plaintext) must not do
				time.Sleep(30 * time.Millisecond)
				atomic.StoreInt32(&contSent, 1)
				io.WriteString(ts, "+ idling\r\n")
				if ln, err := tlr.ReadLine(3 * time.Second); err != nil || !strings.EqualFold(strings.TrimSpace(ln), "DONE") {
					return
				}
				io.WriteString(ts, f[0]+" OK done\r\n")
			case "LOGOUT":
				io.WriteString(ts, "* BYE bye\r\n"+f[0]+" OK done\r\n")
				return
			default:
				io.WriteString(ts, f[0]+" BAD no\r\n")
			}
		}
	}()

	var nr nres
	select {
	case nr = <-resCh:
	case <-time.After(3 * time.Second):
		// No client is handed out (the spec treats it like an error return); that the call hangs
		// is a liveness problem of the client (property C13/C10), not a STARTTLS boundary question.
		close(release)
		res.hung = "NewStartTLS did not return within 3 s"
		if os.Getenv("STARTTLS_DEBUG") != "" {
			buf := make([]byte, 1<<20)
			os.Stderr.Write(buf[:runtime.Stack(buf, true)])
		}
		peer.Close()
		tap.Close()
		<-peerDone
		x.log(event{"ev": "End", "err": true, "caps": []string{}, "state": "none", "hung": true})
		return res
	}
	end := event{"ev": "End", "err": nr.err != nil, "caps": []string{}, "state": "none"}
	if nr.err != nil {
		end["errtext"] = nr.err.Error()
		close(release)
	} else {
		capsCh := make(chan imap.CapSet, 2)
		go func() { capsCh <- nr.c.Caps() }()
		early := []string{}
		got := false
		select {
		case cps := <-capsCh:
			early, got = capList(cps), true
		case <-time.After(earlyWindow):
		}
		x.log(event{"ev": "Early", "caps": early})
		close(release)
		final := early
		if !got {
			select {
			case cps := <-capsCh:
				final = capList(cps)
			case <-time.After(2 * time.Second):
				res.hung = "Caps() did not return within 2 s"
			}
		}
		// barrier: everything the client has received so far is processed
		nd := make(chan error, 1)
		go func() { nd <- nr.c.Noop().Wait() }()
		select {
		case <-nd:
		case <-time.After(2 * time.Second):
			res.hung = "Noop().Wait() did not return within 2 s"
		}
		if nr.c.State() != imap.ConnStateLogout && res.hung == "" {
			cd := make(chan imap.CapSet, 1)
			go func() { cd <- nr.c.Caps() }()
			select {
			case cps := <-cd:
				final = capList(cps)
			case <-time.After(3 * time.Second):
			}
		}
		// a command that waits for a continuation request, inside TLS: only the peer's own "+ idling" may satisfy it
		if nr.c.State() != imap.ConnStateLogout && res.hung == "" {
			type idleRes struct {
				cmd *imapclient.IdleCommand
				err error
			}
			ic := make(chan idleRes, 1)
			go func() { cmd, err := nr.c.Idle(); ic <- idleRes{cmd, err} }()
			select {
			case ir := <-ic:
				if ir.err == nil {
					if atomic.LoadInt32(&contSent) == 0 {
						res.stalePlus = true
					}
					ir.cmd.Close()
					ir.cmd.Wait()
				}
			case <-time.After(2 * time.Second):
			}
		}
		end["caps"] = final
		end["state"] = stateName(nr.c.State())
		go nr.c.Close()
	}
	peer.Close()
	tap.Close()
	select {
	case <-peerDone:
	case <-time.After(3 * time.Second):
		res.infra = "scripted peer did not finish"
		return res
	}
	// NewStartTLS failing on an OK greeting with nothing behind the tagged OK: harness problem, not a verdict
	if nr.err != nil && len(cs.Stream) > 0 && (cs.Stream[0].C == "GOK" || cs.Stream[0].C == "GOKC") && suffixLen(cs, texts) == 0 && onlyBenignPre(cs) {
		res.infra = "NewStartTLS failed although nothing followed the tagged OK: " + nr.err.Error()
		return res
	}
	x.log(end)
	return res
}

func onlyBenignPre(cs *caseT) bool {
	for _, l := range cs.Stream[1:] {
		switch l.C {
		case "TOK", "TOKC":
			return true
		case "EXISTS", "EXPUNGE", "CAPS", "OKTEXT":
		default:
			return false
		}
	}
	return false
}

func run(cs *caseT) *result {
	if cs.Side == "server" {
		return runServer(cs)
	}
	return runClient(cs)
}

// ---------------------------------------------------------------- spec -> impl comparison

type verdict struct{ sig, detail string }

func evStr(e event, k string) string { s, _ := e[k].(string); return s }

func compareServer(cs *caseT, evs []event) *verdict {
	var exp srvExp
	if err := json.Unmarshal(cs.Exp, &exp); err != nil {
		return &verdict{"bad-case", err.Error()}
	}
	var resps []respT
	var calls []string
	switched, probing := false, false
	hs := "none"
	var caps *capsObs
	login := ""
	for _, e := range evs {
		switch evStr(e, "ev") {
		case "Probe":
			probing = true
		case "Call":
			if probing {
				continue
			}
			if switched {
				return &verdict{"interpreted-after-switch/call-" + evStr(e, "m"),
					fmt.Sprintf("backend call %s after the STARTTLS OK (caused by plaintext behind the STARTTLS line)", evStr(e, "m"))}
			}
			calls = append(calls, evStr(e, "m"))
		case "Resp":
			tag, cls, layer := evStr(e, "tag"), evStr(e, "cls"), evStr(e, "layer")
			if switched || layer == "tls" {
				return &verdict{"interpreted-after-switch/" + tagCmd(cs, tag),
					fmt.Sprintf("tagged response `%s %s` (layer %s) to a line written in plaintext behind the STARTTLS line", tag, cls, layer)}
			}
			resps = append(resps, respT{tag, cls})
			if tagCmd(cs, tag) == "STARTTLS" && cls == "OK" {
				switched = true
			}
		case "Handshake":
			if e["ok"].(bool) {
				hs = "ok"
			} else {
				hs = "fail"
			}
		case "ProbeResp":
			switch evStr(e, "c") {
			case "CAPABILITY":
				caps = e["caps"].(*capsObs)
			case "LOGIN":
				login = evStr(e, "cls")
			}
		}
	}
	for i := 0; i < len(resps) || i < len(exp.Resps); i++ {
		if i >= len(resps) || i >= len(exp.Resps) || resps[i] != exp.Resps[i] {
			var g, w interface{} = "(none)", "(none)"
			c := "?"
			if i < len(resps) {
				g, c = resps[i], tagCmd(cs, resps[i].Tag)
			}
			if i < len(exp.Resps) {
				w, c = exp.Resps[i], tagCmd(cs, exp.Resps[i].Tag)
			}
			sig := "plain-resp/" + c
			if c == "LOGIN" || c == "AUTHENTICATE" || c == "AUTHENTICATE-X" {
				sig = "auth-gating/" + c
			}
			return &verdict{sig, fmt.Sprintf("plaintext response #%d is %v, spec predicts %v", i+1, g, w)}
		}
	}
	if strings.Join(calls, ",") != strings.Join(exp.Calls, ",") {
		return &verdict{"calls", fmt.Sprintf("backend calls %v, spec predicts %v", calls, exp.Calls)}
	}
	if switched != exp.Switched {
		return &verdict{"switched", fmt.Sprintf("switched=%v, spec predicts %v", switched, exp.Switched)}
	}
	_ = hs
	if caps != nil && *caps != exp.Caps {
		return &verdict{"caps-advert", fmt.Sprintf("capabilities after the stream %+v, spec predicts %+v", *caps, exp.Caps)}
	}
	if login != "" && login != exp.Login {
		return &verdict{"auth-gating/probe-login", fmt.Sprintf("LOGIN after the stream is %s, spec predicts %s", login, exp.Login)}
	}
	return nil
}

func compareClient(cs *caseT, evs []event) *verdict {
	var exp cliExp
	if err := json.Unmarshal(cs.Exp, &exp); err != nil {
		return &verdict{"bad-case", err.Error()}
	}
	allowed := map[int]bool{}
	for _, h := range exp.Handler {
		allowed[h] = true
	}
	var early, final []string
	var end event
	for _, e := range evs {
		switch evStr(e, "ev") {
		case "Handler":
			idx := e["idx"].(int)
			if !allowed[idx] {
				return &verdict{"interpreted-after-switch/handler-" + evStr(e, "kind"),
					fmt.Sprintf("unilateral data handler called for line %d (%s), which was written in plaintext behind the tagged OK", idx, evStr(e, "kind"))}
			}
		case "Early":
			early = e["caps"].([]string)
		case "End":
			end = e
		}
	}
	if end == nil {
		return &verdict{"no-end", "no End event"}
	}
	isErr := end["err"].(bool)
	if exp.MustErr && !isErr {
		return &verdict{"greeting-accepted/" + cs.Stream[0].C, "NewStartTLS returned a client although the greeting was " + cs.Stream[0].C}
	}
	if isErr {
		return nil
	}
	final = end["caps"].([]string)
	if len(early) > 0 {
		return &verdict{"caps-from-plaintext", fmt.Sprintf("Caps() = %v before the peer said anything inside TLS", early)}
	}
	if len(final) > 0 && strings.Join(final, " ") != sortedFields(tlsCaps) {
		return &verdict{"caps-from-plaintext", fmt.Sprintf("Caps() = %v, the peer said %q inside TLS", final, tlsCaps)}
	}
	if st := evStr(end, "state"); st != "notauth" && st != "logout" {
		return &verdict{"state/" + st, "State() = " + st + " after NewStartTLS"}
	}
	return nil
}

func sortedFields(s string) string {
	f := strings.Fields(s)
	sort.Strings(f)
	return strings.Join(f, " ")
}

func label(cs *caseT) string {
	var b strings.Builder
	if cs.Side == "server" {
		fmt.Fprintf(&b, "server{InsecureAuth:%v HasTLSConfig:%v}", cs.Cfg.InsecureAuth, cs.Cfg.HasTLSConfig)
	} else {
		b.WriteString("client")
	}
	texts, segs := realSegs(cs)
	_ = texts
	for i, s := range segs {
		sep := " | "
		if i == 0 {
			sep = " "
		} else if asyncAt(cs, i-1) {
			sep = " + "
		}
		b.WriteString(sep)
		fmt.Fprintf(&b, "%q", s)
	}
	return b.String()
}

func nontrivial(cs *caseT) bool {
	texts := make([]string, len(cs.Stream))
	for i, l := range cs.Stream {
		texts[i] = lineText(cs.Side, l, i+1)
	}
	return suffixLen(cs, texts) > 0
}

func judge(cs *caseT, r *result) *verdict {
	if v := plainOffer(cs, r); v != nil {
		return v
	}
	if cs.Side == "server" {
		return compareServer(cs, r.events)
	}
	return compareClient(cs, r.events)
}

// plainOffer: a server that is not configured to take credentials in the clear must not offer to, in anything it
// writes before TLS is active (the completion of STARTTLS included: it is written in plaintext)
func plainOffer(cs *caseT, r *result) *verdict {
	if cs.Side == "client" && r.stalePlus {
		return &verdict{"continuation-from-plaintext", "Idle() returned inside TLS before the peer had sent its continuation request there: a `+` received in plaintext was taken for it"}
	}
	if cs.Side == "server" && r.plainAuth != "" && !cs.Cfg.InsecureAuth && !cs.Cfg.TLS {
		return &verdict{"plaintext-offers-auth", fmt.Sprintf("the server wrote %q on the unencrypted connection (InsecureAuth is off)", r.plainAuth)}
	}
	return nil
}

// ---------------------------------------------------------------- modes

func cmdReplay(path string, workers int, tracePath string) {
	out := vh.NewOut()
	defer out.Flush()
	jobs := make(chan *caseT, 1024)
	var wg sync.WaitGroup
	var nBeh, nEv, nNontriv, nMis, nSrv, nCli, nHung int64
	var infra, hungEx atomic.Value
	var samples []interface{}
	var nSmpS, nSmpC int
	var smu sync.Mutex
	var enc *json.Encoder
	if tracePath != "" {
		f, err := os.Create(tracePath)
		if err != nil {
			fmt.Fprintln(os.Stderr, err)
			os.Exit(2)
		}
		defer f.Close()
		enc = json.NewEncoder(f)
	}
	for i := 0; i < workers; i++ {
		wg.Add(1)
		go func() {
			defer wg.Done()
			for cs := range jobs {
				r := run(cs)
				atomic.AddInt64(&nBeh, 1)
				atomic.AddInt64(&nEv, int64(len(r.events)))
				if cs.Side == "server" {
					atomic.AddInt64(&nSrv, 1)
				} else {
					atomic.AddInt64(&nCli, 1)
				}
				nt := nontrivial(cs)
				if nt {
					atomic.AddInt64(&nNontriv, 1)
				}
				if r.infra != "" {
					infra.Store(label(cs) + ": " + r.infra)
					continue
				}
				if r.hung != "" {
					atomic.AddInt64(&nHung, 1)
					hungEx.Store(label(cs) + ": " + r.hung)
				}
				if enc != nil {
					smu.Lock()
					for _, e := range r.events {
						enc.Encode(e)
					}
					smu.Unlock()
				}
				if v := judge(cs, r); v != nil {
					if atomic.AddInt64(&nMis, 1) <= 300 {
						out.Mismatch(v.sig, label(cs)+" — "+v.detail, cs)
					}
				} else if nt {
					smu.Lock()
					if (cs.Side == "server" && nSmpS < 2) || (cs.Side == "client" && nSmpC < 2) {
						if cs.Side == "server" {
							nSmpS++
						} else {
							nSmpC++
						}
						samples = append(samples, label(cs))
					}
					smu.Unlock()
				}
			}
		}()
	}
	err := vh.ReadTLines(path, func(b []byte) error {
		cs := &caseT{}
		if err := json.Unmarshal(b, cs); err != nil {
			return err
		}
		jobs <- cs
		return nil
	})
	close(jobs)
	wg.Wait()
	sum := map[string]interface{}{"behaviours": nBeh, "steps": nEv, "nontrivial": nNontriv, "mismatches": nMis,
		"server_cases": nSrv, "client_cases": nCli, "samples": samples, "hung": nHung, "hung_example": hungEx.Load()}
	if err != nil {
		sum["infra_error"] = err.Error()
	} else if e := infra.Load(); e != nil {
		sum["infra_error"] = e
	}
	out.Summary(sum)
}

func cmdOne(path, tracePath string) {
	out := vh.NewOut()
	defer out.Flush()
	b, err := os.ReadFile(path)
	if err != nil {
		fmt.Fprintln(os.Stderr, err)
		os.Exit(2)
	}
	cs := &caseT{}
	if err := json.Unmarshal(b, cs); err != nil {
		fmt.Fprintln(os.Stderr, err)
		os.Exit(2)
	}
	r := run(cs)
	var tf *os.File
	if tracePath != "" {
		if tf, err = os.Create(tracePath); err != nil {
			fmt.Fprintln(os.Stderr, err)
			os.Exit(2)
		}
		defer tf.Close()
	}
	for _, e := range r.events {
		eb, _ := json.Marshal(e)
		fmt.Fprintln(os.Stderr, string(eb))
		if tf != nil {
			fmt.Fprintln(tf, string(eb))
		}
	}
	if r.infra != "" {
		out.Summary(map[string]interface{}{"infra_error": r.infra})
		return
	}
	if len(cs.Exp) > 0 {
		if v := judge(cs, r); v != nil {
			out.Mismatch(v.sig, label(cs)+" — "+v.detail, cs)
		}
	}
	out.Summary(map[string]interface{}{"behaviours": 1, "steps": len(r.events)})
}

var (
	srvRandCmds = []string{"LOGIN", "NOOP", "CAPABILITY", "CREATE", "AUTHENTICATE", "AUTHENTICATE-X", "DELETE", "SUBSCRIBE", "UNSUBSCRIBE",
		"SELECT", "EXAMINE", "STATUS", "LIST", "LSUB", "RENAME", "ENABLE", "NAMESPACE", "CHECK", "UNSELECT", "CLOSE", "EXPUNGE",
		"FETCH", "UID FETCH", "STORE", "COPY", "MOVE", "SEARCH", "LOGOUT", "XUNKNOWN", "STARTTLS", "UNAUTHENTICATE"}
	cliRandPre    = []string{"EXISTS", "EXPUNGE", "CAPS", "OKTEXT", "CONT"}
	cliRandSuffix = []string{"OKCAPS", "CAPS", "EXISTS", "EXPUNGE", "TAGGED", "BYE", "PREAUTH", "OKTEXT", "NO", "BAD", "FLAGS", "LIST", "GARBAGE"}
	greetings     = []string{"GOK", "GOKC", "GOKC", "GPREAUTH", "GBYE"}
)

func randomCase(rng *rand.Rand) *caseT {
	cs := &caseT{Real: true}
	if rng.Intn(2) == 0 {
		cs.Side = "server"
		cs.Cfg = config{InsecureAuth: rng.Intn(2) == 0, HasTLSConfig: rng.Intn(4) != 0, Sasl: rng.Intn(2) == 0}
		n := 0
		tag := func() string { n++; return fmt.Sprintf("t%d", n) }
		for i := rng.Intn(3); i > 0; i-- {
			c := srvRandCmds[rng.Intn(len(srvRandCmds))]
			if (c == "LOGOUT" || c == "XUNKNOWN") && rng.Intn(4) != 0 {
				c = "LOGIN"
			}
			cs.Stream = append(cs.Stream, line{Tag: tag(), C: c})
		}
		if rng.Intn(10) != 0 {
			cs.Stream = append(cs.Stream, line{Tag: tag(), C: "STARTTLS"})
		}
		for i := rng.Intn(4); i > 0; i-- {
			cs.Stream = append(cs.Stream, line{Tag: tag(), C: srvRandCmds[rng.Intn(len(srvRandCmds))]})
		}
		if len(cs.Stream) == 0 {
			cs.Stream = append(cs.Stream, line{Tag: tag(), C: "STARTTLS"})
		}
	} else {
		cs.Side = "client"
		cs.Cfg = config{HasTLSConfig: true}
		cs.Stream = append(cs.Stream, line{Tag: "*", C: greetings[rng.Intn(len(greetings))]})
		for i := rng.Intn(3); i > 0; i-- {
			cs.Stream = append(cs.Stream, line{Tag: "*", C: cliRandPre[rng.Intn(len(cliRandPre))]})
		}
		cs.Stream = append(cs.Stream, line{Tag: "T", C: []string{"TOK", "TOK", "TOKC"}[rng.Intn(3)]})
		for i := rng.Intn(4); i > 0; i-- {
			cs.Stream = append(cs.Stream, line{Tag: "*", C: cliRandSuffix[rng.Intn(len(cliRandSuffix))]})
		}
	}
	total := 0
	for i, l := range cs.Stream {
		total += len(lineText(cs.Side, l, i+1))
	}
	// random cuts at arbitrary byte offsets, biased towards line ends and their neighbourhood
	ncut := rng.Intn(6)
	cuts := map[int]bool{}
	for i := 0; i < ncut; i++ {
		var p int
		if rng.Intn(2) == 0 {
			p = 1 + rng.Intn(total)
		} else {
			off := 0
			k := rng.Intn(len(cs.Stream))
			for j := 0; j <= k; j++ {
				off += len(lineText(cs.Side, cs.Stream[j], j+1))
			}
			p = off + rng.Intn(5) - 2
		}
		if p > 0 && p < total {
			cuts[p] = true
		}
	}
	var ps []int
	for p := range cuts {
		ps = append(ps, p)
	}
	sort.Ints(ps)
	prev := 0
	for _, p := range ps {
		cs.Segs = append(cs.Segs, p-prev)
		prev = p
	}
	cs.Segs = append(cs.Segs, total-prev)
	mode := rng.Intn(3) // 0: rendez-vous after every write, 1: none, 2: mixed
	for range cs.Segs {
		cs.Async = append(cs.Async, mode == 1 || (mode == 2 && rng.Intn(2) == 0))
	}
	return cs
}

func cmdRandom(path string, seed int64, n, workers int) {
	out := vh.NewOut()
	defer out.Flush()
	f, err := os.Create(path)
	if err != nil {
		fmt.Fprintln(os.Stderr, err)
		os.Exit(2)
	}
	defer f.Close()
	rng := rand.New(rand.NewSource(seed))
	cases := make([]*caseT, n)
	for i := range cases {
		cases[i] = randomCase(rng)
	}
	results := make([]*result, n)
	var wg sync.WaitGroup
	idx := int64(-1)
	for w := 0; w < workers; w++ {
		wg.Add(1)
		go func() {
			defer wg.Done()
			for {
				i := int(atomic.AddInt64(&idx, 1))
				if i >= n {
					return
				}
				results[i] = run(cases[i])
			}
		}()
	}
	wg.Wait()
	cf, err := os.Create(path + ".cases")
	if err != nil {
		fmt.Fprintln(os.Stderr, err)
		os.Exit(2)
	}
	defer cf.Close()
	cenc := json.NewEncoder(cf)
	enc := json.NewEncoder(f)
	records, nontriv, nsrv, nhung := 0, 0, 0, 0
	var infra string
	var hungEx interface{}
	var samples []interface{}
	for i, r := range results {
		if r.infra != "" {
			infra = label(cases[i]) + ": " + r.infra
			continue
		}
		if r.hung != "" {
			nhung++
			hungEx = label(cases[i]) + ": " + r.hung
		}
		if v := plainOffer(cases[i], r); v != nil {
			out.Mismatch(v.sig, label(cases[i])+" — "+v.detail, cases[i])
		}
		cenc.Encode(map[string]interface{}{"case": cases[i], "label": label(cases[i])})
		for _, e := range r.events {
			enc.Encode(e)
			records++
		}
		if nontrivial(cases[i]) {
			nontriv++
			if len(samples) < 2 {
				samples = append(samples, label(cases[i]))
			}
		}
		if cases[i].Side == "server" {
			nsrv++
		}
	}
	sum := map[string]interface{}{"records": records, "traces": n, "nontrivial": nontriv, "server_cases": nsrv,
		"client_cases": n - nsrv, "samples": samples, "hung": nhung, "hung_example": hungEx}
	if infra != "" {
		sum["infra_error"] = infra
	}
	out.Summary(sum)
}

func main() {
	if len(os.Args) < 3 {
		fmt.Fprintln(os.Stderr, "usage: starttls replay|one|random <file> [flags]")
		os.Exit(2)
	}
	mode, path := os.Args[1], os.Args[2]
	fs := flag.NewFlagSet(mode, flag.ExitOnError)
	seed := fs.Int64("seed", 1, "")
	n := fs.Int("n", 500, "")
	workers := fs.Int("workers", 32, "")
	trace := fs.String("trace", "", "")
	fs.Parse(os.Args[3:])
	switch mode {
	case "replay":
		cmdReplay(path, *workers, *trace)
	case "one":
		cmdOne(path, *trace)
	case "random":
		cmdRandom(path, *seed, *n, *workers)
	default:
		os.Exit(2)
	}
}
