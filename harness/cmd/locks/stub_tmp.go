//go:build veriflock

package main

func reenactMain(a []string) {}
func childReenact(a string)  {}
func stressMain(a []string)  {}
func childStress(a []string) {}
func oneMain(a string)       {}
