//go:build veriflock

package main

import (
	"bytes"
	"reflect"
	"runtime"
	"strconv"
	"sync"
	"sync/atomic"
	"time"
	"unsafe"
)

// Ev is one observed lock operation (or a command marker) of the real server.
type Ev struct {
	Seq  int64
	G    int64   // goroutine id
	Op   string  // want acq rel rwant racq rrel cmd
	Mu   uintptr // address of the mutex
	Cls  string  // declaring struct + field, e.g. "Mailbox.mutex"
	Site string  // file:line:func of the call (rewritten source = original lines)
	Sess int     // session index the goroutine serves (0 = none known)
	Kind string  // command verb of the segment the event belongs to
	Line string  // for cmd markers: the command line
}

func goid() int64 {
	var buf [64]byte
	n := runtime.Stack(buf[:], false)
	// "goroutine 123 [running]:"
	b := buf[10:n]
	i := bytes.IndexByte(b, ' ')
	id, _ := strconv.ParseInt(string(b[:i]), 10, 64)
	return id
}

var clsCache sync.Map // reflect.Type.String()+"."+field -> class

// classOf names the struct that declares the mutex field (walking embedded
// fields), so mbox.mutex reached through *MailboxView is "Mailbox.mutex".
func classOf(owner interface{}, field string) string {
	if owner == nil {
		return "var." + field
	}
	t := reflect.TypeOf(owner)
	key := t.String() + "." + field
	if v, ok := clsCache.Load(key); ok {
		return v.(string)
	}
	st := t
	for st.Kind() == reflect.Ptr {
		st = st.Elem()
	}
	cls := st.String() + "." + field
	if st.Kind() == reflect.Struct {
		if f, ok := st.FieldByName(field); ok && len(f.Index) > 1 {
			d := st
			for _, ix := range f.Index[:len(f.Index)-1] {
				d = d.Field(ix).Type
				for d.Kind() == reflect.Ptr {
					d = d.Elem()
				}
			}
			cls = d.String() + "." + field
		}
	}
	clsCache.Store(key, cls)
	return cls
}

func muAddr(mu interface{}) uintptr {
	return uintptr((*[2]unsafe.Pointer)(unsafe.Pointer(&mu))[1])
}

// ---------------------------------------------------------------- full logger
//
// Log mode: every event is appended to one global log under the logger's own
// (uninstrumented) mutex; "acq" is logged after Lock returned and "rel" before
// Unlock is called, so for each mutex the logged acq/rel strictly alternate iff
// the real code respects mutual exclusion.

type gInfo struct {
	sess int
	kind string
	idle bool
	held []Ev // what the goroutine holds now (kept even when the event log is full)
	want *Ev  // the Lock it is inside, if any
}

type Logger struct {
	mu     sync.Mutex
	evs    []Ev
	seq    int64
	ginfo  map[int64]*gInfo
	gate   func(l *Logger, e *Ev) // called for want / rel events WITHOUT l.mu held; may block
	onAcq  func(e *Ev)            // called after an acq was logged, WITHOUT l.mu held
	maxEvs int
	full   int32
}

func NewLogger() *Logger { return &Logger{ginfo: map[int64]*gInfo{}} }

func (l *Logger) Register(g int64, sess int, idle bool) {
	l.mu.Lock()
	kind := "CONNECT"
	if idle {
		kind = "IDLE"
	}
	l.ginfo[g] = &gInfo{sess: sess, kind: kind, idle: idle}
	l.mu.Unlock()
}

// Marker starts a new command segment for the calling goroutine.
func (l *Logger) Marker(kind, line string) {
	g := goid()
	l.mu.Lock()
	gi := l.ginfo[g]
	if gi == nil {
		gi = &gInfo{}
		l.ginfo[g] = gi
	}
	gi.kind = kind
	l.seq++
	if l.maxEvs == 0 || len(l.evs) < l.maxEvs {
		l.evs = append(l.evs, Ev{Seq: l.seq, G: g, Op: "cmd", Sess: gi.sess, Kind: kind, Line: line})
	}
	l.mu.Unlock()
}

func (l *Logger) Hook(op string, owner interface{}, mu interface{}, field, site string) {
	g := goid()
	e := Ev{G: g, Op: op, Mu: muAddr(mu), Cls: classOf(owner, field), Site: site}
	if l.gate != nil && (op == "want" || op == "rel" || op == "rwant" || op == "rrel") {
		l.mu.Lock()
		if gi := l.ginfo[g]; gi != nil {
			e.Sess, e.Kind = gi.sess, gi.kind
		}
		l.mu.Unlock()
		l.gate(l, &e)
	}
	l.mu.Lock()
	gi := l.ginfo[g]
	if gi == nil {
		gi = &gInfo{}
		l.ginfo[g] = gi
	}
	e.Sess, e.Kind = gi.sess, gi.kind
	l.seq++
	e.Seq = l.seq
	switch op {
	case "want", "rwant":
		w := e
		gi.want = &w
	case "acq", "racq":
		gi.want = nil
		gi.held = append(gi.held, e)
	case "rel", "rrel":
		for j := len(gi.held) - 1; j >= 0; j-- {
			if gi.held[j].Mu == e.Mu {
				gi.held = append(gi.held[:j:j], gi.held[j+1:]...)
				break
			}
		}
	}
	if l.maxEvs == 0 || len(l.evs) < l.maxEvs {
		l.evs = append(l.evs, e)
	} else {
		atomic.StoreInt32(&l.full, 1)
	}
	l.mu.Unlock()
	if l.onAcq != nil && (op == "acq" || op == "racq") {
		l.onAcq(&e)
	}
}

func (l *Logger) Full() bool { return atomic.LoadInt32(&l.full) != 0 }

// Snapshot returns a copy of the log.
func (l *Logger) Snapshot() []Ev {
	l.mu.Lock()
	defer l.mu.Unlock()
	out := make([]Ev, len(l.evs))
	copy(out, l.evs)
	return out
}

// Holding returns, for every goroutine of session sess that is inside a Lock
// call, what it waits for and what it holds.
func (l *Logger) Holding(sess int) map[int64]gInfo {
	l.mu.Lock()
	defer l.mu.Unlock()
	out := map[int64]gInfo{}
	for g, gi := range l.ginfo {
		if gi.sess == sess && gi.want != nil {
			c := gInfo{sess: gi.sess, kind: gi.kind, held: append([]Ev(nil), gi.held...)}
			w := *gi.want
			c.want = &w
			out[g] = c
		}
	}
	return out
}

func (l *Logger) Len() int {
	l.mu.Lock()
	defer l.mu.Unlock()
	return len(l.evs)
}

// ---------------------------------------------------------------- light tracker
//
// Race mode: the hook must not introduce happens-before edges between the
// server's goroutines (they would hide data races from the race detector).
// Every serving goroutine is registered BEFORE the concurrent phase starts; the
// map is read-only afterwards and each goroutine only touches its own record.
// The watchdog reads the records of stalled goroutines (a benign race inside the
// harness, filtered from the reports).

type lightG struct {
	sess int
	kind string
	held []heldLock
	want heldLock
	n    int64
}

type heldLock struct {
	mu   uintptr
	cls  string
	site string
}

type Light struct {
	gs map[int64]*lightG
}

func (t *Light) Hook(op string, owner interface{}, mu interface{}, field, site string) {
	gi := t.gs[goid()]
	if gi == nil {
		return
	}
	a := muAddr(mu)
	switch op {
	case "want", "rwant":
		gi.want = heldLock{a, classOf(owner, field), site}
	case "acq", "racq":
		gi.held = append(gi.held, gi.want)
		gi.want = heldLock{}
		gi.n++
	case "rel", "rrel":
		for i := len(gi.held) - 1; i >= 0; i-- {
			if gi.held[i].mu == a {
				gi.held = append(gi.held[:i], gi.held[i+1:]...)
				break
			}
		}
	}
}

// ---------------------------------------------------------------- misc

func allStacks() string {
	buf := make([]byte, 1<<20)
	for {
		n := runtime.Stack(buf, true)
		if n < len(buf) {
			return string(buf[:n])
		}
		buf = make([]byte, 2*len(buf))
	}
}

func waitUntil(d time.Duration, f func() bool) bool {
	dl := time.Now().Add(d)
	for !f() {
		if time.Now().After(dl) {
			return false
		}
		time.Sleep(200 * time.Microsecond)
	}
	return true
}
