//go:build veriflock

package main

import (
	"encoding/json"
	"fmt"
	"os"
	"sort"
	"strings"
	"time"

	"github.com/emersion/go-imap/v2/imapserver"
)

// Inst is one command instance run alone on one session of a world.
type Inst struct {
	Kind string   `json:"kind"`
	Pre  []string `json:"pre,omitempty"` // commands run before on the same session (not part of the template)
	Line string   `json:"line"`
	Mode string   `json:"mode"`          // cmd | idle | drop
	Upd  string   `json:"upd,omitempty"` // idle: mailbox a helper session appends to meanwhile
}

type Step struct {
	O    string `json:"o"`
	L    string `json:"l"`
	C    string `json:"c"`
	Site string `json:"site"`
}

// Template is what one instance did (full record, for people and for re-enactment).
type Template struct {
	W     string `json:"w"`
	N     int    `json:"n"`
	S     int    `json:"s"`
	Inst  Inst   `json:"inst"`
	Steps []Step `json:"steps"`
}

// ModelRec is one line of the file Locks.tla reads (templates with equal step
// sequences of one (world, session) are merged).
type ModelRec struct {
	W     string          `json:"w"`
	N     int             `json:"n"`
	S     int             `json:"s"`
	ID    int             `json:"id"`
	Steps [][]interface{} `json:"steps"` // [op, lock, index in Full]
}

// ModelInfo is the harness's side of a ModelRec: the instances that produced
// the (reduced) sequence and the full mined template of the first of them.
type ModelInfo struct {
	ID    int    `json:"id"`
	W     string `json:"w"`
	S     int    `json:"s"`
	Insts []Inst `json:"insts"`
	Full  []Step `json:"full"`
	Red   []RS   `json:"red"` // the steps kept in the model
}

type RS struct {
	O string `json:"o"`
	L string `json:"l"`
	I int    `json:"i"`
}

type rstep struct {
	o, l string
	i    int
}

// reduce applies R1 (locks private to one session of the world) and R2
// (un-nested Lock immediately followed by its Unlock); see spec/Locks.tla.
func reduce(steps []Step, shared map[string]bool, level int) []rstep {
	var r []rstep
	for i, st := range steps {
		if level >= 1 && !shared[st.L] {
			continue
		}
		r = append(r, rstep{st.O, st.L, i + 1})
	}
	if level < 2 {
		return r
	}
	out := dropUnnested(r)
	return out
}

type Edge struct {
	K    string   `json:"k"`
	Held []string `json:"held"`
	C    string   `json:"c"`
}

var mboxNames = []string{"A", "B", "C"}

// worlds of n sessions over at most m mailboxes, up to renaming of mailboxes
// (restricted growth strings: the first session selects A, a new mailbox is always the next letter)
func worlds(n, m int) []string {
	var out []string
	var rec func(pre string, used int)
	rec = func(pre string, used int) {
		if len(pre) == n {
			out = append(out, pre)
			return
		}
		for k := 0; k <= used && k < m; k++ {
			u := used
			if k == used {
				u++
			}
			rec(pre+mboxNames[k], u)
		}
	}
	rec("", 0)
	if n >= 4 {
		// sessions are interchangeable as well: keep one world per multiset of block sizes
		seen := map[string]bool{}
		var o2 []string
		for _, w := range out {
			cnt := map[byte]int{}
			for i := 0; i < len(w); i++ {
				cnt[w[i]]++
			}
			var sizes []int
			for _, c := range cnt {
				sizes = append(sizes, c)
			}
			sort.Sort(sort.Reverse(sort.IntSlice(sizes)))
			k := fmt.Sprint(sizes)
			if !seen[k] {
				seen[k] = true
				o2 = append(o2, w)
			}
		}
		out = o2
	}
	return out
}

func instances(sel string, nm int) []Inst {
	var l []Inst
	add := func(kind, line string, pre ...string) {
		l = append(l, Inst{Kind: kind, Line: line, Mode: "cmd", Pre: pre})
	}
	add("NOOP", "NOOP")
	add("FETCH", "FETCH 1:* (FLAGS BODY[])")
	add("FETCH", "UID FETCH 1:* (FLAGS BODY.PEEK[])")
	add("STORE", "STORE 1 +FLAGS (\\Seen)")
	add("STORE", "STORE 1:* -FLAGS.SILENT (\\Seen)")
	add("SEARCH", "SEARCH ALL")
	add("SEARCH", "UID SEARCH FLAGGED")
	add("EXPUNGE", "EXPUNGE", "STORE 1 +FLAGS.SILENT (\\Deleted)")
	add("EXPUNGE", "EXPUNGE")
	add("EXPUNGE", "UID EXPUNGE 1:*", "STORE 1:* +FLAGS.SILENT (\\Deleted)")
	for _, x := range mboxNames[:nm] {
		if x != sel {
			add("COPY", "COPY 1:* "+x)
			add("COPY", "UID COPY 1 "+x)
			add("MOVE", "MOVE 1 "+x)
			add("MOVE", "UID MOVE 1:* "+x)
		} else {
			add("COPY", "COPY 1 "+x)
			add("MOVE", "MOVE 1 "+x)
		}
		add("APPEND", appendCmd(x))
		add("STATUS", "STATUS "+x+" (MESSAGES UNSEEN UIDNEXT)")
		add("SELECT", "SELECT "+x)
		add("EXAMINE", "EXAMINE "+x)
		add("DELETE", "DELETE "+x)
		add("RENAME", "RENAME "+x+" Z")
		add("SUBSCRIBE", "SUBSCRIBE "+x)
		add("UNSUBSCRIBE", "UNSUBSCRIBE "+x)
		l = append(l, Inst{Kind: "IDLE", Line: "IDLE", Mode: "idle", Upd: x})
	}
	add("COPY", "COPY 1 NOSUCH")
	add("CREATE", "CREATE Z")
	add("LIST", `LIST "" "*"`)
	add("LIST", `LIST "" "*" RETURN (STATUS (MESSAGES UNSEEN))`)
	add("LIST", `LIST (SUBSCRIBED) "" "*"`, "SUBSCRIBE A")
	add("LSUB", `LSUB "" "*"`)
	add("LSUB", `LSUB "" "*"`, "SUBSCRIBE A", "SUBSCRIBE B")
	add("NAMESPACE", "NAMESPACE")
	add("CAPABILITY", "CAPABILITY")
	add("ENABLE", "ENABLE IMAP4rev2")
	add("CLOSE", "CLOSE", "STORE 1 +FLAGS.SILENT (\\Deleted)")
	add("UNSELECT", "UNSELECT")
	l = append(l, Inst{Kind: "IDLE", Line: "IDLE", Mode: "idle"})
	add("LOGOUT", "LOGOUT")
	l = append(l, Inst{Kind: "DISCONNECT", Line: "", Mode: "drop"})
	return l
}

// setupWorld builds the world w (one letter per session = selected mailbox):
// mailboxes A..C with two messages each, every session logged in, selected and
// with an empty update queue.
func setupWorld(w *World, sel string, nm int) error {
	for range sel {
		if _, err := w.Connect(); err != nil {
			return err
		}
	}
	for _, x := range mboxNames[:nm] {
		if err := w.Must(1, "CREATE "+x); err != nil {
			return err
		}
		for k := 0; k < 2; k++ {
			if err := w.Must(1, appendCmd(x)); err != nil {
				return err
			}
		}
	}
	for i := range sel {
		if err := w.Must(i+1, "SELECT "+string(sel[i])); err != nil {
			return err
		}
	}
	for i := range sel {
		if err := w.Must(i+1, "FETCH 1 (FLAGS)"); err != nil {
			return err
		}
	}
	return nil
}

// installLog makes l the receiver of all lock events and markers of world w.
func installLog(w *World, l *Logger) {
	imapserver.VerifLockHook = l.Hook
	w.onConn = func(s int, g int64) { l.Register(g, s, false) }
	w.onIdle = func(s int, g int64) { l.Register(g, s, true) }
	w.onCmd = func(kind, line string) { l.Marker(kind, line) }
}

func settle(l *Logger) {
	last, stable := l.Len(), 0
	for i := 0; i < 2000 && stable < 8; i++ {
		time.Sleep(500 * time.Microsecond)
		if n := l.Len(); n == last {
			stable++
		} else {
			last, stable = n, 0
		}
	}
}

// runInst executes the instance on session s; the events of the command are
// those of the session's goroutines logged after the returned sequence number.
func runInst(w *World, s int, in Inst) (string, error) {
	tag, err := runInst1(w, s, in)
	return tag, err
}

func runInst1(w *World, s int, in Inst) (tag string, err error) {
	r := w.cl[s-1]
	tag = nextTag()
	switch in.Mode {
	case "cmd":
		if err := r.Send(tag + " " + in.Line + "\r\n"); err != nil {
			return tag, err
		}
		if _, _, err := r.Until(tag); err != nil && in.Kind != "LOGOUT" {
			return tag, err
		}
	case "idle":
		if err := r.Send(tag + " IDLE\r\n"); err != nil {
			return tag, err
		}
		if resp, err := r.ReadResp(); err != nil || resp.Tag != "+" {
			return tag, fmt.Errorf("IDLE: no continuation (%v)", err)
		}
		if in.Upd != "" {
			h := len(w.cl) // helper = last connection
			if err := w.Must(h, appendCmd(in.Upd)); err != nil {
				return tag, err
			}
			time.Sleep(2 * time.Millisecond)
		}
		if err := r.Send("DONE\r\n"); err != nil {
			return tag, err
		}
		if _, _, err := r.Until(tag); err != nil {
			return tag, err
		}
	case "drop":
		tag = ""
		if c, ok := r.C.(interface{ Close() error }); ok {
			c.Close()
		}
	}
	return tag, nil
}

type mined struct {
	tpls  []Template
	edges map[string]Edge
	leaks []string
}

func edgeKey(e Edge) string { return e.K + "|" + strings.Join(e.Held, ",") + "|" + e.C }

// edgesOf replays a whole log and collects, per command kind, every (set of
// held lock classes -> acquired lock class) pair.
func edgesOf(evs []Ev, into map[string]Edge) {
	held := map[int64][]Ev{}
	for _, e := range evs {
		switch e.Op {
		case "acq", "racq":
			var hs []string
			for _, h := range held[e.G] {
				hs = append(hs, h.Cls)
			}
			sort.Strings(hs)
			if hs == nil {
				hs = []string{}
			}
			k := e.Kind
			if k == "" {
				k = "-"
			}
			ed := Edge{K: k, Held: hs, C: e.Cls}
			into[edgeKey(ed)] = ed
			held[e.G] = append(held[e.G], e)
		case "rel", "rrel":
			h := held[e.G]
			for i := len(h) - 1; i >= 0; i-- {
				if h[i].Mu == e.Mu {
					held[e.G] = append(h[:i:i], h[i+1:]...)
					break
				}
			}
		}
	}
}

// dropUnnested is R2: a Lock immediately followed by its Unlock while nothing is held.
func dropUnnested(r []rstep) []rstep {
	var out []rstep
	depth := 0
	for i := 0; i < len(r); i++ {
		st := r[i]
		if depth == 0 && (st.o == "a" || st.o == "ra") && i+1 < len(r) && r[i+1].l == st.l &&
			((st.o == "a" && r[i+1].o == "r") || (st.o == "ra" && r[i+1].o == "rr")) {
			i++
			continue
		}
		if st.o == "a" || st.o == "ra" {
			depth++
		} else {
			depth--
		}
		out = append(out, st)
	}
	return out
}

func mineOne(sel string, nm, s int, in Inst, out *mined) error {
	l := NewLogger()
	w := NewWorld()
	installLog(w, l)
	defer w.Close()
	if err := setupWorld(w, sel, nm); err != nil {
		return err
	}
	if in.Mode == "idle" && in.Upd != "" {
		if _, err := w.Connect(); err != nil { // helper session, not selected
			return err
		}
	}
	for _, p := range in.Pre {
		if _, err := w.Cmd(s, p); err != nil {
			return err
		}
	}
	for i := range sel { // drain the queues
		if err := w.Must(i+1, "NOOP"); err != nil {
			return err
		}
	}
	names0 := w.Names()
	from := l.Len()
	tag, err := runInst(w, s, in)
	if err != nil {
		return fmt.Errorf("world %s session %d %q: %v", sel, s, in.Line, err)
	}
	if in.Mode != "drop" && in.Kind != "LOGOUT" {
		if err := w.Must(s, "NOOP"); err != nil {
			return err
		}
	} else {
		settle(l) // teardown runs after the last response
	}
	names1 := w.Names()
	evs := l.Snapshot()
	edgesOf(evs, out.edges)
	// the command's segment: events of the goroutines of session s after `from`,
	// up to the marker of the trailing NOOP
	t := Template{W: sel, N: len(sel), S: s, Inst: in, Steps: []Step{}}
	started := false
	heldN := map[uintptr]int{}
	for _, e := range evs[from:] {
		if e.Sess != s {
			continue
		}
		if e.Op == "cmd" {
			if started {
				break
			}
			if (tag != "" && strings.HasPrefix(e.Line, tag+" ")) || (tag == "" && e.Kind == "DISCONNECT") {
				started = true
			}
			continue
		}
		if !started {
			continue
		}
		var o string
		switch e.Op {
		case "acq":
			o = "a"
			heldN[e.Mu]++
		case "rel":
			o = "r"
			heldN[e.Mu]--
		case "racq":
			o = "ra"
			heldN[e.Mu]++
		case "rrel":
			o = "rr"
			heldN[e.Mu]--
		default:
			continue
		}
		name, ok := names0[e.Mu]
		if !ok {
			if n1, ok1 := names1[e.Mu]; ok1 {
				name = "new:" + n1
			} else {
				name = fmt.Sprintf("anon:%s", e.Cls)
			}
		}
		t.Steps = append(t.Steps, Step{O: o, L: name, C: e.Cls, Site: e.Site})
	}
	for mu, n := range heldN {
		if n != 0 {
			out.leaks = append(out.leaks, fmt.Sprintf("%s/%s still held after %q (world %s session %d)", in.Kind, names0[mu], in.Line, sel, s))
		}
	}
	if lg := w.logBuf.String(); strings.Contains(lg, "panic") {
		return fmt.Errorf("server panicked while mining %q: %s", in.Line, lg[:min(len(lg), 600)])
	}
	out.tpls = append(out.tpls, t)
	return nil
}

func min(a, b int) int {
	if a < b {
		return a
	}
	return b
}

func writeND(path string, recs []interface{}) error {
	fh, err := os.Create(path)
	if err != nil {
		return err
	}
	defer fh.Close()
	enc := json.NewEncoder(fh)
	enc.SetEscapeHTML(false)
	for _, r := range recs {
		if err := enc.Encode(r); err != nil {
			return err
		}
	}
	return nil
}

// mine writes <dir>/templates.ndjson (one per instance), <dir>/model.ndjson
// (merged, read by Locks.tla) and <dir>/edges.ndjson (read by LocksTrace.tla).
func mine(dir string, minN, maxN, nm, level int) (map[string]interface{}, error) {
	out := &mined{edges: map[string]Edge{}}
	nworlds := 0
	for n := minN; n <= maxN; n++ {
		for _, sel := range worlds(n, nm) {
			nworlds++
			for s := 1; s <= n; s++ {
				for _, in := range instances(string(sel[s-1]), nm) {
					if err := mineOne(sel, nm, s, in, out); err != nil {
						return nil, err
					}
				}
			}
		}
	}
	var all, model, info, edges []interface{}
	// which sessions of a world touch a lock at all
	users := map[string]map[string]map[int]bool{}
	for _, t := range out.tpls {
		if users[t.W] == nil {
			users[t.W] = map[string]map[int]bool{}
		}
		for _, st := range t.Steps {
			if users[t.W][st.L] == nil {
				users[t.W][st.L] = map[int]bool{}
			}
			users[t.W][st.L][t.S] = true
		}
	}
	// R1 + R2 per template, then R3 per world (fixpoint)
	reds := make([][]rstep, len(out.tpls))
	byWorld := map[string][]int{}
	for ti, t := range out.tpls {
		shared := map[string]bool{}
		for l, us := range users[t.W] {
			if len(us) >= 2 {
				shared[l] = true
			}
		}
		reds[ti] = reduce(t.Steps, shared, level)
		byWorld[t.W] = append(byWorld[t.W], ti)
	}
	if level >= 3 {
		for _, tis := range byWorld {
			for {
				// locks that occur only as adjacent Lock/Unlock pairs in every template of the world
				bad, seen := map[string]bool{}, map[string]bool{}
				for _, ti := range tis {
					r := reds[ti]
					for i := 0; i < len(r); i++ {
						seen[r[i].l] = true
						if (r[i].o == "a" || r[i].o == "ra") && i+1 < len(r) && r[i+1].l == r[i].l && (r[i+1].o == "r" || r[i+1].o == "rr") {
							i++
							continue
						}
						bad[r[i].l] = true
					}
				}
				leaf := map[string]bool{}
				for l := range seen {
					if !bad[l] {
						leaf[l] = true
					}
				}
				if len(leaf) == 0 {
					break
				}
				// stop one level before nothing is left, so that TLC still decides the
				// outermost nesting structure instead of the miner
				next := map[int][]rstep{}
				left := 0
				for _, ti := range tis {
					var o []rstep
					for _, st := range reds[ti] {
						if !leaf[st.l] {
							o = append(o, st)
						}
					}
					next[ti] = dropUnnested(o)
					left += len(next[ti])
				}
				if left == 0 {
					break
				}
				for ti, o := range next {
					reds[ti] = o
				}
			}
		}
	}
	type key struct {
		w string
		s int
		q string
	}
	idx := map[key]*ModelInfo{}
	var order []*ModelRec
	var infos []*ModelInfo
	nest, maxLen := 0, 0
	for ti, t := range out.tpls {
		all = append(all, t)
		red := reds[ti]
		if len(red) == 0 {
			continue
		}
		var sb strings.Builder
		for _, st := range red {
			sb.WriteString(st.o + " " + st.l + ";")
		}
		k := key{t.W, t.S, sb.String()}
		mi := idx[k]
		if mi == nil {
			m := &ModelRec{W: t.W, N: t.N, S: t.S, ID: len(order) + 1}
			d, nests := 0, false
			for _, st := range red {
				m.Steps = append(m.Steps, []interface{}{st.o, st.l, st.i})
				if st.o == "a" || st.o == "ra" {
					if d > 0 {
						nests = true
					}
					d++
				} else {
					d--
				}
			}
			if nests {
				nest++
			}
			if len(red) > maxLen {
				maxLen = len(red)
			}
			mi = &ModelInfo{ID: m.ID, W: t.W, S: t.S, Full: t.Steps}
			for _, st := range red {
				mi.Red = append(mi.Red, RS{st.o, st.l, st.i})
			}
			idx[k] = mi
			order = append(order, m)
			infos = append(infos, mi)
		}
		mi.Insts = append(mi.Insts, t.Inst)
	}
	for i := range order {
		model = append(model, order[i])
		info = append(info, infos[i])
	}
	var ek []string
	for k := range out.edges {
		ek = append(ek, k)
	}
	sort.Strings(ek)
	for _, k := range ek {
		edges = append(edges, out.edges[k])
	}
	if err := writeND(dir+"/templates.ndjson", all); err != nil {
		return nil, err
	}
	if err := writeND(dir+"/model.ndjson", model); err != nil {
		return nil, err
	}
	if err := writeND(dir+"/edges.ndjson", edges); err != nil {
		return nil, err
	}
	if err := writeND(dir+"/modelinfo.ndjson", info); err != nil {
		return nil, err
	}
	return map[string]interface{}{"worlds": nworlds, "instances": len(all), "templates": len(model),
		"nesting_templates": nest, "max_len": maxLen, "edges": len(edges), "leaks": out.leaks}, nil
}
