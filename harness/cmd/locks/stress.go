//go:build veriflock

package main

import (
	"bytes"
	"encoding/json"
	"flag"
	"fmt"
	"math/rand"
	"os"
	"sort"
	"strings"
	"sync"
	"sync/atomic"
	"time"

	"github.com/emersion/go-imap/v2/imapserver"

	"verif/harness/vh"
)

// StressCfg is one epoch of the stress driver (also the replay format).
type StressCfg struct {
	Kind     string `json:"kind"` // "stress"
	Seed     int64  `json:"seed"`
	Sessions int    `json:"sessions"`
	Millis   int    `json:"millis"`
	Light    bool   `json:"light"`   // race mode: no shared log, per-goroutine bookkeeping only
	Ordered  bool   `json:"ordered"` // COPY/MOVE only towards a greater mailbox name (avoids the opposite-direction pattern)
	MaxEv    int    `json:"maxev"`
	Trace    string `json:"trace,omitempty"`
}

type StressRes struct {
	Cmds     int            `json:"cmds"`
	ByKind   map[string]int `json:"by_kind"`
	Events   int            `json:"events"`
	Records  int            `json:"records"`
	Stall    *Obs           `json:"stall,omitempty"`
	Garbled  [][2]string    `json:"garbled,omitempty"`
	StallCmd []string       `json:"stall_cmds,omitempty"`
	Err      string         `json:"err,omitempty"`
	Log      string         `json:"server_log,omitempty"`
}

var stressBoxes = []string{"A", "B", "C"}

type sclient struct {
	idx     int
	r       *vh.Raw
	sel     string
	rng     *rand.Rand
	since   int64 // unix nano when the current command was sent (0 = idle)
	cur     atomic.Value
	n       int
	byKind  map[string]int
	err     error
	garbled [][2]string
}

func (c *sclient) pick(cfg *StressCfg) (kind, line string, idle bool) {
	r := c.rng
	box := func() string { return stressBoxes[r.Intn(len(stressBoxes))] }
	scratch := func() string { return fmt.Sprintf("T%d", r.Intn(3)) }
	set := func() string { return []string{"1", "1:2", "*", "2:*", "1:3"}[r.Intn(5)] }
	if c.sel == "" {
		switch r.Intn(4) {
		case 0:
			return "LIST", `LIST "" "*"`, false
		case 1:
			return "APPEND", appendCmd(box()), false
		}
		b := box()
		c.sel = b
		return "SELECT", "SELECT " + b, false
	}
	dest := func() (string, bool) {
		var cand []string
		for _, b := range stressBoxes {
			if b == c.sel {
				continue
			}
			if cfg.Ordered && !(b > c.sel) {
				continue
			}
			cand = append(cand, b)
		}
		if cfg.Ordered && c.sel >= "T" {
			return "", false // scratch mailboxes are sources only in free mode
		}
		if !cfg.Ordered {
			cand = append(cand, scratch())
		}
		if len(cand) == 0 {
			return "", false
		}
		return cand[r.Intn(len(cand))], true
	}
	switch x := r.Intn(100); {
	case x < 12:
		// (the structural items as well: whatever the backend derives from a message and keeps)
		return "FETCH", "FETCH " + set() + " (FLAGS BODY[] ENVELOPE BODYSTRUCTURE)", false
	case x < 18:
		return "FETCH", "UID FETCH 1:* (FLAGS UID)", false
	case x < 28:
		return "STORE", "STORE " + set() + " +FLAGS (\\Seen \\Deleted)", false
	case x < 32:
		return "STORE", "STORE 1:* -FLAGS.SILENT (\\Deleted)", false
	case x < 38:
		return "SEARCH", "SEARCH OR SEEN FLAGGED", false
	case x < 46:
		return "EXPUNGE", "EXPUNGE", false
	case x < 58:
		if d, ok := dest(); ok {
			return "COPY", "COPY " + set() + " " + d, false
		}
		return "NOOP", "NOOP", false
	case x < 66:
		if d, ok := dest(); ok {
			return "MOVE", "MOVE " + set() + " " + d, false
		}
		return "NOOP", "NOOP", false
	case x < 72:
		return "APPEND", appendCmd(box()), false
	case x < 76:
		return "LIST", `LIST "" "*" RETURN (STATUS (MESSAGES UNSEEN))`, false
	case x < 78:
		return "LSUB", `LSUB "" "*"`, false
	case x < 81:
		return "STATUS", "STATUS " + box() + " (MESSAGES UIDNEXT UNSEEN)", false
	case x < 84:
		return "CREATE", "CREATE " + scratch(), false
	case x < 86:
		return "DELETE", "DELETE " + scratch(), false
	case x < 88:
		return "RENAME", "RENAME " + scratch() + " " + scratch(), false
	case x < 90:
		return "SUBSCRIBE", "SUBSCRIBE " + box(), false
	case x < 93:
		return "IDLE", "IDLE", true
	case x < 95:
		return "NOOP", "NOOP", false
	case x < 97:
		c.sel = ""
		return "CLOSE", "CLOSE", false
	case x < 98:
		c.sel = ""
		return "UNSELECT", "UNSELECT", false
	default:
		b := box()
		if !cfg.Ordered && r.Intn(3) == 0 {
			b = scratch()
		}
		c.sel = b
		if r.Intn(2) == 0 {
			return "EXAMINE", "EXAMINE " + b, false
		}
		return "SELECT", "SELECT " + b, false
	}
}

func (c *sclient) run(cfg *StressCfg, stop *int32) {
	c.r.Timeout = 60 * time.Second
	for atomic.LoadInt32(stop) == 0 {
		kind, line, idle := c.pick(cfg)
		tag := nextTag()
		c.cur.Store(line)
		atomic.StoreInt64(&c.since, time.Now().UnixNano())
		if err := c.r.Send(tag + " " + line + "\r\n"); err != nil {
			c.err = err
			return
		}
		if idle {
			for {
				resp, err := c.r.ReadResp()
				if err != nil {
					c.err = err
					return
				}
				if resp.Tag == "+" {
					break
				}
			}
			time.Sleep(time.Duration(c.rng.Intn(3000)) * time.Microsecond)
			if err := c.r.Send("DONE\r\n"); err != nil {
				c.err = err
				return
			}
		}
		st, raw, err := untilTagged(c.r, tag)
		if err != nil {
			c.err = fmt.Errorf("%q: %v", line, err)
			return
		}
		atomic.StoreInt64(&c.since, 0)
		if st == "GARBLED" {
			c.garbled = append(c.garbled, [2]string{kind, fmt.Sprintf("s%d (selected %s) `%s` -> %q", c.idx, c.sel, line, strings.TrimSpace(raw))})
		}
		if (kind == "SELECT" || kind == "EXAMINE") && st != "OK" {
			c.sel = ""
		}
		c.n++
		c.byKind[kind]++
	}
}

func childStress(args []string) {
	var cfg StressCfg
	b, err := os.ReadFile(args[0])
	if err == nil {
		err = json.Unmarshal(b, &cfg)
	}
	emit := func(r *StressRes) {
		j, _ := json.Marshal(r)
		os.Stdout.Write(append(j, '\n'))
		os.Exit(0)
	}
	if err != nil {
		emit(&StressRes{Err: err.Error()})
	}
	w := NewWorld()
	var l *Logger
	var lt *Light
	if cfg.Light {
		lt = &Light{gs: map[int64]*lightG{}}
		imapserver.VerifLockHook = lt.Hook
		w.onConn = func(s int, g int64) { lt.gs[g] = &lightG{sess: s} }
	} else {
		l = NewLogger()
		l.maxEvs = cfg.MaxEv
		installLog(w, l)
	}
	for i := 0; i < cfg.Sessions; i++ {
		if _, err := w.Connect(); err != nil {
			emit(&StressRes{Err: "connect: " + err.Error()})
		}
	}
	for _, x := range stressBoxes {
		if err := w.Must(1, "CREATE "+x); err != nil {
			emit(&StressRes{Err: err.Error()})
		}
		for k := 0; k < 3; k++ {
			if err := w.Must(1, appendCmd(x)); err != nil {
				emit(&StressRes{Err: err.Error()})
			}
		}
	}
	var stop int32
	cls := make([]*sclient, cfg.Sessions)
	var wg sync.WaitGroup
	for i := range cls {
		cls[i] = &sclient{idx: i + 1, r: w.cl[i], rng: rand.New(rand.NewSource(cfg.Seed*131 + int64(i))), byKind: map[string]int{}}
		cls[i].cur.Store("")
	}
	if len(cls) >= 2 {
		// opening: a fresh message is appended to A and copied to B; then two sessions fetch the structure of the
		// original and of the copy for the first time, at the same time (whatever the backend derives from a message
		// and shares between a message and its copies is first touched here, by two connections at once)
		a, b := cls[0], cls[1]
		one := func(c *sclient, line string) {
			tag := nextTag()
			if c.r.Send(tag+" "+line+"\r\n") == nil {
				untilTagged(c.r, tag)
			}
		}
		c0 := a.r.Timeout
		a.r.Timeout, b.r.Timeout = 10*time.Second, 10*time.Second
		one(a, appendCmd("A"))
		one(a, "SELECT A")
		a.sel = "A"
		one(a, "COPY * B")
		one(b, "SELECT B")
		b.sel = "B"
		var tw sync.WaitGroup
		for _, c := range []*sclient{a, b} {
			tw.Add(1)
			go func(c *sclient) { defer tw.Done(); one(c, "FETCH * (ENVELOPE BODYSTRUCTURE)") }(c)
		}
		tw.Wait()
		a.r.Timeout, b.r.Timeout = c0, c0
	}
	t0 := time.Now()
	for _, c := range cls {
		wg.Add(1)
		go func(c *sclient) { defer wg.Done(); c.run(&cfg, &stop) }(c)
	}
	res := &StressRes{ByKind: map[string]int{}}
	// watchdog
	var stalled []int
	for time.Since(t0) < time.Duration(cfg.Millis)*time.Millisecond {
		time.Sleep(50 * time.Millisecond)
		if l != nil && l.Full() {
			break
		}
		now := time.Now().UnixNano()
		stalled = stalled[:0]
		for _, c := range cls {
			if s := atomic.LoadInt64(&c.since); s != 0 && now-s > int64(2*time.Second) {
				stalled = append(stalled, c.idx)
			}
		}
		if len(stalled) > 0 {
			break
		}
	}
	atomic.StoreInt32(&stop, 1)
	allDone := make(chan struct{})
	go func() { wg.Wait(); close(allDone) }()
	if len(stalled) == 0 {
		select {
		case <-allDone:
		case <-time.After(2500 * time.Millisecond):
			stalled = append(stalled, 0) // some command does not finish
		}
	}
	if len(stalled) > 0 {
		// is it a lock cycle?  (otherwise give slow commands more time)
		obs := stallObs(cls, l, lt, w)
		if obsSig(obs) == "" {
			time.Sleep(4 * time.Second)
			obs = stallObs(cls, l, lt, w)
			still := false
			for _, p := range obs.Procs {
				if !p.Completed {
					still = true
				}
			}
			if !still {
				obs = nil
			}
		}
		if obs != nil {
			res.Stall = obs
			for _, c := range cls {
				if atomic.LoadInt64(&c.since) != 0 {
					res.StallCmd = append(res.StallCmd, fmt.Sprintf("s%d(selected %s) `%s`", c.idx, c.sel, strings.SplitN(c.cur.Load().(string), "\r\n", 2)[0]))
				}
			}
		}
	}
	if res.Stall == nil {
		select {
		case <-allDone:
		case <-time.After(10 * time.Second):
			res.Err = "clients did not stop within 10 s"
		}
		for _, c := range cls {
			if c.err != nil && res.Err == "" {
				res.Err = fmt.Sprintf("client %d: %v", c.idx, c.err)
			}
		}
	}
	for _, c := range cls {
		if res.Stall == nil { // the counters of stalled clients are still being written
			res.Cmds += c.n
			for k, v := range c.byKind {
				res.ByKind[k] += v
			}
			res.Garbled = append(res.Garbled, c.garbled...)
		}
	}
	if lg := w.logBuf.String(); strings.Contains(lg, "panic") {
		res.Log = clip(lg, 1500)
	}
	if l != nil {
		evs := l.Snapshot()
		res.Events = len(evs)
		if cfg.Trace != "" {
			n, err := writeTrace(cfg.Trace, evs)
			if err != nil {
				res.Err = err.Error()
			}
			res.Records = n
		}
	}
	emit(res)
}

// stallObs describes what every stalled session holds and waits for.
func stallObs(cls []*sclient, l *Logger, lt *Light, w *World) *Obs {
	dump := allStacks()
	names := map[uintptr]string{}
	if l != nil { // the object graph is only walked in log mode (the walk reads without locks)
		names = w.Names()
	}
	o := &Obs{}
	for _, c := range cls {
		po := ProcObs{S: c.idx, Cmd: strings.SplitN(c.cur.Load().(string), "\r\n", 2)[0]}
		if atomic.LoadInt64(&c.since) == 0 {
			po.Completed = true
		} else if l != nil {
			fillBlocked(&po, l, names, dump)
		} else {
			for gid, g := range lt.gs {
				if g.sess != c.idx || g.want.mu == 0 {
					continue
				}
				po.WantName, po.WantCls, po.WantSite = fmt.Sprintf("%x", g.want.mu), g.want.cls, g.want.site
				for _, h := range g.held {
					po.HeldNames = append(po.HeldNames, fmt.Sprintf("%x", h.mu))
					po.HeldCls = append(po.HeldCls, h.cls)
				}
				po.InLock, po.Frame = inMutexLock(dump, gid, siteFileLine(g.want.site))
			}
		}
		o.Procs = append(o.Procs, po)
	}
	return o
}

// writeTrace writes the lock events in the form LocksTrace.tla reads.
func writeTrace(path string, evs []Ev) (int, error) {
	var buf bytes.Buffer
	gmap := map[int64]int{}
	mmap := map[uintptr]int{}
	n := 0
	type rec struct {
		O string `json:"o"`
		G int    `json:"g"`
		K string `json:"k"`
		M int    `json:"m"`
		C string `json:"c"`
	}
	enc := json.NewEncoder(&buf)
	for _, e := range evs {
		var o string
		switch e.Op {
		case "acq":
			o = "a"
		case "rel":
			o = "r"
		case "racq":
			o = "ra"
		case "rrel":
			o = "rr"
		case "cmd":
			o = "cmd"
		default:
			continue
		}
		g, ok := gmap[e.G]
		if !ok {
			g = len(gmap) + 1
			gmap[e.G] = g
		}
		m := 0
		if o != "cmd" {
			if m, ok = mmap[e.Mu]; !ok {
				m = len(mmap) + 1
				mmap[e.Mu] = m
			}
		}
		k := e.Kind
		if k == "" {
			k = "-"
		}
		enc.Encode(rec{o, g, k, m, e.Cls})
		n++
	}
	hdr := fmt.Sprintf("{\"o\":\"reset\",\"g\":%d,\"k\":\"-\",\"m\":%d,\"c\":\"\"}\n", len(gmap), len(mmap))
	return n + 1, os.WriteFile(path, append([]byte(hdr), buf.Bytes()...), 0o644)
}

// ---------------------------------------------------------------- parent

func stressMain(args []string) {
	fs := flag.NewFlagSet("stress", flag.ExitOnError)
	seed := fs.Int64("seed", 1, "")
	sessions := fs.Int("sessions", 0, "0 = 2..8 at random per epoch")
	secs := fs.Float64("secs", 10, "total budget")
	epoch := fs.Int("epoch", 2000, "milliseconds per epoch")
	maxev := fs.Int("maxev", 30000, "lock events recorded in total (log mode)")
	light := fs.Bool("light", false, "")
	ordered := fs.Bool("ordered", false, "")
	fs.Parse(args[1:])
	tracePath := args[0]
	rng := rand.New(rand.NewSource(*seed))
	t0 := time.Now()
	var trace bytes.Buffer
	total := &StressRes{ByKind: map[string]int{}}
	epochs, stalls, traces := 0, 0, 0
	sigs := map[string]int{}
	races := map[string]string{}
	garbledN := map[string]int{}
	var samples []interface{}
	for time.Since(t0).Seconds() < *secs {
		n := *sessions
		if n == 0 {
			n = 2 + rng.Intn(7)
		}
		cfg := StressCfg{Kind: "stress", Seed: *seed*1000 + int64(epochs), Sessions: n, Millis: *epoch, Light: *light, Ordered: *ordered}
		left := *maxev - total.Records
		if !*light {
			if left <= 0 {
				break
			}
			cfg.MaxEv = left
			cfg.Trace = fmt.Sprintf("%s.ep%d", tracePath, epochs)
		}
		res, rr, err := stressEpoch(&cfg)
		if err != nil {
			fatal(err)
		}
		epochs++
		for k, v := range rr {
			if _, dup := races[k]; !dup {
				races[k] = v
				out.Mismatch(k, "race detector report under the stress driver:\n"+clip(v, 2500),
					map[string]interface{}{"kind": "race", "cfg": cfg, "report": clip(v, 6000)})
			}
		}
		for _, g := range res.Garbled {
			gsig := "garbled-completion/" + g[0]
			garbledN[gsig]++
			if garbledN[gsig] == 1 {
				out.Mismatch(gsig, "command finished on the server but its tagged completion is not at the start of a line: "+g[1], cfg)
			} else {
				out.Mismatch(gsig, "", nil)
			}
		}
		if res.Log != "" {
			out.Mismatch("server-panic", "server logged a panic under stress: "+res.Log, cfg)
		}
		total.Cmds += res.Cmds
		total.Events += res.Events
		for k, v := range res.ByKind {
			total.ByKind[k] += v
		}
		if cfg.Trace != "" {
			if b, err := os.ReadFile(cfg.Trace); err == nil {
				trace.Write(b)
				total.Records += res.Records
				traces++
			}
			os.Remove(cfg.Trace)
		}
		if res.Stall != nil {
			stalls++
			sig := obsSig(res.Stall)
			if sig == "" && res.Log != "" {
				// nobody waits for a lock, but the server panicked while serving one of the commands: the command
				// that never completes is explained by real behaviour of the code, not by the driver
				psig := "command-never-completes/server-panic"
				sigs[psig]++
				if sigs[psig] == 1 {
					out.Mismatch(psig, fmt.Sprintf("stress driver (%d sessions, seed %d): %v never completed after the server panicked: %s", n, cfg.Seed, res.StallCmd, clip(res.Log, 1500)), cfg)
				} else {
					out.Mismatch(psig, "", nil)
				}
				continue
			}
			if sig == "" {
				fatal(fmt.Errorf("stress stalled (> 6 s without progress) but no lock wait cycle was found: %v %+v", res.StallCmd, res.Stall.Procs))
			}
			confirmed := true
			var parts []string
			for _, p := range res.Stall.Procs {
				if !p.Completed && p.WantName != "" {
					if !p.InLock {
						confirmed = false
					}
					parts = append(parts, fmt.Sprintf("s%d `%s` blocked in sync.(*Mutex).Lock=%v at %s wanting %s holding %s", p.S, p.Cmd, p.InLock, p.WantSite, p.WantCls, strings.Join(p.HeldCls, ",")))
				}
			}
			if !confirmed {
				fatal(fmt.Errorf("stress stalled with a wait cycle in the event log but the goroutine dump does not confirm it: %s", strings.Join(parts, "; ")))
			}
			sigs[sig]++
			if sigs[sig] == 1 {
				out.Mismatch(sig, fmt.Sprintf("stress driver (%d sessions, seed %d) deadlocked: %s", n, cfg.Seed, strings.Join(parts, "; ")), cfg)
				samples = append(samples, map[string]interface{}{"stress_deadlock": sig, "cmds": res.StallCmd})
			} else {
				out.Mismatch(sig, "", nil)
			}
		} else if res.Err != "" {
			fatal(fmt.Errorf("stress epoch %d: %s", epochs, res.Err))
		}
	}
	if !*light {
		if err := os.WriteFile(tracePath, trace.Bytes(), 0o644); err != nil {
			fatal(err)
		}
	}
	kinds := []string{}
	for k := range total.ByKind {
		kinds = append(kinds, k)
	}
	sort.Strings(kinds)
	out.Summary(map[string]interface{}{"epochs": epochs, "cmds": total.Cmds, "events": total.Events, "records": total.Records,
		"traces": traces, "stalls": stalls, "sigs": sigs, "garbled": garbledN, "by_kind": total.ByKind, "races": len(races), "samples": samples,
		"light": *light, "ordered": *ordered})
}

func stressEpoch(cfg *StressCfg) (*StressRes, map[string]string, error) {
	so, se, err := runChild("child-stress", cfg, time.Duration(cfg.Millis)*time.Millisecond+40*time.Second)
	rr := raceReports(se)
	var res StressRes
	if jerr := json.Unmarshal(bytes.TrimSpace(so), &res); jerr != nil {
		return nil, rr, fmt.Errorf("stress child gave no result (%v, %v): %s", err, jerr, clip(se, 800))
	}
	return &res, rr, nil
}

func stressReplay(b []byte) {
	var cfg StressCfg
	if err := json.Unmarshal(b, &cfg); err != nil {
		fatal(err)
	}
	cfg.Trace = ""
	for i := 0; i < 5; i++ { // schedules are not deterministic: a few attempts
		res, rr, err := stressEpoch(&cfg)
		if err != nil {
			fatal(err)
		}
		for k, v := range rr {
			out.Mismatch(k, clip(v, 2500), nil)
		}
		if res.Stall != nil {
			if sig := obsSig(res.Stall); sig != "" {
				out.Mismatch(sig, fmt.Sprintf("stress replay deadlocked: %v", res.StallCmd), cfg)
				break
			}
		}
		if len(rr) > 0 {
			break
		}
		cfg.Seed++
	}
	out.Summary(map[string]interface{}{"behaviours": 1})
}
