//go:build veriflock

package main

import (
	"bufio"
	"bytes"
	"encoding/json"
	"flag"
	"fmt"
	"math/rand"
	"os"
	"os/exec"
	"regexp"
	"sort"
	"strings"
	"sync"
	"time"

	"verif/harness/vh"
)

// ---------------------------------------------------------------- case format

type TLCState struct {
	Kind    string   `json:"kind"` // stuck | done
	W       string   `json:"w"`
	Lab     []int    `json:"lab"`
	Sched   [][2]int `json:"sched"`
	Blocked []struct {
		I    int      `json:"i"`
		Want string   `json:"want"`
		Held []string `json:"held"`
	} `json:"blocked"`
}

type CaseProc struct {
	S    int    `json:"s"`
	Inst Inst   `json:"inst"`
	Full []Step `json:"full"`
	Red  []RS   `json:"red"`
	// prediction for a stuck state (0 = the process finishes)
	BlockedAt int      `json:"blocked_at"`
	Want      string   `json:"want,omitempty"`
	Held      []string `json:"held,omitempty"`
}

type Case struct {
	Kind   string     `json:"kind"`
	Sig    string     `json:"sig,omitempty"`
	W      string     `json:"w"`
	NM     int        `json:"nm"`
	Procs  []CaseProc `json:"procs"`
	Sched  [][2]int   `json:"sched"`
	Source string     `json:"source,omitempty"`
}

type ProcObs struct {
	S         int      `json:"s"`
	Cmd       string   `json:"cmd"`
	Completed bool     `json:"completed"`
	Status    string   `json:"status,omitempty"`
	WantName  string   `json:"want_name,omitempty"` // lock the session's goroutine is waiting for
	WantCls   string   `json:"want_cls,omitempty"`
	WantSite  string   `json:"want_site,omitempty"`
	HeldNames []string `json:"held_names,omitempty"`
	HeldCls   []string `json:"held_cls,omitempty"`
	InLock    bool     `json:"in_mutex_lock"` // goroutine dump shows it inside sync.(*Mutex).Lock at that site
	Frame     string   `json:"frame,omitempty"`
}

type Obs struct {
	Followed  bool      `json:"followed"`  // the whole schedule was enacted in order
	SchedPos  int       `json:"sched_pos"` // schedule entries enacted
	Diverged  string    `json:"diverged,omitempty"`
	Procs     []ProcObs `json:"procs"`
	Events    int       `json:"events"`
	ServerLog string    `json:"server_log,omitempty"`
	Err       string    `json:"err,omitempty"`
}

func siteFunc(site string) string {
	p := strings.SplitN(site, ":", 3)
	if len(p) == 3 {
		return p[2]
	}
	return site
}

func siteFileLine(site string) string {
	p := strings.SplitN(site, ":", 3)
	if len(p) >= 2 {
		return p[0] + ":" + p[1]
	}
	return site
}

// cycleSig names a set of goroutines blocking each other by the lock classes
// involved: for every participant that holds a lock somebody else waits for,
// "<classes it holds and others want>><class it wants>@<function it waits in>".
type waiter struct {
	held     map[string]string // lock name -> class
	want     string
	wantCls  string
	wantSite string
}

func cycleSig(ws []waiter) string {
	n := len(ws)
	// wait-for graph: i -> j if i wants a lock j holds
	reach := make([][]bool, n)
	for i := range reach {
		reach[i] = make([]bool, n)
		for j := range ws {
			if _, ok := ws[j].held[ws[i].want]; ok {
				reach[i][j] = true
			}
		}
	}
	for k := 0; k < n; k++ {
		for i := 0; i < n; i++ {
			for j := 0; j < n; j++ {
				if reach[i][k] && reach[k][j] {
					reach[i][j] = true
				}
			}
		}
	}
	// only the goroutines ON a cycle name the deadlock (those queued up behind it do not)
	items := map[string]bool{}
	for i, w := range ws {
		if !reach[i][i] {
			continue
		}
		var hc []string
		for j, o := range ws {
			if !(reach[i][j] && reach[j][i]) { // same strongly connected component (i == j: self-deadlock)
				continue
			}
			if c, ok := w.held[o.want]; ok {
				hc = append(hc, c)
			}
		}
		if len(hc) == 0 {
			continue
		}
		sort.Strings(hc)
		hc = uniq(hc)
		items[strings.Join(hc, ",")+">"+w.wantCls+"@"+siteFunc(w.wantSite)] = true
	}
	if len(items) == 0 {
		return ""
	}
	var l []string
	for k := range items {
		l = append(l, k)
	}
	sort.Strings(l)
	return "deadlock/" + strings.Join(l, "+")
}

func uniq(s []string) []string {
	var o []string
	for i, x := range s {
		if i == 0 || x != s[i-1] {
			o = append(o, x)
		}
	}
	return o
}

func loadInfo(path string) (map[int]*ModelInfo, error) {
	fh, err := os.Open(path)
	if err != nil {
		return nil, err
	}
	defer fh.Close()
	m := map[int]*ModelInfo{}
	sc := bufio.NewScanner(fh)
	sc.Buffer(make([]byte, 1<<20), 1<<28)
	for sc.Scan() {
		var mi ModelInfo
		if err := json.Unmarshal(sc.Bytes(), &mi); err != nil {
			return nil, err
		}
		m[mi.ID] = &mi
	}
	return m, sc.Err()
}

func pickInst(mi *ModelInfo) Inst {
	for _, in := range mi.Insts {
		if in.Mode == "cmd" {
			return in
		}
	}
	return mi.Insts[0]
}

func buildCase(st *TLCState, info map[int]*ModelInfo, nm int) (*Case, error) {
	c := &Case{Kind: st.Kind, W: st.W, NM: nm, Sched: st.Sched}
	var ws []waiter
	for p, id := range st.Lab {
		if id == 0 {
			continue
		}
		mi := info[id]
		if mi == nil {
			return nil, fmt.Errorf("template %d not in model info", id)
		}
		cp := CaseProc{S: p + 1, Inst: pickInst(mi), Full: mi.Full, Red: mi.Red}
		if st.Kind == "stuck" && p < len(st.Blocked) && st.Blocked[p].I > 0 {
			b := st.Blocked[p]
			cp.BlockedAt, cp.Want, cp.Held = b.I, b.Want, b.Held
			w := waiter{held: map[string]string{}, want: b.Want}
			w.wantCls, w.wantSite = mi.Full[b.I-1].C, mi.Full[b.I-1].Site
			for _, h := range b.Held {
				for _, fs := range mi.Full[:b.I-1] {
					if fs.L == h {
						w.held[h] = fs.C
					}
				}
			}
			ws = append(ws, w)
		}
		c.Procs = append(c.Procs, cp)
	}
	if st.Kind == "stuck" {
		c.Sig = cycleSig(ws)
		if c.Sig == "" {
			return nil, fmt.Errorf("stuck state without a wait cycle: %+v", st)
		}
	}
	return c, nil
}

func (c *Case) kinds() string {
	var k []string
	for _, p := range c.Procs {
		if c.Kind != "stuck" || p.BlockedAt > 0 {
			k = append(k, p.Inst.Kind)
		}
	}
	sort.Strings(k)
	return strings.Join(k, "|")
}

func (c *Case) describe() string {
	var b strings.Builder
	fmt.Fprintf(&b, "world %s (session i selected on letter i):", c.W)
	for _, p := range c.Procs {
		fmt.Fprintf(&b, " s%d `%s`", p.S, strings.SplitN(p.Inst.Line, "\r\n", 2)[0])
		if p.BlockedAt > 0 {
			fmt.Fprintf(&b, " [holds %s, waits for %s at %s]", strings.Join(p.Held, ","), p.Want, p.Full[p.BlockedAt-1].Site)
		}
	}
	return b.String()
}

// ---------------------------------------------------------------- parent

func runChild(mode string, c interface{}, timeout time.Duration, extra ...string) ([]byte, string, error) {
	f, err := os.CreateTemp("", "c14case-*.json")
	if err != nil {
		return nil, "", err
	}
	defer os.Remove(f.Name())
	json.NewEncoder(f).Encode(c)
	f.Close()
	cmd := exec.Command(os.Args[0], append([]string{mode, f.Name()}, extra...)...)
	var so, se bytes.Buffer
	cmd.Stdout, cmd.Stderr = &so, &se
	cmd.Env = append(os.Environ(), "GORACE=halt_on_error=0")
	if err := cmd.Start(); err != nil {
		return nil, "", err
	}
	done := make(chan error, 1)
	go func() { done <- cmd.Wait() }()
	select {
	case err = <-done:
	case <-time.After(timeout):
		cmd.Process.Kill()
		<-done
		err = fmt.Errorf("child killed after %v", timeout)
	}
	return so.Bytes(), se.String(), err
}

var raceHdr = regexp.MustCompile(`(?m)^WARNING: DATA RACE$`)

// raceReports extracts data-race reports that involve go-imap's server
// packages (top frame of an access inside them) from a child's stderr.
func raceReports(stderr string) map[string]string {
	out := map[string]string{}
	parts := strings.Split(stderr, "==================")
	for _, p := range parts {
		if !raceHdr.MatchString(p) {
			continue
		}
		// the access frames: first function line after "Read at"/"Write at"/"Previous ..."
		lines := strings.Split(p, "\n")
		var tops []string
		for i, l := range lines {
			t := strings.TrimSpace(l)
			if (strings.HasPrefix(t, "Read at") || strings.HasPrefix(t, "Write at") ||
				strings.HasPrefix(t, "Previous read at") || strings.HasPrefix(t, "Previous write at") ||
				strings.HasPrefix(t, "Atomic") || strings.HasPrefix(t, "Previous atomic")) && i+1 < len(lines) {
				tops = append(tops, strings.TrimSpace(lines[i+1]))
			}
		}
		inv := false
		for _, t := range tops {
			if strings.Contains(t, "go-imap/v2/imapserver") && !strings.Contains(t, ".Verif") {
				inv = true
			}
		}
		if !inv || len(tops) == 0 {
			continue
		}
		var fn []string
		for _, t := range tops {
			f := t
			if i := strings.LastIndex(f, "/"); i >= 0 {
				f = f[i+1:]
			}
			if i := strings.Index(f, "("); i > 0 && !strings.HasPrefix(f, "(") {
				// keep "pkg.(*T).Method" / "pkg.Func", drop arguments
				if j := strings.LastIndex(f, "("); j > 0 && strings.HasSuffix(f, ")") {
					f = f[:j]
				}
			}
			fn = append(fn, f)
		}
		sort.Strings(fn)
		fn = uniq(fn)
		sig := "data-race/" + strings.Join(fn, "~")
		if _, dup := out[sig]; !dup {
			out[sig] = strings.TrimSpace(p)
		}
	}
	return out
}

func reenactMain(args []string) {
	fs := flag.NewFlagSet("reenact", flag.ExitOnError)
	per := fs.Int("per", 3, "stuck states re-enacted per signature")
	nDone := fs.Int("done", 40, "complete schedules re-enacted")
	seed := fs.Int64("seed", 1, "")
	nm := fs.Int("mboxes", 3, "")
	par := fs.Int("par", 4, "child processes in parallel")
	fs.Parse(args[2:])
	info, err := loadInfo(args[0])
	if err != nil {
		fatal(err)
	}
	bySig := map[string][]*Case{}
	var done []*Case
	nStuck := 0
	err = vh.ReadTLines(args[1], func(b []byte) error {
		var st TLCState
		if err := json.Unmarshal(b, &st); err != nil {
			return err
		}
		if st.Kind == "done" {
			// reservoir of bounded size would need a second pass; keep all, they are small
			c, err := buildCase(&st, info, *nm)
			if err != nil {
				return err
			}
			done = append(done, c)
			return nil
		}
		nStuck++
		c, err := buildCase(&st, info, *nm)
		if err != nil {
			return err
		}
		l := bySig[c.Sig]
		// keep the simplest few of every combination of command kinds
		l = append(l, c)
		if len(l) > 4000 {
			sortCases(l)
			l = l[:1000]
		}
		bySig[c.Sig] = l
		return nil
	})
	if err != nil {
		fatal(err)
	}
	sum := map[string]interface{}{"stuck_states": nStuck, "done_states": len(done)}
	sigCount := map[string]int{}
	behaviours, steps, nontrivial := 0, 0, 0
	var samples []interface{}
	var sigs []string
	for s := range bySig {
		sigs = append(sigs, s)
	}
	sort.Strings(sigs)
	races := map[string]string{}
	chosenBy := map[string][]*Case{}
	var all []*Case
	for _, sig := range sigs {
		l := bySig[sig]
		sigCount[sig] = len(l)
		sortCases(l)
		// one per distinct combination of kinds first
		var chosen []*Case
		seen := map[string]bool{}
		for _, c := range l {
			if !seen[c.kinds()] && len(chosen) < *per {
				seen[c.kinds()] = true
				chosen = append(chosen, c)
			}
		}
		for _, c := range l {
			if len(chosen) >= *per {
				break
			}
			dup := false
			for _, x := range chosen {
				if x == c {
					dup = true
				}
			}
			if !dup {
				chosen = append(chosen, c)
			}
		}
		chosenBy[sig] = chosen
		all = append(all, chosen...)
	}
	rng := rand.New(rand.NewSource(*seed))
	rng.Shuffle(len(done), func(i, j int) { done[i], done[j] = done[j], done[i] })
	if len(done) > *nDone {
		done = done[:*nDone]
	}
	all = append(all, done...)
	prerun(all, *par)
	var unreproduced []string
	anyReproduced := false
	for _, sig := range sigs {
		chosen := chosenBy[sig]
		reproduced := 0
		var lastWhy string
		for _, c := range chosen {
			ok, why, obs, rr := reenactOne(c)
			garbled(c, obs)
			for k, v := range rr {
				races[k] = v
			}
			behaviours++
			steps += len(c.Sched)
			if ok {
				reproduced++
				nontrivial++
				if reproduced == 1 {
					out.Mismatch(sig, "TLC stuck state re-enacted on the real server: "+c.describe()+"; observed: "+why, c)
					if len(samples) < 3 {
						samples = append(samples, map[string]interface{}{"sig": sig, "case": c.describe(), "observed": obs.Procs})
					}
				}
			} else {
				lastWhy = why
			}
		}
		if reproduced == 0 {
			// never a verdict; it only becomes an infrastructure failure if NO counterexample could be
			// reproduced (a cycle through a map-ordered loop such as LIST may not be steerable)
			unreproduced = append(unreproduced, fmt.Sprintf("TLC counterexample %s could not be reproduced on the real server (%d schedules tried): %s; e.g. %s",
				sig, len(chosen), lastWhy, chosen[0].describe()))
		} else {
			anyReproduced = true
		}
	}
	if len(unreproduced) > 0 && !anyReproduced {
		fatal(fmt.Errorf("%s", unreproduced[0]))
	}
	// complete schedules: the real server must be able to follow what the model allows
	followed, diverged := 0, 0
	var divs []string
	for _, c := range done {
		ok, why, obs, rr := reenactOne(c)
		garbled(c, obs)
		for k, v := range rr {
			races[k] = v
		}
		if obs == nil {
			fatal(fmt.Errorf("re-enactment of a complete schedule failed: %s (%s)", why, c.describe()))
		}
		allDone := true
		for _, p := range obs.Procs {
			if !p.Completed {
				allDone = false
			}
		}
		if !allDone {
			// the model says every process finishes, the real server did not: classify the stall
			sig := obsSig(obs)
			if sig == "" {
				oj, _ := json.Marshal(obs)
				fatal(fmt.Errorf("schedule predicted complete, real server stalled without a lock cycle: %s (%s) %s", why, c.describe(), clip(string(oj), 3000)))
			}
			out.Mismatch(sig, "real server deadlocked while following a schedule the model completes: "+c.describe()+"; "+why, c)
			continue
		}
		behaviours++
		steps += len(c.Sched)
		if ok && obs.Followed {
			followed++
			if len(samples) < 5 {
				samples = append(samples, map[string]interface{}{"followed_schedule": c.describe(), "len": len(c.Sched)})
			}
		} else {
			diverged++
			if len(divs) < 3 {
				divs = append(divs, why)
			}
		}
	}
	for sig, rep := range races {
		out.Mismatch(sig, "race detector report during schedule re-enactment:\n"+clip(rep, 2500), map[string]interface{}{"kind": "race", "report": clip(rep, 6000)})
	}
	sum["sigs"] = sigCount
	sum["behaviours"] = behaviours
	sum["steps"] = steps
	sum["nontrivial"] = nontrivial
	sum["followed"] = followed
	sum["diverged"] = diverged
	sum["diverged_examples"] = divs
	sum["samples"] = samples
	sum["unreproduced"] = unreproduced
	out.Summary(sum)
}

func clip(s string, n int) string {
	if len(s) > n {
		return s[:n] + "..."
	}
	return s
}

func sortCases(l []*Case) {
	sort.SliceStable(l, func(i, j int) bool {
		if len(l[i].Procs) != len(l[j].Procs) {
			return len(l[i].Procs) < len(l[j].Procs)
		}
		if len(l[i].Sched) != len(l[j].Sched) {
			return len(l[i].Sched) < len(l[j].Sched)
		}
		return len(l[i].W) < len(l[j].W)
	})
}

// garbled reports commands whose tagged completion was written behind an
// unfinished response line.
func garbled(c *Case, obs *Obs) {
	if obs == nil {
		return
	}
	for _, p := range obs.Procs {
		if strings.HasPrefix(p.Status, "GARBLED") {
			kind := strings.ToUpper(strings.Fields(strings.TrimPrefix(p.Cmd, "UID "))[0])
			out.Mismatch("garbled-completion/"+kind, fmt.Sprintf("s%d `%s` finished on the server but its tagged completion is not at the start of a line: %q; %s",
				p.S, p.Cmd, strings.TrimPrefix(p.Status, "GARBLED "), c.describe()), c)
		}
	}
}

// obsSig computes the signature of an observed stall from what the blocked
// goroutines hold and want (same naming as cycleSig on TLC states).
func obsSig(o *Obs) string {
	var ws []waiter
	for _, p := range o.Procs {
		if p.Completed || p.WantName == "" {
			continue
		}
		w := waiter{held: map[string]string{}, want: p.WantName, wantCls: p.WantCls, wantSite: p.WantSite}
		for i, h := range p.HeldNames {
			w.held[h] = p.HeldCls[i]
		}
		ws = append(ws, w)
	}
	return cycleSig(ws)
}

// reenactOne runs the case in a child process.  For a stuck case ok means the
// predicted deadlock was reproduced (every predicted-blocked command did not
// complete and its goroutine sits in sync.(*Mutex).Lock for the predicted lock
// at the predicted site).
type reRes struct {
	ok  bool
	why string
	obs *Obs
	rr  map[string]string
}

var reCache = map[*Case]*reRes{}
var reCacheMu sync.Mutex

// prerun re-enacts the cases in parallel child processes (each mostly waits for its watchdog).
func prerun(cases []*Case, par int) {
	sem := make(chan struct{}, par)
	var wg sync.WaitGroup
	for _, c := range cases {
		c := c
		wg.Add(1)
		sem <- struct{}{}
		go func() {
			defer wg.Done()
			defer func() { <-sem }()
			ok, why, obs, rr := reenactOne(c)
			reCacheMu.Lock()
			reCache[c] = &reRes{ok, why, obs, rr}
			reCacheMu.Unlock()
		}()
	}
	wg.Wait()
}

func reenactOne(c *Case) (bool, string, *Obs, map[string]string) {
	reCacheMu.Lock()
	if r, ok := reCache[c]; ok {
		reCacheMu.Unlock()
		return r.ok, r.why, r.obs, r.rr
	}
	reCacheMu.Unlock()
	so, se, err := runChild("child-reenact", c, 25*time.Second)
	rr := raceReports(se)
	var obs Obs
	if jerr := json.Unmarshal(bytes.TrimSpace(so), &obs); jerr != nil {
		return false, fmt.Sprintf("child gave no observation (%v, %v): %s", err, jerr, clip(se, 500)), nil, rr
	}
	if obs.Err != "" {
		return false, "child: " + obs.Err, &obs, rr
	}
	if c.Kind != "stuck" {
		if !obs.Followed {
			return false, fmt.Sprintf("schedule not followed (%d of %d entries): %s", obs.SchedPos, len(c.Sched), obs.Diverged), &obs, rr
		}
		return true, "", &obs, rr
	}
	var parts []string
	ok := obs.Followed
	if !ok {
		parts = append(parts, fmt.Sprintf("schedule not followed (%d of %d): %s", obs.SchedPos, len(c.Sched), obs.Diverged))
	}
	for _, p := range c.Procs {
		var po *ProcObs
		for i := range obs.Procs {
			if obs.Procs[i].S == p.S {
				po = &obs.Procs[i]
			}
		}
		if po == nil {
			return false, "missing observation", &obs, rr
		}
		if p.BlockedAt == 0 {
			continue // may or may not finish (it can queue up behind the deadlocked ones)
		}
		want := p.Full[p.BlockedAt-1]
		if po.Completed {
			ok = false
			parts = append(parts, fmt.Sprintf("s%d completed (%s)", p.S, po.Status))
			continue
		}
		if po.WantName != p.Want || siteFileLine(po.WantSite) != siteFileLine(want.Site) || !po.InLock {
			ok = false
		}
		parts = append(parts, fmt.Sprintf("s%d `%s` never completed: goroutine blocked in sync.(*Mutex).Lock=%v for %s (%s) at %s holding %s",
			p.S, strings.SplitN(p.Inst.Line, "\r\n", 2)[0], po.InLock, po.WantName, po.WantCls, po.WantSite, strings.Join(po.HeldNames, ",")))
	}
	return ok, strings.Join(parts, "; "), &obs, rr
}

// ---------------------------------------------------------------- child

type follower struct {
	mu          sync.Mutex
	c           *Case
	names       map[uintptr]string
	pos         int            // next schedule entry
	at          map[[2]int]int // (session, step index) -> schedule position
	cnt         map[int]int    // session -> relevant lock operations of its command done so far
	relevant    map[int]map[string]bool
	tags        map[int]string // session -> tag of the re-enacted command
	full        map[int][]RS   // session -> steps of the mined template on the locks the model keeps for it (I = index in the template)
	blocked     map[int]int    // session -> predicted blocked step
	free        bool           // gates open (schedule exhausted or abandoned)
	diverged    string
	exhaustedAt time.Time
	sessLine    func(int) string
}

func (f *follower) abandon(why string) {
	if f.diverged == "" {
		f.diverged = why
	}
	f.free = true
}

// gate is called before Lock ("want") and before Unlock ("rel") of every mutex.
func (f *follower) gate(l *Logger, e *Ev) {
	s := e.Sess
	f.mu.Lock()
	tag, active := f.tags[s]
	if !active || !strings.HasPrefix(f.sessLine(s), tag+" ") {
		f.mu.Unlock()
		return
	}
	full := f.full[s]
	name := f.names[e.Mu]
	if !f.relevant[s][name] {
		f.mu.Unlock()
		return
	}
	n := f.cnt[s] + 1 // ordinal among the relevant lock operations of this command
	isRel := e.Op == "rel" || e.Op == "rrel"
	if isRel {
		f.cnt[s] = n
	}
	if f.free {
		f.mu.Unlock()
		return
	}
	if f.pos >= len(f.c.Sched) && f.blocked[s] == 0 {
		f.mu.Unlock()
		return // schedule already enacted completely
	}
	// does the real server still run the mined template?
	if n > len(full) || full[n-1].L != name || (full[n-1].O == "a" || full[n-1].O == "ra") == isRel {
		exp := "end of template"
		if n <= len(full) {
			exp = full[n-1].O + " " + full[n-1].L
		}
		f.abandon(fmt.Sprintf("session %d: real server does %s %s at %s, mined template has %s (relevant operation %d)", s, e.Op, name, e.Site, exp, n))
		f.mu.Unlock()
		return
	}
	k := full[n-1].I
	p, inSched := f.at[[2]int{s, k}]
	isBlocked := f.blocked[s] == k
	f.mu.Unlock()
	if !inSched && !isBlocked {
		return
	}
	ok := waitUntil(1500*time.Millisecond, func() bool {
		f.mu.Lock()
		defer f.mu.Unlock()
		if f.free {
			return true
		}
		if isBlocked {
			return f.pos >= len(f.c.Sched)
		}
		return f.pos == p
	})
	f.mu.Lock()
	if !ok {
		f.abandon(fmt.Sprintf("session %d step %d (%s %s): its turn (schedule position %d) did not come within 1.5 s (position %d)", s, k, e.Op, name, p, f.pos))
	}
	if isRel && inSched && !f.free {
		f.advance()
	}
	f.mu.Unlock()
}

func (f *follower) advance() {
	f.pos++
	if f.pos >= len(f.c.Sched) {
		f.exhaustedAt = time.Now()
	}
}

// acquired is called (from the logging hook, after Lock returned).
func (f *follower) acquired(e *Ev) {
	s := e.Sess
	f.mu.Lock()
	defer f.mu.Unlock()
	tag, active := f.tags[s]
	if !active || !strings.HasPrefix(f.sessLine(s), tag+" ") {
		return
	}
	if !f.relevant[s][f.names[e.Mu]] {
		return
	}
	f.cnt[s]++
	n := f.cnt[s]
	if n > len(f.full[s]) {
		return
	}
	if p, ok := f.at[[2]int{s, f.full[s][n-1].I}]; ok && !f.free && p == f.pos {
		f.advance()
	}
}

func childReenact(path string) {
	var c Case
	b, err := os.ReadFile(path)
	if err == nil {
		err = json.Unmarshal(b, &c)
	}
	emit := func(o *Obs) {
		j, _ := json.Marshal(o)
		os.Stdout.Write(append(j, '\n'))
		os.Exit(0)
	}
	if err != nil {
		emit(&Obs{Err: err.Error()})
	}
	go func() { // absolute limit
		time.Sleep(20 * time.Second)
		emit(&Obs{Err: "child watchdog (20 s)"})
	}()
	l := NewLogger()
	w := NewWorld()
	installLog(w, l)
	if err := setupWorld(w, c.W, c.NM); err != nil {
		emit(&Obs{Err: "setup: " + err.Error()})
	}
	for _, p := range c.Procs {
		for _, pre := range p.Inst.Pre {
			if _, err := w.Cmd(p.S, pre); err != nil {
				emit(&Obs{Err: "pre: " + err.Error()})
			}
		}
	}
	for i := range c.W {
		if err := w.Must(i+1, "NOOP"); err != nil {
			emit(&Obs{Err: "drain: " + err.Error()})
		}
	}
	f := &follower{c: &c, names: w.Names(), at: map[[2]int]int{}, cnt: map[int]int{}, tags: map[int]string{},
		full: map[int][]RS{}, blocked: map[int]int{}, relevant: map[int]map[string]bool{}}
	for i, e := range c.Sched {
		f.at[e] = i
	}
	sessLine := map[int]string{}
	var slMu sync.Mutex
	f.sessLine = func(s int) string { slMu.Lock(); defer slMu.Unlock(); return sessLine[s] }
	w.onCmd = func(kind, line string) {
		g := goid()
		l.mu.Lock()
		gi := l.ginfo[g]
		l.mu.Unlock()
		if gi != nil {
			slMu.Lock()
			sessLine[gi.sess] = line
			slMu.Unlock()
		}
		l.Marker(kind, line)
	}
	for _, p := range c.Procs {
		f.tags[p.S] = nextTag()
		rel := map[string]bool{}
		for _, r := range p.Red {
			rel[r.L] = true
		}
		if p.BlockedAt > 0 {
			rel[p.Want] = true
		}
		f.relevant[p.S] = rel
		for i, st := range p.Full {
			if rel[st.L] {
				f.full[p.S] = append(f.full[p.S], RS{st.O, st.L, i + 1})
			}
		}
		if p.BlockedAt > 0 {
			f.blocked[p.S] = p.BlockedAt
		}
	}
	if len(c.Sched) == 0 {
		f.exhaustedAt = time.Now()
	}
	l.gate = f.gate
	l.onAcq = f.acquired
	type res struct {
		s      int
		status string
		err    error
	}
	results := make(chan res, len(c.Procs))
	for _, p := range c.Procs {
		p := p
		go func() {
			st, err := runTagged(w, p.S, p.Inst, f.tags[p.S])
			results <- res{p.S, st, err}
		}()
	}
	completed := map[int]string{}
	start := time.Now()
	deadline := start.Add(12 * time.Second)
	for len(completed) < len(c.Procs) && time.Now().Before(deadline) {
		select {
		case r := <-results:
			if r.err != nil {
				completed[r.s] = "error: " + r.err.Error()
			} else {
				completed[r.s] = r.status
			}
		case <-time.After(50 * time.Millisecond):
		}
		f.mu.Lock()
		ex, fr := f.exhaustedAt, f.free
		f.mu.Unlock()
		if !ex.IsZero() && time.Since(ex) > 2*time.Second {
			break // watchdog: 2 s after the last scheduled step nothing completes any more
		}
		if fr && ex.IsZero() && time.Since(start) > 6*time.Second {
			break // schedule abandoned and the commands still do not finish
		}
	}
	// observation
	f.mu.Lock()
	o := &Obs{Followed: f.pos >= len(c.Sched) && f.diverged == "", SchedPos: f.pos, Diverged: f.diverged}
	f.free = true
	f.mu.Unlock()
	evs := l.Snapshot()
	o.Events = len(evs)
	dump := allStacks()
	for _, p := range c.Procs {
		po := ProcObs{S: p.S, Cmd: strings.SplitN(p.Inst.Line, "\r\n", 2)[0]}
		if st, ok := completed[p.S]; ok {
			po.Completed, po.Status = true, st
		} else {
			fillBlocked(&po, l, f.names, dump)
		}
		o.Procs = append(o.Procs, po)
	}
	if lg := w.logBuf.String(); lg != "" {
		o.ServerLog = clip(lg, 800)
	}
	emit(o)
}

// fillBlocked finds what the goroutine(s) of session po.S hold and wait for.
func fillBlocked(po *ProcObs, l *Logger, names map[uintptr]string, dump string) {
	for gid, g := range l.Holding(po.S) {
		nm := func(e *Ev) string {
			if n, ok := names[e.Mu]; ok {
				return n
			}
			return fmt.Sprintf("%s@%x", e.Cls, e.Mu)
		}
		po.WantName, po.WantCls, po.WantSite = nm(g.want), g.want.Cls, g.want.Site
		po.HeldNames, po.HeldCls = nil, nil
		for i := range g.held {
			po.HeldNames = append(po.HeldNames, nm(&g.held[i]))
			po.HeldCls = append(po.HeldCls, g.held[i].Cls)
		}
		po.InLock, po.Frame = inMutexLock(dump, gid, siteFileLine(g.want.Site))
	}
}

// inMutexLock looks the goroutine up in a full dump: it must be inside
// sync.(*Mutex).Lock / (*RWMutex) called from the given file:line.
func inMutexLock(dump string, gid int64, fileLine string) (bool, string) {
	hdr := fmt.Sprintf("goroutine %d [", gid)
	i := strings.Index(dump, hdr)
	if i < 0 {
		return false, ""
	}
	blk := dump[i:]
	if j := strings.Index(blk, "\n\n"); j >= 0 {
		blk = blk[:j]
	}
	inSync := strings.Contains(blk, "sync.(*Mutex).Lock") || strings.Contains(blk, "sync.(*RWMutex).") || strings.Contains(blk, "[sync.Mutex.Lock")
	at := strings.Contains(blk, "/"+fileLine+" ") || strings.Contains(blk, "/"+fileLine+"\n")
	first := strings.SplitN(blk, "\n", 2)[0]
	return inSync && at, first
}

// runTagged is runInst with a tag chosen in advance.
func runTagged(w *World, s int, in Inst, tag string) (string, error) {
	r := w.cl[s-1]
	r.Timeout = 15 * time.Second
	switch in.Mode {
	case "cmd":
		if err := r.Send(tag + " " + in.Line + "\r\n"); err != nil {
			return "", err
		}
		st, raw, err := untilTagged(r, tag)
		if err != nil {
			if in.Kind == "LOGOUT" {
				return "OK", nil
			}
			return "", err
		}
		if st == "GARBLED" {
			return "GARBLED " + strings.TrimSpace(raw), nil
		}
		return st, nil
	case "idle":
		if err := r.Send(tag + " IDLE\r\n"); err != nil {
			return "", err
		}
		for {
			resp, err := r.ReadResp()
			if err != nil {
				return "", err
			}
			if resp.Tag == "+" {
				break
			}
		}
		time.Sleep(2 * time.Millisecond)
		if err := r.Send("DONE\r\n"); err != nil {
			return "", err
		}
		_, t, err := r.Until(tag)
		if err != nil {
			return "", err
		}
		return t.Name, nil
	case "drop":
		if c, ok := r.C.(interface{ Close() error }); ok {
			c.Close()
		}
		time.Sleep(5 * time.Millisecond)
		return "OK", nil
	}
	return "", fmt.Errorf("unknown mode %q", in.Mode)
}

// sigsMain summarises the stuck states of a TLC run without touching the server
// (used to compare the reduced with the unreduced model).
func sigsMain(args []string) {
	info, err := loadInfo(args[0])
	if err != nil {
		fatal(err)
	}
	keys := map[string]int{}
	sigs := map[string]int{}
	err = vh.ReadTLines(args[1], func(b []byte) error {
		var st TLCState
		if err := json.Unmarshal(b, &st); err != nil {
			return err
		}
		if st.Kind != "stuck" {
			return nil
		}
		c, err := buildCase(&st, info, 3)
		if err != nil {
			return err
		}
		var parts []string
		for _, p := range c.Procs {
			if p.BlockedAt > 0 {
				h := append([]string(nil), p.Held...)
				sort.Strings(h)
				parts = append(parts, fmt.Sprintf("s%d:%s>%s@%s", p.S, strings.Join(h, ","), p.Want, siteFileLine(p.Full[p.BlockedAt-1].Site)))
			}
		}
		keys[c.W+" "+strings.Join(parts, " ")]++
		sigs[c.Sig]++
		return nil
	})
	if err != nil {
		fatal(err)
	}
	out.Summary(map[string]interface{}{"keys": keys, "sigs": sigs})
}

func oneMain(path string) {
	b, err := os.ReadFile(path)
	if err != nil {
		fatal(err)
	}
	var probe struct {
		Kind string `json:"kind"`
	}
	json.Unmarshal(b, &probe)
	switch probe.Kind {
	case "stuck", "done":
		var c Case
		if err := json.Unmarshal(b, &c); err != nil {
			fatal(err)
		}
		ok, why, obs, rr := reenactOne(&c)
		garbled(&c, obs)
		for sig, rep := range rr {
			out.Mismatch(sig, clip(rep, 2500), nil)
		}
		if c.Kind == "stuck" && ok {
			out.Mismatch(c.Sig, "re-enacted: "+c.describe()+"; observed: "+why, c)
		} else if obs != nil {
			if s := obsSig(obs); s != "" {
				out.Mismatch(s, "stalled: "+why, c)
			}
		}
		out.Summary(map[string]interface{}{"behaviours": 1, "why": why})
	case "stress":
		stressReplay(b)
	default:
		fatal(fmt.Errorf("unknown case kind %q", probe.Kind))
	}
}
