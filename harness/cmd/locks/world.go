//go:build veriflock

package main

import (
	"bytes"
	"fmt"
	"net"
	"reflect"
	"sort"
	"strings"
	"sync"
	"time"

	"github.com/emersion/go-imap/v2"
	"github.com/emersion/go-imap/v2/imapserver"
	"github.com/emersion/go-imap/v2/imapserver/imapmemserver"

	"verif/harness/vh"
)

// World is one real server (imapserver + in-memory backend) with its sessions.
type World struct {
	srv    *imapserver.Server
	mem    *imapmemserver.Server
	user   *imapmemserver.User
	ln     *vh.Listener
	logBuf *syncBuf

	mu     sync.Mutex
	conns  []*imapserver.Conn   // by session index-1
	inner  []imapserver.Session // the backend's session objects
	onConn func(sess int, g int64)
	onIdle func(sess int, g int64)
	onCmd  func(kind, line string) // called in the serving goroutine when it has read a command
	nsess  int

	cl []*vh.Raw // client ends
}

type syncBuf struct {
	mu sync.Mutex
	b  bytes.Buffer
}

func (s *syncBuf) Printf(f string, a ...interface{}) {
	s.mu.Lock()
	fmt.Fprintf(&s.b, f+"\n", a...)
	s.mu.Unlock()
}
func (s *syncBuf) String() string { s.mu.Lock(); defer s.mu.Unlock(); return s.b.String() }

type wrapSess struct {
	imapserver.SessionIMAP4rev2
	w   *World
	idx int
}

func (s *wrapSess) Idle(uw *imapserver.UpdateWriter, stop <-chan struct{}) error {
	if s.w.onIdle != nil {
		s.w.onIdle(s.idx, goid())
	}
	return s.SessionIMAP4rev2.Idle(uw, stop)
}

// tap is the server end of a connection; its Read runs in the serving goroutine,
// so a command marker is ordered with that goroutine's lock events.
type tap struct {
	net.Conn
	w *World
}

func cmdKind(data []byte) (string, string) {
	i := bytes.IndexByte(data, '\n')
	if i < 0 {
		i = len(data)
	}
	line := strings.TrimRight(string(data[:i]), "\r\n")
	f := strings.Fields(line)
	if len(f) < 2 || !strings.HasPrefix(f[0], "c") {
		return "", ""
	}
	k := strings.ToUpper(f[1])
	if k == "UID" && len(f) > 2 {
		k = strings.ToUpper(f[2])
	}
	return k, line
}

func (t *tap) Read(p []byte) (int, error) {
	n, err := t.Conn.Read(p)
	if t.w.onCmd != nil {
		if n > 0 {
			if k, line := cmdKind(p[:n]); k != "" {
				t.w.onCmd(k, line)
			}
		} else if err != nil {
			t.w.onCmd("DISCONNECT", "")
		}
	}
	return n, err
}

func NewWorld() *World {
	w := &World{mem: imapmemserver.New(), logBuf: &syncBuf{}}
	w.user = imapmemserver.NewUser("u", "p")
	w.mem.AddUser(w.user)
	w.srv = imapserver.New(&imapserver.Options{
		NewSession: func(c *imapserver.Conn) (imapserver.Session, *imapserver.GreetingData, error) {
			in := w.mem.NewSession()
			w.mu.Lock()
			w.nsess++
			idx := w.nsess
			w.conns = append(w.conns, c)
			w.inner = append(w.inner, in)
			w.mu.Unlock()
			if w.onConn != nil {
				w.onConn(idx, goid())
			}
			return &wrapSess{SessionIMAP4rev2: in.(imapserver.SessionIMAP4rev2), w: w, idx: idx}, nil, nil
		},
		Caps:         imap.CapSet{imap.CapIMAP4rev1: {}, imap.CapIMAP4rev2: {}},
		InsecureAuth: true,
		Logger:       w.logBuf,
	})
	w.ln = vh.NewListener()
	w.ln.Wrap = func(c net.Conn) net.Conn { return &tap{Conn: c, w: w} }
	go w.srv.Serve(w.ln)
	return w
}

// Connect opens session number len(cl)+1 and logs in.
func (w *World) Connect() (*vh.Raw, error) {
	c, _, err := w.ln.Dial()
	if err != nil {
		return nil, err
	}
	r := vh.NewRaw(c)
	r.Timeout = 5 * time.Second
	if _, err := r.ReadResp(); err != nil {
		return nil, fmt.Errorf("greeting: %v", err)
	}
	w.cl = append(w.cl, r)
	if err := w.Must(len(w.cl), "LOGIN u p"); err != nil {
		return nil, err
	}
	return r, nil
}

var tagN int64
var tagMu sync.Mutex

func nextTag() string {
	tagMu.Lock()
	defer tagMu.Unlock()
	tagN++
	return fmt.Sprintf("c%d", tagN)
}

// Cmd runs one command on session s (1-based) and returns the tagged status
// name.  A literal is sent non-synchronising in the same write.
func (w *World) Cmd(s int, line string) (string, error) {
	r := w.cl[s-1]
	tag := nextTag()
	if err := r.Send(tag + " " + line + "\r\n"); err != nil {
		return "", err
	}
	_, t, err := r.Until(tag)
	if err != nil {
		return "", err
	}
	return t.Name, nil
}

// untilTagged reads responses up to the tagged completion.  A completion that
// is not at the start of a line (the server wrote it behind an unfinished
// response) is reported as status "GARBLED": the command did finish on the
// server, but no IMAP client can see that.
func untilTagged(r *vh.Raw, tag string) (string, string, error) {
	for {
		resp, err := r.ReadResp()
		if err != nil {
			return "", "", err
		}
		if resp.Tag == tag {
			return resp.Name, resp.Raw, nil
		}
		if i := strings.Index(resp.Raw, tag+" "); i > 0 {
			return "GARBLED", resp.Raw, nil
		}
	}
}

func (w *World) Must(s int, line string) error {
	st, err := w.Cmd(s, line)
	if err != nil {
		return fmt.Errorf("session %d %q: %v", s, line, err)
	}
	if st != "OK" {
		return fmt.Errorf("session %d %q: %s", s, line, st)
	}
	return nil
}

const msgBody = "Subject: x\r\n\r\nhello\r\n"

func appendCmd(mbox string) string {
	return fmt.Sprintf("APPEND %s (\\Flagged) {%d+}\r\n%s", mbox, len(msgBody), msgBody)
}

// Close abandons the world (connections closed; a deadlocked server is left
// behind, the process is expected to exit).
func (w *World) Close() {
	for _, r := range w.cl {
		if c, ok := r.C.(*vh.Conn); ok {
			c.Close()
		}
	}
	done := make(chan struct{})
	go func() { w.srv.Close(); close(done) }()
	select {
	case <-done:
	case <-time.After(time.Second):
	}
}

// ---------------------------------------------------------------- lock names
//
// Names walks the live object graph (reflection; only at quiescent moments) and
// maps every mutex address to an abstract lock name of the model:
//   srv, mem, user, mbox[X], trk[X], st[i], cm[i], enc[i]

func fieldPtr(v reflect.Value, name string) reflect.Value {
	for v.Kind() == reflect.Ptr || v.Kind() == reflect.Interface {
		if v.IsNil() {
			return reflect.Value{}
		}
		v = v.Elem()
	}
	if v.Kind() != reflect.Struct {
		return reflect.Value{}
	}
	f := v.FieldByName(name)
	return f
}

func addrOf(v reflect.Value, name string) uintptr {
	f := fieldPtr(v, name)
	if !f.IsValid() || !f.CanAddr() {
		return 0
	}
	return f.UnsafeAddr()
}

func (w *World) Names() map[uintptr]string {
	m := map[uintptr]string{}
	put := func(a uintptr, n string) {
		if a != 0 {
			if _, dup := m[a]; !dup {
				m[a] = n
			}
		}
	}
	put(addrOf(reflect.ValueOf(w.srv), "mutex"), "srv")
	put(addrOf(reflect.ValueOf(w.mem), "mutex"), "mem")
	put(addrOf(reflect.ValueOf(w.user), "mutex"), "user")
	trkName := map[uintptr]string{} // MailboxTracker address -> mailbox name
	mb := fieldPtr(reflect.ValueOf(w.user), "mailboxes")
	if mb.IsValid() {
		it := mb.MapRange()
		for it.Next() {
			name := it.Key().String()
			mv := it.Value()
			put(addrOf(mv, "mutex"), "mbox["+name+"]")
			tr := fieldPtr(mv, "tracker")
			if tr.IsValid() && !tr.IsNil() {
				put(addrOf(tr, "mutex"), "trk["+name+"]")
				trkName[tr.Pointer()] = name
			}
		}
	}
	w.mu.Lock()
	conns := append([]*imapserver.Conn(nil), w.conns...)
	inner := append([]imapserver.Session(nil), w.inner...)
	w.mu.Unlock()
	for i, c := range conns {
		put(addrOf(reflect.ValueOf(c), "mutex"), fmt.Sprintf("cm[%d]", i+1))
		put(addrOf(reflect.ValueOf(c), "encMutex"), fmt.Sprintf("enc[%d]", i+1))
	}
	for i, in := range inner {
		us := fieldPtr(reflect.ValueOf(in), "UserSession")
		if !us.IsValid() || us.IsNil() {
			continue
		}
		view := fieldPtr(us, "mailbox")
		if !view.IsValid() || view.IsNil() {
			continue
		}
		st := fieldPtr(view, "tracker")
		if st.IsValid() && !st.IsNil() {
			put(addrOf(st, "mutex"), fmt.Sprintf("st[%d]", i+1))
		}
		// a mailbox that is still selected but no longer reachable by name (deleted)
		mbp := fieldPtr(view, "Mailbox")
		if mbp.IsValid() && !mbp.IsNil() {
			put(addrOf(mbp, "mutex"), fmt.Sprintf("mbox[sel%d]", i+1))
			tr := fieldPtr(mbp, "tracker")
			if tr.IsValid() && !tr.IsNil() {
				put(addrOf(tr, "mutex"), fmt.Sprintf("trk[sel%d]", i+1))
			}
		}
	}
	return m
}

func sortedKeys(m map[string]int) []string {
	var k []string
	for x := range m {
		k = append(k, x)
	}
	sort.Strings(k)
	return k
}
