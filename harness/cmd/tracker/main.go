// Command tracker binds spec/Tracker.tla to imapserver's MailboxTracker /
// SessionTracker (property C07).
//
//	tracker replay <tlc-output>     replay every TLC-generated behaviour, compare after every step
//	tracker one <behaviour.json>    replay a single behaviour (replay files)
//	tracker random <out.ndjson>     random long histories, recorded for TrackerTrace validation
package main

import (
	"encoding/json"
	"flag"
	"fmt"
	"math/rand"
	"os"
	"reflect"
	"runtime"
	"strings"
	"sync"
	"sync/atomic"
	"time"

	"github.com/emersion/go-imap/v2"
	"github.com/emersion/go-imap/v2/imapserver"

	"verif/harness/vh"
)

type emitT struct {
	T  string
	N  uint32
	ID uint32
}

func (e *emitT) UnmarshalJSON(b []byte) error {
	var raw []interface{}
	if err := json.Unmarshal(b, &raw); err != nil {
		return err
	}
	if len(raw) != 3 {
		return fmt.Errorf("emit: want 3 fields")
	}
	e.T = raw[0].(string)
	e.N = uint32(raw[1].(float64))
	e.ID = uint32(raw[2].(float64))
	return nil
}
func (e emitT) MarshalJSON() ([]byte, error) {
	return json.Marshal([]interface{}{e.T, e.N, e.ID})
}

type sessObs struct {
	O    bool     `json:"o"`
	Idle bool     `json:"idle"`
	Dec  []uint32 `json:"dec"`
	Enc  []uint32 `json:"enc"`
	Emit []emitT  `json:"emit"`
}

type event struct {
	Act string             `json:"act"`
	S   string             `json:"s"`
	X   uint32             `json:"x"`
	Y   uint32             `json:"y"`
	N   uint32             `json:"n"`
	Exp map[string]sessObs `json:"exp,omitempty"`
	Got map[string]sessObs `json:"got,omitempty"`
}

// stub session: Poll/Idle delegate to the session tracker currently bound
// to the connection.
type stub struct {
	vh.NopSession
	mu sync.Mutex
	st *imapserver.SessionTracker
}

func (s *stub) get() *imapserver.SessionTracker {
	s.mu.Lock()
	defer s.mu.Unlock()
	return s.st
}
func (s *stub) Poll(w *imapserver.UpdateWriter, allow bool) error {
	if st := s.get(); st != nil {
		return st.Poll(w, allow)
	}
	return nil
}
func (s *stub) Idle(w *imapserver.UpdateWriter, stop <-chan struct{}) error {
	if st := s.get(); st != nil {
		return st.Idle(w, stop)
	}
	<-stop
	return nil
}

type sess struct {
	stub    *stub
	raw     *vh.Raw
	conn    *vh.Conn
	idleTag string
}

type world struct {
	srv   *imapserver.Server
	ln    *vh.Listener
	mt    *imapserver.MailboxTracker
	sess  map[string]*sess
	stubs chan *stub
	log   *vh.LogBuf
}

func newWorld() *world {
	w := &world{sess: map[string]*sess{}, stubs: make(chan *stub, 8), log: vh.NewLogBuf()}
	w.mt = imapserver.NewMailboxTracker(0)
	w.ln = vh.NewListener()
	w.srv = imapserver.New(&imapserver.Options{
		NewSession: func(c *imapserver.Conn) (imapserver.Session, *imapserver.GreetingData, error) {
			st := &stub{}
			w.stubs <- st
			return st, &imapserver.GreetingData{PreAuth: true}, nil
		},
		InsecureAuth: true,
		Logger:       w.log,
	})
	go w.srv.Serve(w.ln)
	return w
}

func (w *world) close() {
	for _, s := range w.sess {
		s.conn.Close()
	}
	w.srv.Close()
}

// conn returns the (lazily created) connection of model session name.
func (w *world) conn(name string) (*sess, error) {
	if s, ok := w.sess[name]; ok {
		return s, nil
	}
	c, _, err := w.ln.Dial()
	if err != nil {
		return nil, err
	}
	s := &sess{conn: c, raw: vh.NewRaw(c)}
	s.stub = <-w.stubs
	if _, err := s.raw.ReadResp(); err != nil { // greeting
		return nil, fmt.Errorf("greeting: %v", err)
	}
	if _, tagged, err := s.raw.Cmd("SELECT INBOX"); err != nil || tagged.Name != "OK" {
		return nil, fmt.Errorf("select failed: %v %+v", err, tagged)
	}
	w.sess[name] = s
	return s, nil
}

var flagsA = []imap.Flag{imap.FlagSeen}

func parseEmit(rs []*vh.Resp) ([]emitT, string) {
	var out []emitT
	for _, r := range rs {
		if r.Malformed != "" {
			return out, "malformed response " + r.Raw
		}
		switch {
		case r.Name == "EXISTS" && r.HasNum:
			out = append(out, emitT{"exists", r.Num, 0})
		case r.Name == "EXPUNGE" && r.HasNum:
			out = append(out, emitT{"expunge", r.Num, 0})
		case r.Name == "FLAGS" && !r.HasNum:
			out = append(out, emitT{"mflags", 0, 0})
		case r.Name == "FETCH" && r.HasNum:
			var uid uint32
			if len(r.Toks) == 1 && r.Toks[0].Kind == 'L' {
				l := r.Toks[0].List
				for i := 0; i+1 < len(l); i += 2 {
					if strings.EqualFold(l[i].S, "UID") {
						fmt.Sscanf(l[i+1].S, "%d", &uid)
					}
				}
			}
			out = append(out, emitT{"flags", r.Num, uid})
		default:
			return out, "unexpected response " + r.Raw
		}
	}
	return out, ""
}

// waitIdleRegistered waits until SessionTracker.Idle has installed its
// notification channel (imapserver writes "+ idling" before it starts the
// Idle goroutine, so an update queued right after the continuation request
// could otherwise be missed until the next one; that window is outside C07).
func waitIdleRegistered(st *imapserver.SessionTracker) {
	f := reflect.ValueOf(st).Elem().FieldByName("updates")
	if !f.IsValid() {
		time.Sleep(20 * time.Millisecond)
		return
	}
	for i := 0; i < 20000; i++ {
		if !f.IsNil() {
			return
		}
		if i < 100 {
			runtime.Gosched()
		} else {
			time.Sleep(100 * time.Microsecond)
		}
	}
}

// step applies one event to the real code and returns what was observed.
func (w *world) step(ev *event, trackers map[string]*imapserver.SessionTracker, idling map[string]bool, want map[string]int) (map[string]sessObs, error) {
	emitted := map[string][]emitT{}
	var err error
	defer func() {
		if v := recover(); v != nil {
			err = fmt.Errorf("panic: %v", v)
		}
	}()
	switch ev.Act {
	case "Append":
		w.mt.QueueNumMessages(ev.N)
	case "Expunge":
		w.mt.QueueExpunge(ev.X)
	case "MsgFlags":
		var src *imapserver.SessionTracker
		if ev.S != "none" {
			src = trackers[ev.S]
		}
		w.mt.QueueMessageFlags(ev.X, imap.UID(ev.Y), flagsA, src)
	case "MboxFlags":
		w.mt.QueueMailboxFlags(flagsA)
	case "NewSession":
		st := w.mt.NewSession()
		trackers[ev.S] = st
		if s, ok := w.sess[ev.S]; ok {
			s.stub.mu.Lock()
			s.stub.st = st
			s.stub.mu.Unlock()
		}
	case "CloseSession":
		trackers[ev.S].Close()
		delete(trackers, ev.S)
		if s, ok := w.sess[ev.S]; ok {
			s.stub.mu.Lock()
			s.stub.st = nil
			s.stub.mu.Unlock()
		}
	case "Poll", "IdleStart", "IdleStop":
		s, cerr := w.conn(ev.S)
		if cerr != nil {
			return nil, cerr
		}
		s.stub.mu.Lock()
		s.stub.st = trackers[ev.S]
		s.stub.mu.Unlock()
		switch ev.Act {
		case "Poll":
			cmd := "NOOP"
			if ev.X == 0 {
				// command names are case-insensitive: the spelling varies from poll to poll
				cmd = []string{"FETCH 1 FLAGS", "fetch 1 FLAGS", "Fetch 1 flags"}[int(atomic.AddInt64(&pollSpelling, 1))%3]
			}
			un, tagged, cerr := s.raw.Cmd(cmd)
			if cerr != nil {
				return nil, fmt.Errorf("%s: %v (log: %v)", cmd, cerr, w.log.Snapshot())
			}
			if tagged.Name != "OK" {
				return nil, fmt.Errorf("%s: %s", cmd, tagged.Raw)
			}
			em, bad := parseEmit(un)
			if bad != "" {
				return nil, fmt.Errorf("%s", bad)
			}
			emitted[ev.S] = em
		case "IdleStart":
			s.idleTag = s.raw.NextTag()
			s.raw.Send(s.idleTag + " IDLE\r\n")
			r, cerr := s.raw.ReadResp()
			if cerr != nil || r.Tag != "+" {
				return nil, fmt.Errorf("IDLE: %v %+v", cerr, r)
			}
			waitIdleRegistered(trackers[ev.S])
			idling[ev.S] = true
		case "IdleStop":
			s.raw.Send("DONE\r\n")
			un, tagged, cerr := s.raw.Until(s.idleTag)
			if cerr != nil {
				return nil, fmt.Errorf("DONE: %v", cerr)
			}
			if tagged.Name != "OK" {
				return nil, fmt.Errorf("DONE: %s", tagged.Raw)
			}
			em, bad := parseEmit(un)
			if bad != "" {
				return nil, fmt.Errorf("%s", bad)
			}
			emitted[ev.S] = em
			delete(idling, ev.S)
		}
	default:
		return nil, fmt.Errorf("unknown action %q", ev.Act)
	}
	if err != nil {
		return nil, err
	}
	// Deliveries to idling sessions: read as many responses as the spec
	// predicts (bounded wait); an idling session for which nothing is
	// predicted must stay silent (checked at its next read).
	if ev.Act != "IdleStop" && ev.Act != "Poll" && ev.Act != "IdleStart" {
		for name := range idling {
			s := w.sess[name]
			var rs []*vh.Resp
			s.raw.Timeout = 2 * time.Second
			short := false
			for i := 0; i < want[name]; i++ {
				r, cerr := s.raw.ReadResp()
				if cerr != nil {
					short = true
					break
				}
				rs = append(rs, r)
			}
			s.raw.Timeout = 5 * time.Second
			if short {
				return nil, fmt.Errorf("idling session %s delivered %d of the %d updates dispatched to it within 2 s", name, len(rs), want[name])
			}
			em, bad := parseEmit(rs)
			if bad != "" {
				return nil, fmt.Errorf("%s", bad)
			}
			emitted[name] = em
		}
	}
	got := map[string]sessObs{}
	for name := range trackers {
		got[name] = sessObs{O: true, Idle: idling[name], Emit: emitted[name]}
	}
	return got, nil
}

func tables(st *imapserver.SessionTracker, nView, nMbox int) (dec, enc []uint32) {
	dec = make([]uint32, nView)
	for c := 1; c <= nView; c++ {
		dec[c-1] = st.DecodeSeqNum(uint32(c))
	}
	enc = make([]uint32, nMbox)
	for n := 1; n <= nMbox; n++ {
		enc[n-1] = st.EncodeSeqNum(uint32(n))
	}
	return
}

func eqU(a, b []uint32) bool {
	if len(a) != len(b) {
		return false
	}
	for i := range a {
		if a[i] != b[i] {
			return false
		}
	}
	return true
}
func eqE(a, b []emitT) bool {
	if len(a) != len(b) {
		return false
	}
	for i := range a {
		if a[i] != b[i] {
			return false
		}
	}
	return true
}

type verdict struct {
	sig, detail string
	step        int
}

// replay runs one behaviour; it returns the first disagreement, if any.
func replay(beh []event) (*verdict, int, bool, error) {
	w := newWorld()
	defer w.close()
	trackers := map[string]*imapserver.SessionTracker{}
	idling := map[string]bool{}
	steps := 0
	nontrivial := false
	for i := range beh {
		ev := &beh[i]
		want := map[string]int{}
		for name, exp := range ev.Exp {
			want[name] = len(exp.Emit)
		}
		got, err := w.step(ev, trackers, idling, want)
		steps++
		if err != nil {
			return &verdict{sig: "step-failed/" + ev.Act, detail: err.Error(), step: i}, steps, nontrivial, nil
		}
		for name, exp := range ev.Exp {
			if !exp.O {
				continue
			}
			st := trackers[name]
			if st == nil {
				return nil, steps, nontrivial, fmt.Errorf("harness: session %s open in spec but no tracker", name)
			}
			g := got[name]
			if !eqE(g.Emit, exp.Emit) {
				return &verdict{sig: "emit/" + ev.Act, detail: fmt.Sprintf("session %s emitted %v, spec predicts %v", name, g.Emit, exp.Emit), step: i}, steps, nontrivial, nil
			}
			dec, enc := tables(st, len(exp.Dec), len(exp.Enc))
			if !eqU(dec, exp.Dec) {
				return &verdict{sig: "decode", detail: fmt.Sprintf("session %s DecodeSeqNum(1..%d) = %v, spec predicts %v", name, len(exp.Dec), dec, exp.Dec), step: i}, steps, nontrivial, nil
			}
			if !eqU(enc, exp.Enc) {
				sig := "encode"
				return &verdict{sig: sig, detail: fmt.Sprintf("session %s EncodeSeqNum(1..%d) = %v, spec predicts %v", name, len(exp.Enc), enc, exp.Enc), step: i}, steps, nontrivial, nil
			}
			for j, d := range exp.Dec {
				if d == 0 || int(d) != j+1 {
					nontrivial = true
				}
			}
		}
	}
	return nil, steps, nontrivial, nil
}

var pollSpelling int64

func cmdReplay(path string, workers int) {
	out := vh.NewOut()
	defer out.Flush()
	type job struct{ beh []event }
	jobs := make(chan job, 1024)
	var wg sync.WaitGroup
	var nBeh, nSteps, nNontriv, nMis, nSkipped int64
	var infra atomic.Value
	var samples []interface{}
	var smu sync.Mutex
	for i := 0; i < workers; i++ {
		wg.Add(1)
		go func() {
			defer wg.Done()
			for j := range jobs {
				if atomic.LoadInt64(&nMis) >= 2000 {
					// the verdict is established many times over: behaviours that run into a missing response
					// each wait for it, and replaying the rest would only take time
					atomic.AddInt64(&nSkipped, 1)
					continue
				}
				v, steps, nt, err := replay(j.beh)
				atomic.AddInt64(&nBeh, 1)
				atomic.AddInt64(&nSteps, int64(steps))
				if nt {
					atomic.AddInt64(&nNontriv, 1)
				}
				if err != nil {
					infra.Store(err.Error())
					continue
				}
				if v != nil {
					if atomic.AddInt64(&nMis, 1) <= 200 {
						out.Mismatch(v.sig, fmt.Sprintf("step %d (%s): %s", v.step, j.beh[v.step].Act, v.detail), j.beh[:v.step+1])
					}
				} else if nt {
					smu.Lock()
					if len(samples) < 3 {
						samples = append(samples, stripExp(j.beh))
					}
					smu.Unlock()
				}
			}
		}()
	}
	err := vh.ReadTLines(path, func(p []byte) error {
		var beh []event
		if err := json.Unmarshal(p, &beh); err != nil {
			return err
		}
		jobs <- job{beh}
		return nil
	})
	close(jobs)
	wg.Wait()
	sum := map[string]interface{}{"behaviours": nBeh, "steps": nSteps, "nontrivial": nNontriv, "mismatches": nMis, "samples": samples,
		"skipped_after_2000_mismatches": nSkipped}
	if err != nil {
		sum["infra_error"] = err.Error()
	} else if e := infra.Load(); e != nil {
		sum["infra_error"] = e
	}
	out.Summary(sum)
}

func stripExp(beh []event) []string {
	var out []string
	for _, e := range beh {
		out = append(out, fmt.Sprintf("%s(%s,%d,%d)", e.Act, e.S, e.X, e.Y))
	}
	return out
}

func cmdOne(path string) {
	out := vh.NewOut()
	defer out.Flush()
	b, err := os.ReadFile(path)
	if err != nil {
		fmt.Fprintln(os.Stderr, err)
		os.Exit(2)
	}
	var beh []event
	if err := json.Unmarshal(b, &beh); err != nil {
		fmt.Fprintln(os.Stderr, err)
		os.Exit(2)
	}
	v, steps, _, err := replay(beh)
	if err != nil {
		fmt.Fprintln(os.Stderr, err)
		os.Exit(2)
	}
	if v != nil {
		out.Mismatch(v.sig, fmt.Sprintf("step %d (%s): %s", v.step, beh[v.step].Act, v.detail), beh[:v.step+1])
	}
	out.Summary(map[string]interface{}{"behaviours": 1, "steps": steps})
}

// ---- random driver: records what the real code does, for TrackerTrace ----

type rec struct {
	Ev   string              `json:"ev"`
	S    string              `json:"s"`
	X    uint32              `json:"x"`
	Y    uint32              `json:"y"`
	N    uint32              `json:"n"`
	Emit map[string][]emitT  `json:"emit"`
	Dec  map[string][]uint32 `json:"dec"`
	Enc  map[string][]uint32 `json:"enc"`
}

func cmdRandom(path string, seed int64, traces, steps, maxSess, maxMsgs, maxK int) {
	out := vh.NewOut()
	defer out.Flush()
	f, err := os.Create(path)
	if err != nil {
		fmt.Fprintln(os.Stderr, err)
		os.Exit(2)
	}
	defer f.Close()
	enc := json.NewEncoder(f)
	rng := rand.New(rand.NewSource(seed))
	names := []string{"s1", "s2", "s3", "s4", "s5", "s6", "s7", "s8"}[:maxSess]
	total := 0
	var infra string
	for t := 0; t < traces && infra == ""; t++ {
		enc.Encode(map[string]string{"ev": "Reset"})
		total++
		w := newWorld()
		trackers := map[string]*imapserver.SessionTracker{}
		idling := map[string]bool{}
		viewLen := map[string]int{} // number of messages the client knows = from emitted EXISTS/EXPUNGE
		pending := map[string]int{} // updates dispatched to a session and not yet seen on its wire
		nMbox := 0
		nextID := uint32(1)
		ids := []uint32{}
		for i := 0; i < steps; i++ {
			var ev event
			for {
				ev = event{S: "none"}
				switch r := rng.Intn(100); {
				case r < 18:
					k := rng.Intn(maxK + 1)
					if nMbox+k == 0 || nMbox+k > maxMsgs {
						continue
					}
					ev.Act, ev.X, ev.N = "Append", uint32(k), uint32(nMbox+k)
				case r < 36:
					if nMbox == 0 {
						continue
					}
					ev.Act, ev.X = "Expunge", uint32(1+rng.Intn(nMbox))
				case r < 46:
					if nMbox == 0 {
						continue
					}
					ev.Act, ev.X = "MsgFlags", uint32(1+rng.Intn(nMbox))
					ev.Y = ids[ev.X-1]
					if rng.Intn(2) == 0 {
						var cands []string
						for n := range trackers {
							if !idling[n] {
								cands = append(cands, n)
							}
						}
						if len(cands) > 0 {
							sortStrings(cands)
							ev.S = cands[rng.Intn(len(cands))]
						}
					}
				case r < 50:
					ev.Act = "MboxFlags"
				case r < 58:
					n := names[rng.Intn(len(names))]
					if _, ok := trackers[n]; ok {
						if idling[n] {
							continue
						}
						ev.Act, ev.S = "CloseSession", n
					} else {
						ev.Act, ev.S = "NewSession", n
					}
				case r < 92:
					n := names[rng.Intn(len(names))]
					if _, ok := trackers[n]; !ok || idling[n] {
						continue
					}
					ev.Act, ev.S = "Poll", n
					ev.X = uint32(rng.Intn(2))
				default:
					n := names[rng.Intn(len(names))]
					if _, ok := trackers[n]; !ok {
						continue
					}
					ev.S = n
					if idling[n] {
						ev.Act = "IdleStop"
					} else {
						ev.Act = "IdleStart"
					}
				}
				break
			}
			// apply to the real code, recording mode (no Exp)
			// model-independent bookkeeping needed to issue legal calls:
			switch ev.Act {
			case "Append":
				for j := uint32(0); j < ev.X; j++ {
					ids = append(ids, nextID)
					nextID++
				}
				nMbox = int(ev.N)
			case "Expunge":
				ids = append(ids[:ev.X-1], ids[ev.X:]...)
				nMbox--
			}
			want := map[string]int{}
			switch ev.Act {
			case "Append", "Expunge", "MsgFlags", "MboxFlags":
				for n := range trackers {
					if n != ev.S {
						pending[n]++
						if idling[n] {
							want[n] = pending[n]
						}
					}
				}
			case "NewSession", "CloseSession":
				delete(pending, ev.S)
			}
			got, err := w.stepRecord(&ev, trackers, idling, want)
			if err != nil {
				// a failing step is itself an observation the spec must judge
				enc.Encode(map[string]interface{}{"ev": "Failed", "act": ev.Act, "s": ev.S, "x": ev.X})
				out.Mismatch("step-failed/"+ev.Act, err.Error(), nil)
				infra = ""
				break
			}
			r := rec{Ev: ev.Act, S: ev.S, X: ev.X, Y: ev.Y, N: uint32(nMbox), Emit: map[string][]emitT{}, Dec: map[string][]uint32{}, Enc: map[string][]uint32{}}
			if ev.Act == "NewSession" {
				viewLen[ev.S] = nMbox
			}
			if ev.Act == "CloseSession" {
				delete(viewLen, ev.S)
			}
			for _, n := range names {
				r.Emit[n], r.Dec[n], r.Enc[n] = []emitT{}, []uint32{}, []uint32{}
			}
			for n, em := range got {
				if len(em) > 0 {
					r.Emit[n] = em
				}
				pending[n] -= len(em)
				for _, e := range em {
					switch e.T {
					case "exists":
						viewLen[n] = int(e.N)
					case "expunge":
						viewLen[n]--
					}
				}
			}
			for n, st := range trackers {
				vl := viewLen[n]
				if vl < 0 {
					vl = 0
				}
				r.Dec[n], r.Enc[n] = tables(st, vl, nMbox)
			}
			enc.Encode(r)
			total++
		}
		w.close()
	}
	sum := map[string]interface{}{"records": total, "traces": traces}
	if infra != "" {
		sum["infra_error"] = infra
	}
	out.Summary(sum)
}

func sortStrings(a []string) {
	for i := 1; i < len(a); i++ {
		for j := i; j > 0 && a[j] < a[j-1]; j-- {
			a[j], a[j-1] = a[j-1], a[j]
		}
	}
}

// stepRecord applies ev without expectations and returns what each session
// emitted on the wire.
func (w *world) stepRecord(ev *event, trackers map[string]*imapserver.SessionTracker, idling map[string]bool, want map[string]int) (map[string][]emitT, error) {
	ev.Exp = nil
	got, err := w.step(ev, trackers, idling, want)
	if err != nil {
		return nil, err
	}
	out := map[string][]emitT{}
	for n, o := range got {
		out[n] = o.Emit
	}
	return out, nil
}

func main() {
	if len(os.Args) < 3 {
		fmt.Fprintln(os.Stderr, "usage: tracker replay|one|random <file> [flags]")
		os.Exit(2)
	}
	mode, path := os.Args[1], os.Args[2]
	fs := flag.NewFlagSet(mode, flag.ExitOnError)
	seed := fs.Int64("seed", 1, "")
	traces := fs.Int("traces", 50, "")
	steps := fs.Int("steps", 200, "")
	maxSess := fs.Int("sessions", 4, "")
	maxMsgs := fs.Int("msgs", 12, "")
	maxK := fs.Int("k", 4, "")
	workers := fs.Int("workers", 16, "")
	fs.Parse(os.Args[3:])
	switch mode {
	case "replay":
		cmdReplay(path, *workers)
	case "one":
		cmdOne(path)
	case "random":
		cmdRandom(path, *seed, *traces, *steps, *maxSess, *maxMsgs, *maxK)
	default:
		os.Exit(2)
	}
}
