// Package vh holds the plumbing shared by all conformance harnesses: an
// in-memory buffered net.Conn pair with fault injection, a listener that
// hands such connections to imapserver.Server, a raw IMAP peer with its own
// tokenizer (independent of go-imap's decoder), and trace/verdict I/O.
package vh

import (
	"errors"
	"io"
	"net"
	"os"
	"sync"
	"time"
)

// half is one direction of a connection: an unbounded byte queue.
type half struct {
	mu       sync.Mutex
	cond     *sync.Cond
	buf      []byte
	wclosed  bool  // writer closed: reader sees EOF after draining
	rclosed  bool  // reader closed: writer sees ErrClosedPipe
	rerr     error // injected read error (after draining)
	deadline time.Time
	timer    *time.Timer
	written  int64
	stall    bool          // virtual time: a read that would block with an armed deadline times out at once
	werr     error         // injected write error
	waiters  int           // readers blocked because the queue is empty
	window   int           // > 0: a writer blocks while this many octets are unread (a peer that stops reading stalls it); < 0: every write blocks
	wwaiters int           // writers blocked by the window
	dlgen    int64         // number of deadline changes so far
	linger   time.Duration // > 0: a Write returns only once the peer has taken the octets and waits for more, plus this long
}

func newHalf() *half { h := &half{}; h.cond = sync.NewCond(&h.mu); return h }

func (h *half) write(p []byte) (int, error) {
	h.mu.Lock()
	defer h.mu.Unlock()
	if h.werr != nil {
		return 0, h.werr
	}
	if h.wclosed {
		return 0, net.ErrClosed // closed by the writer itself, as a real connection reports it
	}
	if h.rclosed {
		return 0, io.ErrClosedPipe // the peer is gone
	}
	for h.window < 0 || (h.window > 0 && len(h.buf) >= h.window) {
		h.wwaiters++
		h.cond.Wait()
		h.wwaiters--
		if h.werr != nil {
			return 0, h.werr
		}
		if h.wclosed {
			return 0, net.ErrClosed
		}
		if h.rclosed {
			return 0, io.ErrClosedPipe
		}
	}
	h.buf = append(h.buf, p...)
	h.written += int64(len(p))
	h.cond.Broadcast()
	if h.linger > 0 {
		// a write that returns late: the peer has long read the octets (and reacted to them) when the caller
		// gets control back - as with a loaded machine or a slow network stack
		d := h.linger
		h.mu.Unlock()
		for i := 0; i < 2500; i++ {
			h.mu.Lock()
			taken := len(h.buf) == 0 && h.waiters > 0 || h.rclosed || h.wclosed
			h.mu.Unlock()
			if taken {
				break
			}
			time.Sleep(20 * time.Microsecond)
		}
		time.Sleep(d)
		h.mu.Lock()
	}
	return len(p), nil
}

func (h *half) read(p []byte) (int, error) {
	h.mu.Lock()
	defer h.mu.Unlock()
	for {
		if h.rclosed {
			return 0, net.ErrClosed
		}
		if len(h.buf) > 0 {
			n := copy(p, h.buf)
			h.buf = h.buf[n:]
			if h.window != 0 {
				h.cond.Broadcast()
			}
			return n, nil
		}
		if h.rerr != nil {
			return 0, h.rerr
		}
		if h.wclosed {
			return 0, io.EOF
		}
		if !h.deadline.IsZero() && (h.stall || !time.Now().Before(h.deadline)) {
			return 0, os.ErrDeadlineExceeded
		}
		h.waiters++
		h.cond.Wait()
		h.waiters--
	}
}

func (h *half) setDeadline(t time.Time) {
	h.mu.Lock()
	defer h.mu.Unlock()
	h.deadline = t
	h.dlgen++
	if h.timer != nil {
		h.timer.Stop()
		h.timer = nil
	}
	if !t.IsZero() {
		d := time.Until(t)
		if d < 0 {
			d = 0
		}
		h.timer = time.AfterFunc(d, func() {
			h.mu.Lock()
			h.cond.Broadcast()
			h.mu.Unlock()
		})
	}
	h.cond.Broadcast()
}

// Conn is one end of an in-memory connection.
type Conn struct {
	r, w    *half
	name    string
	once    sync.Once
	OnClose func()
}

type addr string

func (a addr) Network() string { return "mem" }
func (a addr) String() string  { return string(a) }

// NewConnPair returns the two ends of a buffered in-memory connection.
func NewConnPair() (*Conn, *Conn) {
	a, b := newHalf(), newHalf()
	return &Conn{r: a, w: b, name: "client"}, &Conn{r: b, w: a, name: "server"}
}

func (c *Conn) Read(p []byte) (int, error)  { return c.r.read(p) }
func (c *Conn) Write(p []byte) (int, error) { return c.w.write(p) }
func (c *Conn) Close() error {
	c.once.Do(func() {
		c.r.mu.Lock()
		c.r.rclosed = true
		c.r.cond.Broadcast()
		c.r.mu.Unlock()
		c.w.mu.Lock()
		c.w.wclosed = true
		c.w.cond.Broadcast()
		c.w.mu.Unlock()
		if c.OnClose != nil {
			c.OnClose()
		}
	})
	return nil
}

// PeerGone makes this end see a peer that has gone away completely: reads return EOF (after what was already
// written to it), writes fail.  Unlike closing the other end it can be done before anybody uses the pair.
func (c *Conn) PeerGone() {
	c.r.mu.Lock()
	c.r.wclosed = true
	c.r.cond.Broadcast()
	c.r.mu.Unlock()
	c.w.mu.Lock()
	c.w.rclosed = true
	c.w.cond.Broadcast()
	c.w.mu.Unlock()
}

// SetPeerWindow bounds what the peer may write to this end without it being read (0 = unbounded): like a
// TCP receive window, a peer writing to an end that has stopped reading eventually blocks.  A negative
// window is a full one: the peer's next write blocks whatever has been read.
func (c *Conn) SetPeerWindow(n int) {
	c.r.mu.Lock()
	c.r.window = n
	c.r.cond.Broadcast()
	c.r.mu.Unlock()
}

// SetWriteLinger makes every Write on this end return late: only once the peer has taken the octets and is waiting
// for more (at most 50 ms), plus d.
func (c *Conn) SetWriteLinger(d time.Duration) {
	c.w.mu.Lock()
	c.w.linger = d
	c.w.mu.Unlock()
}

// PeerBlockedInWrite tells whether the peer is blocked in a Write to this end because of the window (it has
// produced something this end is not taking).
func (c *Conn) PeerBlockedInWrite() bool {
	c.r.mu.Lock()
	defer c.r.mu.Unlock()
	return c.r.wwaiters > 0
}

// PeerBlockedInRead tells whether the peer has consumed everything written so far and is blocked in Read
// waiting for more (a way to know that it has processed what it was sent).
func (c *Conn) PeerBlockedInRead() bool {
	c.w.mu.Lock()
	defer c.w.mu.Unlock()
	return c.w.waiters > 0 && len(c.w.buf) == 0
}

// ReadDeadlineGen counts the changes of this end's read deadline so far (two equal values: nobody touched
// it in between).
func (c *Conn) ReadDeadlineGen() int64 {
	c.r.mu.Lock()
	defer c.r.mu.Unlock()
	return c.r.dlgen
}

// CloseWrite half-closes: the peer reads EOF after draining.
func (c *Conn) CloseWrite() {
	c.w.mu.Lock()
	c.w.wclosed = true
	c.w.cond.Broadcast()
	c.w.mu.Unlock()
}

// InjectPeerReadError makes the peer's Read fail with err once the bytes
// already written have been consumed (a connection reset).
func (c *Conn) InjectPeerReadError(err error) {
	c.w.mu.Lock()
	c.w.rerr = err
	c.w.cond.Broadcast()
	c.w.mu.Unlock()
}

// Stall puts this end's reads into virtual-time stall mode: nothing more will
// arrive; a Read that would block while a read deadline is armed fails with a
// timeout at once, a Read without deadline blocks until Close.
func (c *Conn) Stall() {
	c.r.mu.Lock()
	c.r.stall = true
	c.r.cond.Broadcast()
	c.r.mu.Unlock()
}

// FailWrites makes every further Write on this end fail with err.
func (c *Conn) FailWrites(err error) {
	c.w.mu.Lock()
	c.w.werr = err
	c.w.mu.Unlock()
}

// Closed reports whether this end has been closed by its owner.
func (c *Conn) Closed() bool {
	c.r.mu.Lock()
	defer c.r.mu.Unlock()
	return c.r.rclosed
}

// PeerClosed reports whether the other end was closed.
func (c *Conn) PeerClosed() bool {
	c.r.mu.Lock()
	defer c.r.mu.Unlock()
	return c.r.wclosed
}

func (c *Conn) LocalAddr() net.Addr                { return addr(c.name) }
func (c *Conn) RemoteAddr() net.Addr               { return addr("peer-of-" + c.name) }
func (c *Conn) SetDeadline(t time.Time) error      { c.r.setDeadline(t); return nil }
func (c *Conn) SetReadDeadline(t time.Time) error  { c.r.setDeadline(t); return nil }
func (c *Conn) SetWriteDeadline(t time.Time) error { return nil }

// Listener hands in-memory connections to a server.
type Listener struct {
	ch   chan net.Conn
	done chan struct{}
	once sync.Once
	Wrap func(net.Conn) net.Conn // optional: wrap the server end (e.g. tls.Server)
}

func NewListener() *Listener {
	return &Listener{ch: make(chan net.Conn), done: make(chan struct{})}
}

func (l *Listener) Accept() (net.Conn, error) {
	select {
	case c := <-l.ch:
		return c, nil
	case <-l.done:
		return nil, net.ErrClosed
	}
}
func (l *Listener) Close() error   { l.once.Do(func() { close(l.done) }); return nil }
func (l *Listener) Addr() net.Addr { return addr("listener") }

// Dial creates a connection, gives the server end to Accept and returns the
// client end (and the raw server end, for inspection).
func (l *Listener) Dial() (*Conn, *Conn, error) {
	c, s := NewConnPair()
	var sc net.Conn = s
	if l.Wrap != nil {
		sc = l.Wrap(s)
	}
	select {
	case l.ch <- sc:
		return c, s, nil
	case <-l.done:
		return nil, nil, errors.New("listener closed")
	}
}
