package vh

import (
	"github.com/emersion/go-imap/v2"
	"github.com/emersion/go-imap/v2/imapserver"
)

// NopSession is an imapserver.Session whose operations all succeed and do
// nothing.  Harnesses embed it and override what they need.
type NopSession struct{}

func (NopSession) Close() error                          { return nil }
func (NopSession) Login(username, password string) error { return nil }
func (NopSession) Select(mailbox string, options *imap.SelectOptions) (*imap.SelectData, error) {
	return &imap.SelectData{}, nil
}
func (NopSession) Create(mailbox string, options *imap.CreateOptions) error { return nil }
func (NopSession) Delete(mailbox string) error                              { return nil }
func (NopSession) Rename(mailbox, newName string) error                     { return nil }
func (NopSession) Subscribe(mailbox string) error                           { return nil }
func (NopSession) Unsubscribe(mailbox string) error                         { return nil }
func (NopSession) List(w *imapserver.ListWriter, ref string, patterns []string, options *imap.ListOptions) error {
	return nil
}
func (NopSession) Status(mailbox string, options *imap.StatusOptions) (*imap.StatusData, error) {
	return &imap.StatusData{Mailbox: mailbox}, nil
}
func (NopSession) Append(mailbox string, r imap.LiteralReader, options *imap.AppendOptions) (*imap.AppendData, error) {
	return &imap.AppendData{}, nil
}
func (NopSession) Poll(w *imapserver.UpdateWriter, allowExpunge bool) error { return nil }
func (NopSession) Idle(w *imapserver.UpdateWriter, stop <-chan struct{}) error {
	<-stop
	return nil
}
func (NopSession) Unselect() error                                              { return nil }
func (NopSession) Expunge(w *imapserver.ExpungeWriter, uids *imap.UIDSet) error { return nil }
func (NopSession) Search(kind imapserver.NumKind, criteria *imap.SearchCriteria, options *imap.SearchOptions) (*imap.SearchData, error) {
	return &imap.SearchData{}, nil
}
func (NopSession) Fetch(w *imapserver.FetchWriter, numSet imap.NumSet, options *imap.FetchOptions) error {
	return nil
}
func (NopSession) Store(w *imapserver.FetchWriter, numSet imap.NumSet, flags *imap.StoreFlags, options *imap.StoreOptions) error {
	return nil
}
func (NopSession) Copy(numSet imap.NumSet, dest string) (*imap.CopyData, error) {
	return &imap.CopyData{}, nil
}

// LogBuf is an imapserver.Logger collecting lines.
type LogBuf struct {
	mu    chan struct{}
	Lines []string
}

func NewLogBuf() *LogBuf { l := &LogBuf{mu: make(chan struct{}, 1)}; return l }
func (l *LogBuf) Printf(format string, args ...interface{}) {
	l.mu <- struct{}{}
	l.Lines = append(l.Lines, sprintf(format, args...))
	<-l.mu
}
func (l *LogBuf) Snapshot() []string {
	l.mu <- struct{}{}
	out := append([]string(nil), l.Lines...)
	<-l.mu
	return out
}
