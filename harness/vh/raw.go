package vh

import (
	"bufio"
	"bytes"
	"fmt"
	"io"
	"strconv"
	"strings"
	"time"
)

// Tok is one token of a response, produced by the harness's own tokenizer.
type Tok struct {
	Kind byte   // 'a' atom (incl. numbers, NIL, flags, BODY[...]<..>), 'q' quoted, 'l' literal, 'L' list
	S    string // decoded content for a/q/l
	List []Tok
}

func (t Tok) String() string {
	switch t.Kind {
	case 'L':
		parts := make([]string, len(t.List))
		for i, c := range t.List {
			parts[i] = c.String()
		}
		return "(" + strings.Join(parts, " ") + ")"
	case 'q':
		return strconv.Quote(t.S)
	case 'l':
		return fmt.Sprintf("{%d}%q", len(t.S), t.S)
	}
	return t.S
}

// IsNil reports whether the token is the atom NIL.
func (t Tok) IsNil() bool { return t.Kind == 'a' && strings.EqualFold(t.S, "NIL") }

// Resp is one server response (or any line-shaped protocol unit).
type Resp struct {
	Raw       string // all bytes including literals and final CRLF
	Tag       string // "*", "+" or the tag
	Num       uint32 // numeric prefix of "* n NAME", else 0
	HasNum    bool
	Name      string // upper-cased response name ("OK", "FETCH", "EXISTS", ...)
	Code      string // response code name, upper-cased (status responses)
	CodeArg   string // rest of the bracketed code
	Text      string // human-readable text (status responses) or rest after "+"
	Toks      []Tok  // tokens after the name (data responses)
	Malformed string // non-empty if the line is not well-formed by the tokenizer's grammar
}

func (r *Resp) IsStatus() bool {
	switch r.Name {
	case "OK", "NO", "BAD", "BYE", "PREAUTH":
		return true
	}
	return false
}

type seg struct {
	lit  bool
	data string
}

// Raw is a raw IMAP peer on a net.Conn-like stream.
type Raw struct {
	C       io.ReadWriter
	R       *bufio.Reader
	tagN    int
	Timeout time.Duration
	dl      interface{ SetReadDeadline(time.Time) error }
}

func NewRaw(c io.ReadWriter) *Raw {
	r := &Raw{C: c, R: bufio.NewReaderSize(c, 65536), Timeout: 5 * time.Second}
	if d, ok := c.(interface{ SetReadDeadline(time.Time) error }); ok {
		r.dl = d
	}
	return r
}

func (r *Raw) arm() {
	if r.dl != nil && r.Timeout > 0 {
		r.dl.SetReadDeadline(time.Now().Add(r.Timeout))
	}
}

// ReadResp reads one complete response, following literals.
func (r *Raw) ReadResp() (*Resp, error) {
	r.arm()
	var segs []seg
	var raw bytes.Buffer
	for {
		line, err := r.R.ReadString('\n')
		raw.WriteString(line)
		if err != nil {
			if raw.Len() > 0 {
				return &Resp{Raw: raw.String(), Malformed: "truncated: " + err.Error()}, err
			}
			return nil, err
		}
		n, ok := trailingLiteral(line)
		if !ok {
			segs = append(segs, seg{false, line})
			break
		}
		segs = append(segs, seg{false, line[:strings.LastIndexByte(line, '{')]})
		buf := make([]byte, n)
		if _, err := io.ReadFull(r.R, buf); err != nil {
			raw.Write(buf)
			return &Resp{Raw: raw.String(), Malformed: "truncated literal: " + err.Error()}, err
		}
		raw.Write(buf)
		segs = append(segs, seg{true, string(buf)})
	}
	resp := parseResp(segs)
	resp.Raw = raw.String()
	return resp, nil
}

func trailingLiteral(line string) (int64, bool) {
	s := strings.TrimSuffix(line, "\n")
	s = strings.TrimSuffix(s, "\r")
	if !strings.HasSuffix(s, "}") {
		return 0, false
	}
	i := strings.LastIndexByte(s, '{')
	if i < 0 {
		return 0, false
	}
	num := s[i+1 : len(s)-1]
	num = strings.TrimSuffix(num, "+")
	if num == "" {
		return 0, false
	}
	for _, ch := range num {
		if ch < '0' || ch > '9' {
			return 0, false
		}
	}
	n, err := strconv.ParseInt(num, 10, 64)
	if err != nil || n > 1<<30 {
		return 0, false
	}
	return n, true
}

type tokenizer struct {
	segs []seg
	si   int
	pos  int
	err  string
}

func (t *tokenizer) cur() (byte, bool) {
	for t.si < len(t.segs) {
		if t.segs[t.si].lit {
			return 0, true // caller must check atLiteral
		}
		if t.pos < len(t.segs[t.si].data) {
			return t.segs[t.si].data[t.pos], true
		}
		t.si++
		t.pos = 0
	}
	return 0, false
}

func (t *tokenizer) atLiteral() bool {
	t.cur()
	return t.si < len(t.segs) && t.segs[t.si].lit
}

func (t *tokenizer) rest() string {
	var b strings.Builder
	for i := t.si; i < len(t.segs); i++ {
		d := t.segs[i].data
		if i == t.si && !t.segs[i].lit {
			d = d[t.pos:]
		}
		b.WriteString(d)
	}
	return b.String()
}

func isAtomEnd(c byte) bool {
	return c == ' ' || c == '(' || c == ')' || c == '\r' || c == '\n' || c == '"'
}

func (t *tokenizer) token() (Tok, bool) {
	if t.atLiteral() {
		tok := Tok{Kind: 'l', S: t.segs[t.si].data}
		t.si++
		t.pos = 0
		return tok, true
	}
	c, ok := t.cur()
	if !ok {
		return Tok{}, false
	}
	switch {
	case c == '(':
		t.pos++
		var list []Tok
		for {
			c, ok := t.cur()
			if !ok {
				t.err = "unterminated list"
				return Tok{}, false
			}
			if !t.atLiteral() && c == ')' {
				t.pos++
				return Tok{Kind: 'L', List: list}, true
			}
			if !t.atLiteral() && c == ' ' {
				t.pos++
				continue
			}
			if !t.atLiteral() && (c == '\r' || c == '\n') {
				t.err = "line end inside list"
				return Tok{}, false
			}
			sub, ok := t.token()
			if !ok {
				if t.err == "" {
					t.err = "bad token in list"
				}
				return Tok{}, false
			}
			list = append(list, sub)
		}
	case c == '"':
		t.pos++
		var b strings.Builder
		d := t.segs[t.si].data
		for t.pos < len(d) {
			ch := d[t.pos]
			if ch == '\\' && t.pos+1 < len(d) {
				b.WriteByte(d[t.pos+1])
				t.pos += 2
				continue
			}
			if ch == '"' {
				t.pos++
				return Tok{Kind: 'q', S: b.String()}, true
			}
			if ch == '\r' || ch == '\n' {
				break
			}
			b.WriteByte(ch)
			t.pos++
		}
		t.err = "unterminated quoted string"
		return Tok{}, false
	case c == ')' || c == ' ' || c == '\r' || c == '\n':
		return Tok{}, false
	default:
		var b strings.Builder
		for {
			d := t.segs[t.si].data
			if t.pos >= len(d) || isAtomEnd(d[t.pos]) {
				break
			}
			if d[t.pos] != '[' {
				b.WriteByte(d[t.pos])
				t.pos++
				continue
			}
			// section specifier: runs to the matching ']'; header field names inside it are astrings, so it
			// may hold quoted strings and literals (the latter continue in the following segments)
			b.WriteByte('[')
			t.pos++
			closed := false
			for !closed {
				if t.si >= len(t.segs) {
					t.err = "unterminated ["
					return Tok{}, false
				}
				if t.segs[t.si].lit {
					b.WriteString(t.segs[t.si].data)
					t.si++
					t.pos = 0
					continue
				}
				d = t.segs[t.si].data
				if t.pos >= len(d) {
					t.si++
					t.pos = 0
					continue
				}
				switch ch := d[t.pos]; {
				case ch == ']':
					b.WriteByte(']')
					t.pos++
					closed = true
				case ch == '"':
					j := t.pos + 1
					for j < len(d) && d[j] != '"' && d[j] != '\r' && d[j] != '\n' {
						if d[j] == '\\' {
							j++
						}
						j++
					}
					if j >= len(d) || d[j] != '"' {
						t.err = "unterminated quoted string"
						return Tok{}, false
					}
					b.WriteString(d[t.pos : j+1])
					t.pos = j + 1
				case ch == '\r' || ch == '\n':
					t.err = "unterminated ["
					return Tok{}, false
				default:
					b.WriteByte(ch)
					t.pos++
				}
			}
		}
		return Tok{Kind: 'a', S: b.String()}, true
	}
}

func parseResp(segs []seg) *Resp {
	resp := &Resp{}
	t := &tokenizer{segs: segs}
	first := segs[0].data
	// line terminator check on the last segment
	last := segs[len(segs)-1].data
	if !strings.HasSuffix(last, "\r\n") {
		resp.Malformed = "missing CRLF"
	}
	sp := strings.IndexByte(first, ' ')
	if sp < 0 {
		resp.Tag = strings.TrimRight(first, "\r\n")
		if resp.Tag != "+" {
			resp.Malformed = "no space after tag"
		}
		return resp
	}
	resp.Tag = first[:sp]
	t.pos = sp + 1
	if resp.Tag == "+" {
		resp.Text = strings.TrimRight(t.rest(), "\r\n")
		return resp
	}
	tok, ok := t.token()
	if !ok || tok.Kind != 'a' {
		resp.Malformed = "missing response name"
		return resp
	}
	if n, err := strconv.ParseUint(tok.S, 10, 32); err == nil && resp.Tag == "*" {
		resp.Num = uint32(n)
		resp.HasNum = true
		if c, _ := t.cur(); c != ' ' {
			resp.Malformed = "missing name after number"
			return resp
		}
		t.pos++
		tok, ok = t.token()
		if !ok || tok.Kind != 'a' {
			resp.Malformed = "missing response name"
			return resp
		}
	}
	resp.Name = strings.ToUpper(tok.S)
	if resp.IsStatus() {
		rest := strings.TrimRight(t.rest(), "\r\n")
		rest = strings.TrimPrefix(rest, " ")
		if strings.HasPrefix(rest, "[") {
			end := strings.IndexByte(rest, ']')
			if end < 0 {
				resp.Malformed = "unterminated response code"
				return resp
			}
			code := rest[1:end]
			if i := strings.IndexByte(code, ' '); i >= 0 {
				resp.Code, resp.CodeArg = strings.ToUpper(code[:i]), code[i+1:]
			} else {
				resp.Code = strings.ToUpper(code)
			}
			rest = strings.TrimPrefix(rest[end+1:], " ")
		}
		resp.Text = rest
		return resp
	}
	for {
		c, ok := t.cur()
		if !ok {
			break
		}
		if !t.atLiteral() {
			if c == ' ' {
				t.pos++
				continue
			}
			if c == '\r' || c == '\n' {
				break
			}
		}
		tok, ok := t.token()
		if !ok {
			if t.err == "" {
				t.err = fmt.Sprintf("unexpected %q", t.rest())
			}
			resp.Malformed = t.err
			return resp
		}
		resp.Toks = append(resp.Toks, tok)
	}
	if t.err != "" {
		resp.Malformed = t.err
	}
	return resp
}

// NextTag returns a fresh tag.
func (r *Raw) NextTag() string {
	r.tagN++
	return fmt.Sprintf("h%d", r.tagN)
}

// Send writes raw bytes.
func (r *Raw) Send(s string) error {
	_, err := io.WriteString(r.C, s)
	return err
}

// Cmd sends "<tag> <line>CRLF" and reads responses up to and including the
// tagged completion. It returns the untagged responses and the tagged one.
func (r *Raw) Cmd(line string) ([]*Resp, *Resp, error) {
	tag := r.NextTag()
	if err := r.Send(tag + " " + line + "\r\n"); err != nil {
		return nil, nil, err
	}
	return r.Until(tag)
}

// Until reads responses until the tagged completion for tag.
func (r *Raw) Until(tag string) ([]*Resp, *Resp, error) {
	var untagged []*Resp
	for {
		resp, err := r.ReadResp()
		if err != nil {
			return untagged, nil, err
		}
		if resp.Tag == tag {
			return untagged, resp, nil
		}
		untagged = append(untagged, resp)
	}
}
