package vh

import (
	"fmt"
	"time"
)

func sprintf(format string, args ...interface{}) string { return fmt.Sprintf(format, args...) }

// Within runs f in its own goroutine and waits at most d for it; it reports
// whether f returned.  Used for calls into the code under test that must
// never be allowed to hang the harness (e.g. Client.Close).
func Within(d time.Duration, f func()) bool {
	ch := make(chan struct{})
	go func() { f(); close(ch) }()
	select {
	case <-ch:
		return true
	case <-time.After(d):
		return false
	}
}
