package vh

import "fmt"

func sprintf(format string, args ...interface{}) string { return fmt.Sprintf(format, args...) }
