package vh

import (
	"bufio"
	"encoding/json"
	"fmt"
	"os"
	"strings"
	"sync"
)

// Out serialises verdict records (one JSON object per line on stdout); the
// python driver turns them into VIOLATION / KNOWN-FINDING lines.
type Out struct {
	mu         sync.Mutex
	w          *bufio.Writer
	Mismatches int
}

func NewOut() *Out { return &Out{w: bufio.NewWriterSize(os.Stdout, 1<<20)} }

func (o *Out) Emit(v interface{}) {
	b, err := json.Marshal(v)
	if err != nil {
		panic(err)
	}
	o.mu.Lock()
	o.w.Write(b)
	o.w.WriteByte('\n')
	o.mu.Unlock()
}

// Mismatch reports a disagreement between the real code and the spec.
// sig is the stable signature used to match known findings; replay is the
// self-contained case (behaviour / input) that reproduces it.
func (o *Out) Mismatch(sig, detail string, replay interface{}) {
	o.mu.Lock()
	o.Mismatches++
	o.mu.Unlock()
	o.Emit(map[string]interface{}{"kind": "mismatch", "sig": sig, "detail": detail, "replay": replay})
}

func (o *Out) Summary(m map[string]interface{}) {
	m["kind"] = "summary"
	o.Emit(m)
}

func (o *Out) Flush() { o.mu.Lock(); o.w.Flush(); o.mu.Unlock() }

// ReadTLines reads a TLC output file and calls f with the JSON payload of
// every line of the form <<"T", "...">>.
func ReadTLines(path string, f func(payload []byte) error) error {
	fh, err := os.Open(path)
	if err != nil {
		return err
	}
	defer fh.Close()
	sc := bufio.NewScanner(fh)
	sc.Buffer(make([]byte, 1<<20), 1<<28)
	const pre = `<<"T", "`
	for sc.Scan() {
		line := sc.Text()
		if !strings.HasPrefix(line, pre) || !strings.HasSuffix(line, `">>`) {
			continue
		}
		body := line[len(pre) : len(line)-3]
		// TLC prints the string with \" and \\ escapes
		var s string
		if err := json.Unmarshal([]byte(`"`+body+`"`), &s); err != nil {
			return fmt.Errorf("bad T line: %v", err)
		}
		if err := f([]byte(s)); err != nil {
			return err
		}
	}
	return sc.Err()
}
