package vh

import (
	"crypto/ecdsa"
	"crypto/elliptic"
	"crypto/rand"
	"crypto/tls"
	"crypto/x509"
	"crypto/x509/pkix"
	"github.com/emersion/go-sasl"
	"io"
	"math/big"
	"net"
	"sync"
	"time"

	"github.com/emersion/go-imap/v2"
	"github.com/emersion/go-imap/v2/imapserver"
)

// CallRec is one backend call observed by a ScriptSession.
type CallRec struct {
	M    string      // method name
	Args interface{} // method-specific summary (may be nil)
}

// ScriptSession is an imapserver.Session that logs every call and fails the
// FailAt-th call of the current command (1-based, 0 = none) with NO.
// Poll is neither logged nor counted.
type ScriptSession struct {
	mu       sync.Mutex
	Log      []CallRec
	FailAt   int
	n        int
	Closed   int // number of Close calls
	OnPoll   func(w *imapserver.UpdateWriter, allow bool) error
	Quiet    bool                             // while true calls are not logged/counted (probes)
	QuietLog []string                         // methods called while Quiet
	Hook     func(m string, args interface{}) // optional, called under no lock after logging
	// EchoFetch: Fetch answers with one message carrying every requested body section (2 octets each)
	EchoFetch bool
}

var errScripted = &imap.Error{Type: imap.StatusResponseTypeNo, Text: "scripted failure"}

// Begin resets the per-command counters.
func (s *ScriptSession) Begin(failAt int) {
	s.mu.Lock()
	s.Log = nil
	s.n = 0
	s.FailAt = failAt
	s.mu.Unlock()
}

func (s *ScriptSession) SetQuiet(q bool) { s.mu.Lock(); s.Quiet = q; s.QuietLog = nil; s.mu.Unlock() }

// QuietCalls returns the methods called since SetQuiet(true).
func (s *ScriptSession) QuietCalls() []string {
	s.mu.Lock()
	defer s.mu.Unlock()
	return append([]string(nil), s.QuietLog...)
}

// Calls returns the methods logged since Begin.
func (s *ScriptSession) Calls() []CallRec {
	s.mu.Lock()
	defer s.mu.Unlock()
	return append([]CallRec(nil), s.Log...)
}

func (s *ScriptSession) CloseCount() int { s.mu.Lock(); defer s.mu.Unlock(); return s.Closed }

func (s *ScriptSession) call(m string, args interface{}) error {
	s.mu.Lock()
	if s.Quiet {
		s.QuietLog = append(s.QuietLog, m)
		s.mu.Unlock()
		return nil
	}
	s.n++
	fail := s.FailAt != 0 && s.n == s.FailAt
	s.Log = append(s.Log, CallRec{m, args})
	h := s.Hook
	s.mu.Unlock()
	if h != nil {
		h(m, args)
	}
	if fail {
		return errScripted
	}
	return nil
}

func (s *ScriptSession) Close() error {
	s.mu.Lock()
	s.Closed++
	s.mu.Unlock()
	return nil
}
func (s *ScriptSession) Login(username, password string) error {
	return s.call("Login", []string{username, password})
}
func (s *ScriptSession) Select(mailbox string, options *imap.SelectOptions) (*imap.SelectData, error) {
	if err := s.call("Select", []interface{}{mailbox, options}); err != nil {
		return nil, err
	}
	return &imap.SelectData{NumMessages: 1, UIDNext: 2, UIDValidity: 1}, nil
}
func (s *ScriptSession) Create(mailbox string, options *imap.CreateOptions) error {
	return s.call("Create", []interface{}{mailbox, options})
}
func (s *ScriptSession) Delete(mailbox string) error { return s.call("Delete", mailbox) }
func (s *ScriptSession) Rename(mailbox, newName string) error {
	return s.call("Rename", []string{mailbox, newName})
}
func (s *ScriptSession) Subscribe(mailbox string) error   { return s.call("Subscribe", mailbox) }
func (s *ScriptSession) Unsubscribe(mailbox string) error { return s.call("Unsubscribe", mailbox) }
func (s *ScriptSession) List(w *imapserver.ListWriter, ref string, patterns []string, options *imap.ListOptions) error {
	return s.call("List", []interface{}{ref, patterns, options})
}
func (s *ScriptSession) Status(mailbox string, options *imap.StatusOptions) (*imap.StatusData, error) {
	if err := s.call("Status", []interface{}{mailbox, options}); err != nil {
		return nil, err
	}
	var z uint32
	var z64 int64
	return &imap.StatusData{Mailbox: mailbox, NumMessages: &z, NumUnseen: &z, NumDeleted: &z, Size: &z64}, nil
}
func (s *ScriptSession) Append(mailbox string, r imap.LiteralReader, options *imap.AppendOptions) (*imap.AppendData, error) {
	switch mailbox {
	case "mfail":
		// refused before anything of the message has been read
		s.call("Append", []interface{}{mailbox, "", r.Size(), options})
		return nil, errScripted
	case "mpanic":
		s.call("Append", []interface{}{mailbox, "", r.Size(), options})
		panic("scripted panic in Append before the literal has been read")
	}
	b, _ := io.ReadAll(r)
	if err := s.call("Append", []interface{}{mailbox, string(b), r.Size(), options}); err != nil {
		return nil, err
	}
	return &imap.AppendData{UID: 1, UIDValidity: 1}, nil
}
func (s *ScriptSession) Poll(w *imapserver.UpdateWriter, allowExpunge bool) error {
	if s.OnPoll != nil {
		return s.OnPoll(w, allowExpunge)
	}
	return nil
}
func (s *ScriptSession) Idle(w *imapserver.UpdateWriter, stop <-chan struct{}) error {
	err := s.call("Idle", nil)
	<-stop
	return err
}
func (s *ScriptSession) Unselect() error { return s.call("Unselect", nil) }
func (s *ScriptSession) Expunge(w *imapserver.ExpungeWriter, uids *imap.UIDSet) error {
	return s.call("Expunge", uids)
}
func (s *ScriptSession) Search(kind imapserver.NumKind, criteria *imap.SearchCriteria, options *imap.SearchOptions) (*imap.SearchData, error) {
	if err := s.call("Search", []interface{}{kind, criteria, options}); err != nil {
		return nil, err
	}
	if kind == imapserver.NumKindUID {
		return &imap.SearchData{All: imap.UIDSet{}, UID: true}, nil
	}
	return &imap.SearchData{All: imap.SeqSet{}}, nil
}
func (s *ScriptSession) Fetch(w *imapserver.FetchWriter, numSet imap.NumSet, options *imap.FetchOptions) error {
	if err := s.call("Fetch", []interface{}{numSet, options}); err != nil {
		return err
	}
	if s.EchoFetch && options != nil {
		// answer with the requested body sections: the server echoes each section specification
		m := w.CreateMessage(1)
		for _, sec := range options.BodySection {
			wc := m.WriteBodySection(sec, 2)
			wc.Write([]byte("ok"))
			wc.Close()
		}
		return m.Close()
	}
	return nil
}
func (s *ScriptSession) Store(w *imapserver.FetchWriter, numSet imap.NumSet, flags *imap.StoreFlags, options *imap.StoreOptions) error {
	return s.call("Store", []interface{}{numSet, flags, options})
}
func (s *ScriptSession) Copy(numSet imap.NumSet, dest string) (*imap.CopyData, error) {
	if err := s.call("Copy", []interface{}{numSet, dest}); err != nil {
		return nil, err
	}
	return nil, nil
}

// optional interfaces
func (s *ScriptSession) move(w *imapserver.MoveWriter, numSet imap.NumSet, dest string) error {
	return s.call("Move", []interface{}{numSet, dest})
}
func (s *ScriptSession) namespace() (*imap.NamespaceData, error) {
	if err := s.call("Namespace", nil); err != nil {
		return nil, err
	}
	return &imap.NamespaceData{}, nil
}
func (s *ScriptSession) unauth() error { return s.call("Unauthenticate", nil) }

type sessM struct{ *ScriptSession }
type sessN struct{ *ScriptSession }
type sessU struct{ *ScriptSession }
type sessMN struct{ *ScriptSession }
type sessMU struct{ *ScriptSession }
type sessNU struct{ *ScriptSession }
type sessMNU struct{ *ScriptSession }

func (s sessM) Move(w *imapserver.MoveWriter, n imap.NumSet, d string) error  { return s.move(w, n, d) }
func (s sessMN) Move(w *imapserver.MoveWriter, n imap.NumSet, d string) error { return s.move(w, n, d) }
func (s sessMU) Move(w *imapserver.MoveWriter, n imap.NumSet, d string) error { return s.move(w, n, d) }
func (s sessMNU) Move(w *imapserver.MoveWriter, n imap.NumSet, d string) error {
	return s.move(w, n, d)
}
func (s sessN) Namespace() (*imap.NamespaceData, error)   { return s.namespace() }
func (s sessMN) Namespace() (*imap.NamespaceData, error)  { return s.namespace() }
func (s sessNU) Namespace() (*imap.NamespaceData, error)  { return s.namespace() }
func (s sessMNU) Namespace() (*imap.NamespaceData, error) { return s.namespace() }
func (s sessU) Unauthenticate() error                     { return s.unauth() }
func (s sessMU) Unauthenticate() error                    { return s.unauth() }
func (s sessNU) Unauthenticate() error                    { return s.unauth() }
func (s sessMNU) Unauthenticate() error                   { return s.unauth() }

// SASL: a session with its own mechanisms (imapserver.SessionSASL): PLAIN and XTEST, both accepting any
// response; AUTHENTICATE then goes through Authenticate (logged as such) instead of Login.
type sessS struct{ *ScriptSession }
type sessMNUS struct{ sessMNU }

type acceptAll struct{}

func (acceptAll) Next(response []byte) ([]byte, bool, error) {
	if response == nil {
		return nil, false, nil // no initial response: ask for one
	}
	return nil, true, nil
}

// withFinal accepts any response and ends with data for the client (like SCRAM's server signature)
type withFinal struct{}

func (withFinal) Next(response []byte) ([]byte, bool, error) {
	if response == nil {
		return nil, false, nil
	}
	return []byte("fin"), true, nil
}

func (s *ScriptSession) saslAuth(mech string) (sasl.Server, error) {
	if err := s.call("Authenticate", mech); err != nil {
		return nil, err
	}
	if mech == "XFINAL" {
		return withFinal{}, nil
	}
	return acceptAll{}, nil
}
func (s sessS) AuthenticateMechanisms() []string              { return []string{"PLAIN", "XTEST"} }
func (s sessS) Authenticate(m string) (sasl.Server, error)    { return s.saslAuth(m) }
func (s sessMNUS) AuthenticateMechanisms() []string           { return []string{"PLAIN", "XTEST"} }
func (s sessMNUS) Authenticate(m string) (sasl.Server, error) { return s.saslAuth(m) }

// WrapSASL is Wrap for a session that also implements SessionSASL (all optional interfaces or none).
func (s *ScriptSession) WrapSASL(all bool) imapserver.Session {
	if all {
		return sessMNUS{sessMNU{s}}
	}
	return sessS{s}
}

// Wrap returns s as a Session implementing exactly the requested optional interfaces.
func (s *ScriptSession) Wrap(move, namespace, unauth bool) imapserver.Session {
	switch {
	case move && namespace && unauth:
		return sessMNU{s}
	case move && namespace:
		return sessMN{s}
	case move && unauth:
		return sessMU{s}
	case namespace && unauth:
		return sessNU{s}
	case move:
		return sessM{s}
	case namespace:
		return sessN{s}
	case unauth:
		return sessU{s}
	}
	return s
}

// Registry associates the server end of an in-memory connection with
// per-connection harness data (the stub session to hand out in NewSession).
type Registry struct{ m sync.Map }

func (r *Registry) Put(server *Conn, v interface{}) { r.m.Store(server, v) }
func (r *Registry) Get(c *imapserver.Conn) interface{} {
	nc := c.NetConn()
	if t, ok := nc.(*tls.Conn); ok {
		nc = t.NetConn()
	}
	v, _ := r.m.Load(nc)
	return v
}
func (r *Registry) Drop(server *Conn) { r.m.Delete(server) }

// Dial2 creates a connection pair, lets prep register the server end, then
// hands it to the server.
func (l *Listener) Dial2(prep func(server *Conn)) (*Conn, *Conn, error) {
	c, s := NewConnPair()
	if prep != nil {
		prep(s)
	}
	var sc net.Conn = s
	if l.Wrap != nil {
		sc = l.Wrap(s)
	}
	select {
	case l.ch <- sc:
		return c, s, nil
	case <-l.done:
		return nil, nil, io.ErrClosedPipe
	}
}

var (
	tlsOnce sync.Once
	tlsCfg  *tls.Config
)

// ServerTLSConfig returns a process-wide TLS configuration with a
// certificate generated at start-up (no files, no network).
func ServerTLSConfig() *tls.Config {
	tlsOnce.Do(func() {
		key, err := ecdsa.GenerateKey(elliptic.P256(), rand.Reader)
		if err != nil {
			panic(err)
		}
		tmpl := &x509.Certificate{
			SerialNumber: big.NewInt(1),
			Subject:      pkix.Name{CommonName: "verif"},
			NotBefore:    time.Now().Add(-time.Hour),
			NotAfter:     time.Now().Add(24 * time.Hour),
			KeyUsage:     x509.KeyUsageDigitalSignature,
			ExtKeyUsage:  []x509.ExtKeyUsage{x509.ExtKeyUsageServerAuth},
			DNSNames:     []string{"verif"},
		}
		der, err := x509.CreateCertificate(rand.Reader, tmpl, tmpl, &key.PublicKey, key)
		if err != nil {
			panic(err)
		}
		tlsCfg = &tls.Config{Certificates: []tls.Certificate{{Certificate: [][]byte{der}, PrivateKey: key}}}
	})
	return tlsCfg
}

// ClientTLSConfig is the matching client configuration.
func ClientTLSConfig() *tls.Config {
	return &tls.Config{InsecureSkipVerify: true, ServerName: "verif"}
}
